"""Obligations, findings, known findings, evidence and replay files."""
import json
import os
import re
import time

from .model import AnalysisError

VERIF = os.path.dirname(os.path.dirname(os.path.abspath(__file__)))
OUT = os.environ.get("SVA_OUT", VERIF)  # self-tests redirect evidence/replays away from /verif


class Finding:
    def __init__(self, prop, rule, construct, detail, line, message, extra=None):
        self.prop = prop
        self.rule = rule
        self.construct = construct
        self.detail = detail
        self.line = line
        self.message = message
        self.extra = extra or {}

    @property
    def key(self):
        return "%s|%s|%s" % (self.rule, self.construct, self.detail)

    def as_dict(self):
        return {
            "property": self.prop,
            "rule": self.rule,
            "construct": self.construct,
            "detail": self.detail,
            "key": self.key,
            "file": "svgelements/svgelements.py",
            "line": self.line,
            "message": self.message,
            "extra": self.extra,
        }


class Ctx:
    """Collects what one property check did."""

    def __init__(self, prop, tier, model):
        self.prop = prop
        self.tier = tier
        self.m = model
        self.findings = []
        self.obligations = 0
        self.discharged = 0
        self.rule_instances = {}
        self.rule_text = {}
        self.samples = []
        self.functions = set()
        self.notes = []
        self.constructs = set()
        self._seen_keys = set()

    def rule(self, rid, text):
        self.rule_text[rid] = text
        self.rule_instances.setdefault(rid, 0)

    def fn(self, qual, rule=None):
        f = self.m.func(qual, rule or "anchor")
        self.functions.add(qual)
        return f

    def ob(self, rule, construct, ok, info="", line=0, msg="", extra=None, sample=True, detail=""):
        """One obligation: rule applied to construct. `detail` is part of the finding key (keep it short and
        stable); `info` is free diagnostic text (formulas, source) and is not part of the key."""
        self.obligations += 1
        self.rule_instances[rule] = self.rule_instances.get(rule, 0) + 1
        self.constructs.add((rule, construct))
        if ok:
            self.discharged += 1
        else:
            f = Finding(self.prop, rule, construct, detail, line, (msg + (" :: " + info if info else "")), extra)
            if f.key not in self._seen_keys:
                self._seen_keys.add(f.key)
                self.findings.append(f)
        if sample:
            per_rule = sum(1 for s in self.samples if s["rule"] == rule)
            if per_rule < 3 or not ok:
                self.samples.append(
                    {
                        "rule": rule,
                        "construct": construct,
                        "verdict": "ok" if ok else "finding",
                        "detail": (info or detail or msg)[:300],
                        "line": line,
                    }
                )
        return ok

    def need(self, cond, rule, what):
        if not cond:
            raise AnalysisError(rule, what)
        return cond

    def floor(self, rule, count, minimum, what=""):
        if count < minimum:
            raise AnalysisError(rule, "instance floor missed: %d < %d %s" % (count, minimum, what))

    def note(self, text):
        self.notes.append(text)

    def renamed(self, rule):
        """A view of this context under which another property's rule set reports as `rule` of this property (shared
        obligations: the same construct decides a clause of both properties)."""
        return _Renamed(self, rule)


class _Renamed:
    def __init__(self, ctx, rule):
        self._ctx = ctx
        self._rule = rule

    def __getattr__(self, name):
        return getattr(self._ctx, name)

    def rule(self, rid, text):
        pass

    def fn(self, qual, rule=None):
        return self._ctx.fn(qual, self._rule)

    def ob(self, rule, construct, ok, *a, **kw):
        return self._ctx.ob(self._rule, construct, ok, *a, **kw)

    def need(self, cond, rule, what):
        return self._ctx.need(cond, self._rule, what)

    def floor(self, rule, count, minimum, what=""):
        return self._ctx.floor(self._rule, count, minimum, what)

    def renamed(self, rule):
        return _Renamed(self._ctx, rule)


def load_known():
    path = os.path.join(VERIF, "known_findings.json")
    if not os.path.exists(path):
        return []
    with open(path) as f:
        return json.load(f)["findings"]


def finish(ctx, level_note, assumptions, t0, explanation, exhaustive=False, extra=None):
    """Triage findings against known_findings.json, write evidence + replays, print lines, return exit code."""
    known = {}
    for e in load_known():
        if e.get("property") == ctx.prop and e.get("status") == "known":
            known[e["key"]] = e
    violations = []
    known_hits = []
    for f in ctx.findings:
        if f.key in known:
            known_hits.append((f, known[f.key]))
        else:
            violations.append(f)
    rdir = os.path.join(OUT, "replays", ctx.prop)
    os.makedirs(rdir, exist_ok=True)
    for old in os.listdir(rdir):
        if old.endswith(".json"):
            try:
                os.remove(os.path.join(rdir, old))
            except OSError:
                pass
    for f, e in known_hits:
        print("KNOWN-FINDING: property=%s %s [%s] %s" % (ctx.prop, e.get("what", f.message), f.key, "line %s" % f.line))
    for i, f in enumerate(violations):
        name = re.sub(r"[^A-Za-z0-9_.-]+", "_", f.key)[:120]
        rp = os.path.join(rdir, "%02d_%s.json" % (i, name))
        with open(rp, "w") as fh:
            json.dump(f.as_dict(), fh, indent=1, default=str)
        print(
            "FINDING rule=%s construct=%s %s:%s %s -- %s"
            % (f.rule, f.construct, "svgelements/svgelements.py", f.line, f.detail, f.message)
        )
        print("VIOLATION property=%s replay=%s" % (ctx.prop, os.path.relpath(rp, OUT)))
    distinct = len(ctx.constructs)
    ev = {
        "property_id": ctx.prop,
        "tier": ctx.tier,
        "seed": int(os.environ.get("VERIF_SEED", "0") or 0),
        "level": "other",
        "coverage": {
            "explanation": explanation,
            "obligations": ctx.obligations,
            "discharged": ctx.discharged,
            "evaluations": ctx.obligations,
            "distinct_nontrivial": distinct,
            "rule": "one evaluation = one rule instance applied to one code construct found by role in the current "
            "source; distinct_nontrivial = number of distinct (rule, construct) pairs, each of which had a concrete "
            "construct to inspect (rules with a missing anchor abort the run instead of counting)",
            "rules": ctx.rule_text,
            "rule_instances": ctx.rule_instances,
            "functions_analysed": sorted(ctx.functions),
            "samples": ctx.samples[:80],
            "exhaustive": exhaustive,
            "known_findings_reported": [f.key for f, _ in known_hits],
            "unlisted_findings": [f.key for f in violations],
            "source_sha256": ctx.m.digest,
            "normalisation": {k: (len(v) if isinstance(v, list) else v) for k, v in getattr(ctx.m, "normalisation", {}).items()},
            "notes": ctx.notes,
        },
        "assumptions": assumptions,
        "wall_s": round(time.time() - t0, 3),
        "violations": len(violations),
    }
    if extra:
        ev["coverage"].update(extra)
        a = extra.get("arming")
        if a:
            print("arming: corpus %d/%d as expected; auto mutants %d generated, %d killed, %d undecided, %d survived"
                  % (a["corpus"]["as_expected"], a["corpus"]["variants"] - a["corpus"]["stale"], a["auto"]["generated"], a["auto"]["killed"], a["auto"]["undecided"], a["auto"]["survived"]))
    os.makedirs(os.path.join(OUT, "evidence"), exist_ok=True)
    with open(os.path.join(OUT, "evidence", "%s.json" % ctx.prop), "w") as fh:
        json.dump(ev, fh, indent=1, default=str)
    print(
        "%s %s: %d obligations, %d discharged, %d known finding(s), %d violation(s), %.2fs"
        % (ctx.prop, ctx.tier, ctx.obligations, ctx.discharged, len(known_hits), len(violations), time.time() - t0)
    )
    return 1 if violations else 0
