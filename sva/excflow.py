"""T5 exception-escape analysis: which exception types can leave a function, from confirmed source kinds only.

Sources (each a syntactic pattern whose failure mode was reproduced on the real code for at least one instance):
  raise           explicit `raise X` (except TypeError argument-type guards and `if not isinstance(...)` guards)
  conv            float()/int() of a string that is not proved to be in the converter's grammar (regex group languages are
                  compared with the grammar as automata; literals and arithmetic are exempt)             -> ValueError
  index           constant subscript of a list produced by findall()/split()/a comprehension over such     -> IndexError
  arity           star-call passing such a list to a callee                                                 -> TypeError
  zerodiv         division by a parameter in Viewbox.viewbox_transform (the one data-driven divisor named
                  by the properties)                                                                        -> ZeroDivisionError
  overflow        int()/round() of a float that may be infinite: float(<document text>) accepts '1e999' and 'inf', and
                  int(inf)/round(inf) raise OverflowError, which `except ValueError` does not take.  A value is possibly
                  infinite when it is float(<non-constant>), a parameter, or arithmetic over such; a comparison-clamped
                  local (`if x > 1: x = 1.0`) and min()/max() against a constant are finite                 -> OverflowError
  nonefield       arithmetic on <local>.<field> where the local was built in the same function by a class whose
                  __init__ sets the field to None and fills it only conditionally (Viewbox after an incomplete
                  viewBox), without a None test on that field dominating the use                            -> TypeError
  nonepoint       in a property getter (the point accessors of Path): Point(<stored segment>.start|end) without a dominating
                  None test of that expression - a closepath with nothing before it is stored as
                  Close(None, None).  Not applied to the connection validators, whose branch structure excludes
                  the None case by a case analysis this analysis does not make                              -> TypeError
Exceptions are propagated along resolved calls (constructors -> __init__ chain, Class.m, self.m by MRO in the context
class, unique method names, unique non-trivial property getters) and subtracted at try/except handlers.
Unresolved calls contribute nothing and are counted.
"""
import ast

from . import rx
from .model import AnalysisError, attr_chain, call_name
from .flow import stored_endpoint as _stored_endpoint

ALL = "*"
PYFLOAT = r"[-+]?([0-9]+\.?[0-9]*|\.[0-9]+)([eE][-+]?[0-9]+)?"
PYINT = r"[-+]?[0-9]+"


def _binds(scope, name):
    """the constructs of `scope` that bind `name` themselves (an assignment inside a loop body is the assignment, not the loop)"""
    out = []
    for b in ast.walk(scope):
        if isinstance(b, ast.Assign):
            tg = [t for x in b.targets for t in ast.walk(x)]
        elif isinstance(b, (ast.AugAssign, ast.NamedExpr, ast.AnnAssign)):
            tg = list(ast.walk(b.target))
        elif isinstance(b, (ast.For, ast.comprehension)):
            tg = list(ast.walk(b.target))
        elif isinstance(b, ast.With):
            tg = [t for it in b.items if it.optional_vars is not None for t in ast.walk(it.optional_vars)]
        elif isinstance(b, ast.ExceptHandler):
            tg = [ast.Name(id=b.name, ctx=ast.Store())] if b.name else []
        else:
            continue
        if any(isinstance(t, ast.Name) and t.id == name for t in tg):
            out.append(b)
    return out


class Flow:
    def __init__(self, model):
        self.m = model
        self.memo = {}
        self.stack = set()
        self.unresolved = 0
        self.resolved = 0
        self.witness = {}  # (qual, exc) -> description of one source
        self._unique_methods = None
        self._float_lang = rx.Lang(PYFLOAT)
        self._int_lang = rx.Lang(PYINT)
        self._group_cache = {}

    # ------------------------------------------------------------------ resolution
    def unique_methods(self):
        if self._unique_methods is None:
            owners = {}
            for cn, ci in self.m.classes.items():
                for mn in ci.methods:
                    owners.setdefault(mn, []).append(cn)
            self._unique_methods = {mn: cs[0] for mn, cs in owners.items() if len(cs) == 1}
            getters = {}
            for cn, ci in self.m.classes.items():
                for gn, g in ci.getters.items():
                    getters.setdefault(gn, []).append(cn)
            self._unique_getters = {gn: cs[0] for gn, cs in getters.items() if len(cs) == 1}
            setters = {}
            for cn, ci in self.m.classes.items():
                for gn, g in ci.setters.items():
                    setters.setdefault(gn, []).append(cn)
            self._unique_setters = {gn: cs[0] for gn, cs in setters.items() if len(cs) == 1}
        return self._unique_methods

    def resolve(self, call, ctxclass, scope=None):
        """-> list of (qual, fn, ctxclass_for_callee)"""
        m = self.m
        f = call.func
        if scope is not None and isinstance(f, ast.Attribute) and isinstance(f.value, ast.Name) and f.value.id not in ("self", "cls") and f.value.id not in m.classes:
            # local bound once, to a constructor call of a module class: tokens = SVGLexicalParser(); tokens.parse(...)
            binds = _binds(scope, f.value.id)
            params = [a.arg for a in scope.args.args + scope.args.kwonlyargs]
            if len(binds) == 1 and f.value.id not in params and isinstance(binds[0], ast.Assign) and len(binds[0].targets) == 1 and isinstance(binds[0].targets[0], ast.Name) \
                    and isinstance(binds[0].value, ast.Call) and isinstance(binds[0].value.func, ast.Name) and binds[0].value.func.id in m.classes:
                c = binds[0].value.func.id
                try:
                    fn = m.func("%s.%s" % (c, f.attr))
                    return [("%s.%s" % (m.owner("%s.%s" % (c, f.attr)), f.attr), fn, c)]
                except AnalysisError:
                    pass
        if isinstance(f, ast.Name):
            if f.id in m.classes:
                for c in m.mro(f.id):
                    if "__init__" in m.classes[c].methods:
                        return [("%s.__init__" % c, m.classes[c].methods["__init__"], f.id)]
                return []
            if f.id in m.functions:
                return [(f.id, m.functions[f.id], None)]
            return None
        if isinstance(f, ast.Attribute):
            ch = attr_chain(f)
            if ch and len(ch) == 2 and ch[0] in m.classes:
                try:
                    fn = m.func("%s.%s" % (ch[0], ch[1]))
                except AnalysisError:
                    return None
                # Base.method(self, ...) keeps the dynamic class; Class.static(...) uses Class
                explicit_self = bool(call.args) and isinstance(call.args[0], ast.Name) and call.args[0].id == "self"
                return [("%s.%s" % (m.owner("%s.%s" % (ch[0], ch[1])) or ch[0], ch[1]), fn, ctxclass if explicit_self else ch[0])]
            if ch and len(ch) == 2 and ch[0] in ("self", "cls") and ctxclass:
                try:
                    fn = m.func("%s.%s" % (ctxclass, ch[1]))
                except AnalysisError:
                    return None
                return [("%s.%s" % (m.owner("%s.%s" % (ctxclass, ch[1])), ch[1]), fn, ctxclass)]
            um = self.unique_methods()
            if f.attr in um and f.attr not in ("append", "extend", "get", "update", "split", "strip", "lower", "match", "findall", "format", "items", "insert", "pop"):
                c = um[f.attr]
                return [("%s.%s" % (c, f.attr), m.classes[c].methods[f.attr], c)]
            # constructor result receiver: Length(x).value()
            if isinstance(f.value, ast.Call) and isinstance(f.value.func, ast.Name) and f.value.func.id in m.classes:
                c = f.value.func.id
                try:
                    fn = m.func("%s.%s" % (c, f.attr))
                    return [("%s.%s" % (m.owner("%s.%s" % (c, f.attr)), f.attr), fn, c)]
                except AnalysisError:
                    return None
        return None

    def instance_local(self, a, scope):
        if isinstance(a, ast.Call) and isinstance(a.func, ast.Name) and a.func.id in self.m.classes:
            return True
        if not isinstance(a, ast.Name):
            return False
        params = [x.arg for x in scope.args.args + scope.args.kwonlyargs]
        if a.id in params:
            return False
        binds = _binds(scope, a.id)
        return bool(binds) and all(isinstance(b, ast.Assign) and len(b.targets) == 1 and isinstance(b.targets[0], ast.Name) and isinstance(b.value, ast.Call)
                                   and isinstance(b.value.func, ast.Name) and b.value.func.id in self.m.classes for b in binds)

    def maybe_none_fields(self, cname):
        """fields `self.f = None` at the top level of __init__ that no later top-level statement of __init__ sets unconditionally"""
        if not hasattr(self, "_mnf"):
            self._mnf = {}
        if cname not in self._mnf:
            out = set()
            ci = self.m.classes.get(cname)
            init = ci.methods.get("__init__") if ci else None
            if init is not None:
                for st in init.body:
                    if isinstance(st, ast.Assign):
                        for t in st.targets:
                            ch = attr_chain(t)
                            if ch and len(ch) == 2 and ch[0] == "self":
                                if isinstance(st.value, ast.Constant) and st.value.value is None:
                                    out.add(ch[1])
                                else:
                                    out.discard(ch[1])
            self._mnf[cname] = out
        return self._mnf[cname]

    # ------------------------------------------------------------------ regex group languages
    def group_lang(self, regex_name, group):
        key = (regex_name, group)
        if key not in self._group_cache:
            pat = self.m.regexes.get(regex_name)
            if pat is None:
                self._group_cache[key] = None
            else:
                try:
                    tree = rx.parse(pat)
                    if group == 0:
                        self._group_cache[key] = rx.Lang(tree=tree, lookahead="skip")
                    else:
                        g = rx.groups(tree)
                        self._group_cache[key] = rx.sublang(g[group]) if group in g else None
                except (rx.Unsupported, KeyError):
                    self._group_cache[key] = None
        return self._group_cache[key]

    # ------------------------------------------------------------------ main
    def may_raise(self, qual, fn, ctxclass, n_star=None, notstr=()):
        """-> dict exception name -> witness (where it originates)"""
        key = (qual, ctxclass, n_star if fn.args.vararg else None, tuple(sorted(notstr)))
        if key in self.memo:
            return self.memo[key]
        if key in self.stack:
            return {}
        self.stack.add(key)
        try:
            an = _Fn(self, qual, fn, ctxclass, n_star, notstr)
            res = an.block(fn.body)
        finally:
            self.stack.discard(key)
        self.memo[key] = res
        return res

    def call_may_raise(self, call, ctxclass, via="?", scope=None):
        targets = self.resolve(call, ctxclass, scope)
        if targets is None:
            self.unresolved += 1
            return {}
        self.resolved += 1
        out = {}
        for qual, fn, c in targets:
            n_star = None
            if fn.args.vararg is not None and not any(isinstance(a, ast.Starred) for a in call.args):
                bound = qual.endswith(".__init__") or (isinstance(call.func, ast.Attribute) and not (isinstance(call.func.value, ast.Name) and call.func.value.id in self.m.classes
                                                                                                    and call.args and isinstance(call.args[0], ast.Name) and call.args[0].id == "self"))
                named = len(fn.args.args) - (1 if bound and fn.args.args and fn.args.args[0].arg in ("self", "cls") else 0)
                n_star = max(0, len(call.args) - named - (0 if bound else 0))
                if not bound and fn.args.args and fn.args.args[0].arg == "self":
                    n_star = max(0, len(call.args) - len(fn.args.args))
            # parameters that receive an instance of a module class at this site (a local bound once to a constructor call):
            # `isinstance(param, str)` is False for them in the callee
            notstr = set()
            if scope is not None and not any(isinstance(a, ast.Starred) for a in call.args):
                pnames = [a.arg for a in fn.args.args]
                if pnames and pnames[0] in ("self", "cls") and not (isinstance(call.func, ast.Attribute) and isinstance(call.func.value, ast.Name) and call.func.value.id in self.m.classes):
                    pnames = pnames[1:]
                for pn, a in zip(pnames, call.args):
                    if self.instance_local(a, scope):
                        notstr.add(pn)
            r = self.may_raise(qual, fn, c, n_star, notstr)
            for e, w in r.items():
                out.setdefault(e, w if w.startswith("<-") is False and " in " in w else w)
        return {e: "%s <- %s" % (via, w) if via != "?" and not w.startswith(via) else w for e, w in out.items()}


def merge(dst, src):
    for e, w in src.items():
        dst.setdefault(e, w)
    return dst


def handler_types(h):
    if h.type is None:
        return {ALL}
    names = []
    for e in (h.type.elts if isinstance(h.type, ast.Tuple) else [h.type]):
        names.append(e.id if isinstance(e, ast.Name) else ast.unparse(e))
    if "Exception" in names or "BaseException" in names:
        return {ALL}
    return set(names)


PARENTS = {"IndexError": {"LookupError"}, "KeyError": {"LookupError"}, "ZeroDivisionError": {"ArithmeticError"}, "UnicodeDecodeError": {"ValueError"}}


def caught(exc, types):
    return ALL in types or exc in types or bool(PARENTS.get(exc, set()) & types)


class _Fn:
    def __init__(self, flow, qual, fn, ctxclass, n_star=None, notstr=()):
        self.flow = flow
        self.notstr = set(notstr)
        self.qual = qual
        self.fn = fn
        self.ctx = ctxclass
        self.n_star = n_star
        self.len_alias = set()
        self.tainted = {}  # name -> (regex name or None, 'list'|'elem'|'groups')
        self.collect_taint()
        va = fn.args.vararg.arg if fn.args.vararg else None
        if va:
            for s in ast.walk(fn):
                if isinstance(s, ast.Assign) and isinstance(s.targets[0], ast.Name) and ast.unparse(s.value) == "len(%s)" % va:
                    self.len_alias.add(s.targets[0].id)

    def decide_arity(self, test):
        """len(<vararg>) == k style tests decided by the call-site arity (None = unknown)."""
        if self.n_star is None or self.fn.args.vararg is None:
            return None
        va = self.fn.args.vararg.arg
        if isinstance(test, ast.BoolOp) and isinstance(test.op, ast.And):
            vals = [self.decide_arity(v) for v in test.values]
            if any(v is False for v in vals):
                return False
            return True if all(v is True for v in vals) else None
        if isinstance(test, ast.Compare) and len(test.ops) == 1 and isinstance(test.comparators[0], ast.Constant) and isinstance(test.comparators[0].value, int):
            l = ast.unparse(test.left)
            if l == "len(%s)" % va or l in self.len_alias:
                k = test.comparators[0].value
                n = self.n_star
                return {ast.Eq: n == k, ast.NotEq: n != k, ast.Gt: n > k, ast.GtE: n >= k, ast.Lt: n < k, ast.LtE: n <= k}.get(type(test.ops[0]))
        if isinstance(test, ast.Name) and test.id == va:
            return self.n_star > 0
        return None

    def decide_test(self, test):
        d = self.decide_arity(test)
        if d is not None:
            return d
        if isinstance(test, ast.Call) and isinstance(test.func, ast.Name) and test.func.id == "isinstance" and len(test.args) == 2 and isinstance(test.args[0], ast.Name) \
                and test.args[0].id in self.notstr and isinstance(test.args[1], ast.Name) and test.args[1].id == "str":
            # the parameter must not have been rebound before the test
            rebound = any(isinstance(t, ast.Name) and t.id == test.args[0].id and isinstance(t.ctx, ast.Store) and t.lineno < test.lineno for t in ast.walk(self.fn))
            if not rebound:
                return False
        return None

    def collect_taint(self):
        """Names bound to regex results: findall lists, their elements, match.groups() tuples, split() lists."""
        for _ in range(3):
            for s in ast.walk(self.fn):
                if isinstance(s, ast.Assign) and len(s.targets) == 1:
                    t = s.targets[0]
                    info = self.taint_of(s.value)
                    if info and isinstance(t, ast.Name):
                        self.tainted[t.id] = info
                if isinstance(s, (ast.For, ast.comprehension)):
                    info = self.taint_of(s.iter)
                    if info and info[1] == "list":
                        tgt = s.target
                        if isinstance(tgt, ast.Name):
                            self.tainted[tgt.id] = (info[0], "elem")
                        elif isinstance(tgt, ast.Tuple):
                            for i, e in enumerate(tgt.elts):
                                if isinstance(e, ast.Name):
                                    self.tainted[e.id] = (info[0], "group%d" % (i + 1))

    def taint_of(self, v):
        if isinstance(v, ast.Call) and isinstance(v.func, ast.Attribute):
            if v.func.attr == "findall":
                ch = attr_chain(v.func.value)
                return (ch[-1] if ch else None, "list")
            if v.func.attr == "split":
                return (None, "list")
            if v.func.attr == "groups":
                return (None, "groups")
        if isinstance(v, ast.Call) and isinstance(v.func, ast.Name) and v.func.id in ("list", "tuple") and v.args:
            return self.taint_of(v.args[0])
        if isinstance(v, ast.Call) and isinstance(v.func, ast.Name) and v.func.id == "map" and len(v.args) == 2:
            inner = self.taint_of(v.args[1])
            if inner and inner[1] == "list":
                return (None, "list")
        if isinstance(v, ast.ListComp) and len(v.generators) == 1:
            inner = self.taint_of(v.generators[0].iter)
            if inner and inner[1] == "list":
                return (None, "list")
        if isinstance(v, ast.Name) and v.id in self.tainted:
            return self.tainted[v.id]
        return None

    # -- statements -------------------------------------------------------------
    def block(self, stmts):
        out = {}
        for s in stmts:
            merge(out, self.stmt(s))
        return out

    def src(self, exc, what, node):
        return {exc: "%s line %d in %s" % (what, getattr(node, "lineno", 0), self.qual)}

    def stmt(self, s):
        if isinstance(s, ast.Try):
            body = self.block(s.body)
            types = set()
            for h in s.handlers:
                types |= handler_types(h)
            escaped = {e: w for e, w in body.items() if not caught(e, types)}
            for h in s.handlers:
                hb = self.block(h.body)
                # bare `raise` inside a handler re-raises what it caught
                if any(isinstance(n, ast.Raise) and n.exc is None for n in ast.walk(ast.Module(h.body, []))):
                    merge(hb, {e: w for e, w in body.items() if caught(e, handler_types(h))})
                merge(escaped, hb)
            merge(escaped, self.block(s.orelse))
            merge(escaped, self.block(s.finalbody))
            return escaped
        if isinstance(s, ast.Raise):
            if s.exc is None:
                return {}
            e = s.exc.func if isinstance(s.exc, ast.Call) else s.exc
            name = e.id if isinstance(e, ast.Name) else ast.unparse(e)
            out = self.expr(s.exc)
            if name[:1].isupper():
                # an explicit TypeError is an argument-type (API misuse) guard: document text is always str, so it is not
                # data-driven; TypeErrors that ARE data-driven come from the arity source kind
                if name != "TypeError" and not self.type_guarded(s):
                    merge(out, self.src(name, "raise %s" % name, s))
            else:
                # `raise parse_error`: a stored exception object re-raised on request (on_error == "raise")
                merge(out, {"<stored:%s>" % name: "re-raise line %d" % s.lineno})
            return out
        if isinstance(s, (ast.FunctionDef, ast.ClassDef)):
            return {}
        if isinstance(s, ast.If):
            d = self.decide_test(s.test)
            out = self.expr(s.test)
            if d is not False:
                merge(out, self.block(s.body))
            if d is not True:
                merge(out, self.block(s.orelse))
            return out
        if isinstance(s, (ast.For, ast.While)):
            out = self.expr(s.iter if isinstance(s, ast.For) else s.test)
            merge(out, self.block(s.body))
            merge(out, self.block(s.orelse))
            return out
        if isinstance(s, ast.With):
            out = {}
            for it in s.items:
                merge(out, self.expr(it.context_expr))
            merge(out, self.block(s.body))
            return out
        out = {}
        for child in ast.iter_child_nodes(s):
            if isinstance(child, ast.expr):
                merge(out, self.expr(child))
        if isinstance(s, (ast.Assign, ast.AugAssign)):
            # a store to a property runs its setter
            for t in (s.targets if isinstance(s, ast.Assign) else [s.target]):
                for tt in (t.elts if isinstance(t, ast.Tuple) else [t]):
                    if isinstance(tt, ast.Attribute):
                        merge(out, self.setter(tt))
        return out

    def setter(self, n):
        self.flow.unique_methods()
        g = self.flow._unique_setters.get(n.attr)
        if g is None:
            return {}
        fn = self.flow.m.classes[g].setters[n.attr]
        if not any(isinstance(x, (ast.Call, ast.Raise)) for x in ast.walk(fn)):
            return {}
        r = self.flow.may_raise("%s.%s:setter" % (g, n.attr), fn, g)
        return {e: "%s <- %s" % (self.qual, w) for e, w in r.items()}

    def type_guarded(self, raise_stmt):
        """`if not isinstance(param, T): raise TypeError` - an API-misuse guard, not driven by document text."""
        p = getattr(raise_stmt, "_parent", None)
        if isinstance(p, ast.If) and raise_stmt in p.body:
            t = p.test
            parts = t.values if isinstance(t, ast.BoolOp) and isinstance(t.op, ast.And) else [t]
            for q in parts:
                if isinstance(q, ast.UnaryOp) and isinstance(q.op, ast.Not) and isinstance(q.operand, ast.Call) and isinstance(q.operand.func, ast.Name) and q.operand.func.id == "isinstance":
                    return True
        return False

    def length_guarded(self, name, index, node):
        """An earlier `if len(name) == 0 / not name / len(name) < n: raise|return|continue` makes name[index] safe."""
        for s in ast.walk(self.fn):
            if not (isinstance(s, ast.If) and s.lineno < node.lineno and s.body and isinstance(s.body[-1], (ast.Raise, ast.Return, ast.Continue, ast.Break))):
                continue
            t = s.test
            if isinstance(t, ast.UnaryOp) and isinstance(t.op, ast.Not) and isinstance(t.operand, ast.Name) and t.operand.id == name and index == 0:
                return True
            if isinstance(t, ast.Compare) and len(t.ops) == 1 and ast.unparse(t.left) == "len(%s)" % name and isinstance(t.comparators[0], ast.Constant):
                k = t.comparators[0].value
                if isinstance(t.ops[0], ast.Eq) and k == 0 and index == 0:
                    return True
                if isinstance(t.ops[0], ast.Lt) and index < k:
                    return True
                if isinstance(t.ops[0], ast.LtE) and index <= k:
                    return True
                if isinstance(t.ops[0], ast.NotEq) and 0 <= index < k:
                    return True
        return False

    # -- expressions ------------------------------------------------------------
    def expr(self, node):
        out = {}
        if node is None:
            return out
        for n in ast.walk(node):
            if isinstance(n, (ast.Lambda,)):
                continue
            if isinstance(n, ast.Call):
                merge(out, self.call(n))
            elif isinstance(n, ast.Subscript) and isinstance(n.ctx, ast.Load):
                merge(out, self.subscript(n))
            elif isinstance(n, ast.Attribute) and isinstance(n.ctx, ast.Load):
                merge(out, self.getter(n))
            elif isinstance(n, ast.Call) and isinstance(n.func, ast.Name) and n.func.id in ("min", "max", "abs", "sqrt", "float", "int", "round") and n.args \
                    and self.none_field_operand(ast.BinOp(left=n.args[0], op=ast.Add(), right=n.args[-1])) is not None:
                merge(out, self.src("TypeError", "%s() over %s, which is None when the object was filled incompletely" % (n.func.id, self.none_field_operand(ast.BinOp(left=n.args[0], op=ast.Add(), right=n.args[-1]))), n))
                merge(out, self.call(n))
            elif isinstance(n, ast.BinOp) and self.none_field_operand(n) is not None:
                merge(out, self.src("TypeError", "arithmetic on %s, which is None when the object was filled incompletely" % self.none_field_operand(n), n))
            elif isinstance(n, ast.BinOp) and isinstance(n.op, ast.Div) and self.qual == "Viewbox.viewbox_transform":
                if isinstance(n.right, ast.Name) and n.right.id in [a.arg for a in self.fn.args.args]:
                    merge(out, self.src("ZeroDivisionError", "division by parameter %s" % n.right.id, n))
        return out

    def expr_children(self, a):
        """sources inside the argument of int(): int(round(float(x)))"""
        out = {}
        for c in ast.walk(a):
            if isinstance(c, ast.Call) and isinstance(c.func, ast.Name) and c.func.id in ("round",) and len(c.args) == 1 and self.maybe_infinite(c.args[0]):
                merge(out, self.src("OverflowError", "round(%s) of a float that may be infinite" % ast.unparse(c.args[0])[:40], c))
        return out

    def none_field_operand(self, n):
        from .flow import dominated

        for side in (n.left, n.right):
            if isinstance(side, ast.Attribute) and isinstance(side.value, ast.Name):
                v, f = side.value.id, side.attr
                binds = [b for b in ast.walk(self.fn) if isinstance(b, ast.Assign) and len(b.targets) == 1 and isinstance(b.targets[0], ast.Name) and b.targets[0].id == v]
                if not binds or not all(isinstance(b.value, ast.Call) and isinstance(b.value.func, ast.Name) and b.value.func.id in self.flow.m.classes for b in binds):
                    continue
                if not any(f in self.flow.maybe_none_fields(b.value.func.id) for b in binds):
                    continue

                def atom_test(test, positive, v=v, f=f):
                    if isinstance(test, ast.Compare) and len(test.ops) == 1 and isinstance(test.comparators[0], ast.Constant) and test.comparators[0].value is None \
                            and attr_chain(test.left) == [v, f]:
                        return isinstance(test.ops[0], ast.IsNot) == positive and isinstance(test.ops[0], (ast.Is, ast.IsNot))
                    return False

                if not dominated(side, self.fn, atom_test):
                    return "%s.%s" % (v, f)
        return None

    def getter(self, n):
        self.flow.unique_methods()
        g = self.flow._unique_getters.get(n.attr)
        if g is None:
            return {}
        fn = self.flow.m.classes[g].getters[n.attr]
        # only non-trivial getters (those that call or raise)
        if not any(isinstance(x, (ast.Call, ast.Raise)) for x in ast.walk(fn)):
            return {}
        if isinstance(getattr(n, "_parent", None), ast.Call) and n._parent.func is n:
            return {}
        return self.flow.may_raise("%s.%s:getter" % (g, n.attr), fn, g)

    def subscript(self, n):
        if isinstance(n.value, ast.Name) and n.value.id in self.tainted and self.tainted[n.value.id][1] == "list":
            idx = n.slice
            if isinstance(idx, ast.Constant) and isinstance(idx.value, int):
                if self.length_guarded(n.value.id, idx.value, n):
                    return {}
                return self.src("IndexError", "constant subscript %s of a regex/split result" % ast.unparse(n), n)
        if isinstance(n.value, ast.Call) and isinstance(n.value.func, ast.Attribute) and n.value.func.attr in ("findall", "split") \
                and isinstance(n.slice, ast.Constant) and isinstance(n.slice.value, int) and (n.value.func.attr == "findall" or n.slice.value != 0):
            return self.src("IndexError", "constant subscript %s of a regex/split result" % ast.unparse(n)[:50], n)
        return {}

    def conv_safe(self, arg, conv):
        """Is float(arg)/int(arg) provably inside the converter's grammar (or not a string at all)?"""
        if isinstance(arg, ast.Constant):
            return True
        if isinstance(arg, (ast.BinOp, ast.UnaryOp)) and not (isinstance(arg, ast.BinOp) and isinstance(arg.op, (ast.Add, ast.Mod)) and any(isinstance(x, ast.Constant) and isinstance(x.value, str) for x in ast.walk(arg))):
            return True  # arithmetic result
        if isinstance(arg, ast.Attribute) or (isinstance(arg, ast.Name) and arg.id in ("self",)):
            return True  # numeric attribute (self.amount, s.x) - not raw document text
        lang = None
        target = self.flow._float_lang if conv == "float" else self.flow._int_lang
        if isinstance(arg, ast.Name) and arg.id in self.tainted:
            rxn, kind = self.tainted[arg.id]
            if kind.startswith("group") and rxn:
                lang = self.flow.group_lang(rxn, int(kind[5:]))
            elif kind == "elem" and rxn:
                pat = self.flow.m.regexes.get(rxn, "")
                lang = self.flow.group_lang(rxn, 0) if rx.parse(pat).state.groups == 1 else None
        if isinstance(arg, ast.Subscript) and isinstance(arg.value, ast.Name) and arg.value.id in self.tainted and isinstance(arg.slice, ast.Constant):
            rxn, kind = self.tainted[arg.value.id]
            if kind == "elem" and rxn:
                lang = self.flow.group_lang(rxn, arg.slice.value + 1)
            elif kind == "list" and rxn:
                pat = self.flow.m.regexes.get(rxn, "")
                if rx.parse(pat).state.groups == 1:  # no capture groups: whole matches
                    lang = self.flow.group_lang(rxn, 0)
        if isinstance(arg, ast.Call) and isinstance(arg.func, ast.Attribute) and arg.func.attr == "group" and not arg.args:
            return True  # decided by C09 (tokenizer languages)
        if lang is not None:
            ok, _ = rx.included(lang, target)
            return ok
        if isinstance(arg, ast.Name):
            # a parameter or local of unknown provenance: numeric API arguments (opacity, args[...]) are not document text
            params = [a.arg for a in self.fn.args.args]
            if arg.id in params and self.qual.split(".")[-1] not in ("parse",):
                return True
        if isinstance(arg, ast.Subscript) and isinstance(arg.value, ast.Name) and arg.value.id in ("args", "kwargs"):
            return True
        return False

    def maybe_infinite(self, a, depth=0):
        """May the float expression `a` be +-inf?  (float('1e999') is inf; parameters are what the caller computed)"""
        if depth > 6:
            return True
        if isinstance(a, ast.Constant):
            return False
        if isinstance(a, ast.Call) and isinstance(a.func, ast.Name):
            if a.func.id == "float" and len(a.args) == 1:
                return not isinstance(a.args[0], ast.Constant)
            if a.func.id in ("round", "abs", "ceil", "floor", "sqrt") and a.args:
                return self.maybe_infinite(a.args[0], depth + 1)
            if a.func.id in ("min", "max") and len(a.args) == 2:
                # clamped from one side only; two nested clamps (min(max(..))) are finite
                inner = [x for x in a.args if not isinstance(x, ast.Constant)]
                if len(inner) == 1 and isinstance(inner[0], ast.Call) and isinstance(inner[0].func, ast.Name) and inner[0].func.id in ("min", "max") and inner[0].func.id != a.func.id \
                        and any(isinstance(x, ast.Constant) for x in inner[0].args):
                    return False
                return any(self.maybe_infinite(x, depth + 1) for x in a.args)
            if a.func.id in ("len", "int", "ord"):
                return False
            return False
        if isinstance(a, ast.BinOp):
            return self.maybe_infinite(a.left, depth + 1) or self.maybe_infinite(a.right, depth + 1)
        if isinstance(a, ast.UnaryOp):
            return self.maybe_infinite(a.operand, depth + 1)
        if isinstance(a, ast.Name):
            params = [x.arg for x in self.fn.args.args]
            binds = [s_ for s_ in ast.walk(self.fn) if isinstance(s_, ast.Assign) and any(isinstance(t, ast.Name) and t.id == a.id for t in s_.targets)]
            if not binds:
                return a.id in params and a.id not in ("self", "cls")
            # clamped on both sides by comparisons with constants?
            lo = hi = False
            for s_ in ast.walk(self.fn):
                if isinstance(s_, ast.If) and isinstance(s_.test, ast.Compare) and len(s_.test.ops) == 1 and isinstance(s_.test.left, ast.Name) and s_.test.left.id == a.id \
                        and isinstance(s_.test.comparators[0], ast.Constant) and any(isinstance(b, ast.Assign) and isinstance(b.targets[0], ast.Name) and b.targets[0].id == a.id
                                                                                     and isinstance(b.value, ast.Constant) for b in s_.body):
                    if isinstance(s_.test.ops[0], (ast.Gt, ast.GtE)):
                        hi = True
                    if isinstance(s_.test.ops[0], (ast.Lt, ast.LtE)):
                        lo = True
            if lo and hi:
                return False
            return any(self.maybe_infinite(b.value, depth + 1) for b in binds if not isinstance(b.value, ast.Constant)) or (a.id in params)
        return False

    def bounded_by_guards(self, use, a):
        """every variable of `a` is bounded above and below by comparisons with constants that dominate the use
        (`if v > 255: return 255` / `if v < 0: return 0` before `int(v)`)"""
        from .flow import dominated

        names = {x.id for x in ast.walk(a) if isinstance(x, ast.Name) and x.id not in ("int", "round", "ceil", "floor", "abs", "float", "math")}
        if not names:
            return False

        def bound(name, upper):
            def atom_test(test, positive):
                if isinstance(test, ast.Compare) and len(test.ops) == 1 and isinstance(test.left, ast.Name) and test.left.id == name and isinstance(test.comparators[0], ast.Constant) \
                        and isinstance(test.comparators[0].value, (int, float)):
                    gt = isinstance(test.ops[0], (ast.Gt, ast.GtE))
                    lt = isinstance(test.ops[0], (ast.Lt, ast.LtE))
                    if upper:
                        return (gt and not positive) or (lt and positive)
                    return (lt and not positive) or (gt and positive)
                return False
            return atom_test

        return all(dominated(use, self.fn, bound(nm, True)) and dominated(use, self.fn, bound(nm, False)) for nm in names)

    def call(self, n):
        out = {}
        f = n.func
        if isinstance(f, ast.Name) and f.id in ("int", "round") and len(n.args) == 1:
            a = n.args[0]
            numeric = isinstance(a, (ast.BinOp, ast.UnaryOp)) or (isinstance(a, ast.Call) and isinstance(a.func, ast.Name) and a.func.id in ("round", "float", "abs", "ceil", "floor")) \
                or (isinstance(a, ast.Name) and f.id == "round")
            if numeric and self.maybe_infinite(a) and not self.bounded_by_guards(n, a):
                merge(out, self.src("OverflowError", "%s(%s) of a float that may be infinite" % (f.id, ast.unparse(a)[:40]), n))
        if isinstance(f, ast.Name) and f.id in ("float", "int") and len(n.args) == 1:
            if not self.conv_safe(n.args[0], f.id):
                merge(out, self.src("ValueError", "%s(%s) of document text" % (f.id, ast.unparse(n.args[0])[:40]), n))
            if f.id == "int":
                for a in n.args:
                    merge(out, self.expr_children(a))
            return out
        if isinstance(f, ast.Name) and f.id == "map" and len(n.args) == 2 and ast.unparse(n.args[0]) in ("float", "int"):
            inner = self.taint_of(n.args[1])
            if inner:
                merge(out, self.src("ValueError", "map(%s, <document text list>)" % ast.unparse(n.args[0]), n))
            return out
        if self.qual.endswith(":getter") and isinstance(f, ast.Name) and f.id == "Point" and len(n.args) == 1 and isinstance(n.args[0], (ast.Attribute, ast.Name)) \
                and _stored_endpoint(n.args[0], self.fn):
            # nonepoint: the end points of a STORED segment may be None (`z` first stores Close(None, None)); Point(None) has None coordinates and the next arithmetic raises
            from .flow import dominated

            chain = ast.unparse(n.args[0])

            def atom_test(test, positive):
                if isinstance(test, ast.Compare) and len(test.ops) == 1 and isinstance(test.comparators[0], ast.Constant) and test.comparators[0].value is None \
                        and ast.unparse(test.left) == chain and isinstance(test.ops[0], (ast.Is, ast.IsNot)):
                    return isinstance(test.ops[0], ast.IsNot) == positive
                return False

            if not dominated(n, self.fn, atom_test):
                merge(out, self.src("TypeError", "Point(%s) of a stored end point that may be None" % chain, n))
        for a in n.args:
            if isinstance(a, ast.Starred):
                inner = self.taint_of(a.value)
                if inner and inner[1] == "list":
                    merge(out, self.src("TypeError", "star-call %s with a data-dependent number of arguments" % ast.unparse(n)[:50], n))
        merge(out, self.flow.call_may_raise(n, self.ctx, via=self.qual, scope=self.fn))
        return out
