"""Segment-sequence extraction: read the sequence of path segments a decomposition function builds.

The function body is followed statement by statement (first-match over tests decided by a caller-supplied role classifier,
never by data), locals are substituted by value numbering (algebra.Alg), literal tuples/lists of segment constructor calls,
`seq.append(..)`, `seq += [..]` and the Path builder calls (`move`, `+= segment`, `closed`) are accumulated into an ordered
list of segment records.  Loops with a constant trip count are unrolled; an index loop over a sequence of unknown length is
summarised by induction on one symbolic iteration (the loop-carried values are guessed from the body and checked against the
values before the loop).  Anything else is an analysis error: the extractor never guesses.
Nothing is executed; every coordinate is an exact canonical form over opaque atoms.
"""
import ast

from .algebra import RF, Alg, Uninterpreted, atom, const
from .model import AnalysisError, attr_chain, call_name


class Seg:
    def __init__(self, kind, args, kw, node):
        self.kind = kind
        self.args = args  # positional operands: point values, None, or RF
        self.kw = kw  # keyword -> value
        self.node = node

    def __repr__(self):
        return "%s(%s%s)" % (self.kind, ", ".join(show(a) for a in self.args), "".join(", %s=%s" % (k, show(v)) for k, v in sorted(self.kw.items())))


class Repeat:
    """elements produced once per value of the index `var` in [lo, hi)"""

    def __init__(self, var, lo, hi, items):
        self.var, self.lo, self.hi, self.items = var, lo, hi, items

    def __repr__(self):
        return "for %s in [%s, %s): %s" % (self.var, self.lo, self.hi, self.items)


class Mapped:
    """the sequence `inner` with every element multiplied by / passed through `what`"""

    def __init__(self, inner, what):
        self.inner, self.what = inner, what


def show(v):
    if v is None:
        return "None"
    if isinstance(v, list):
        return "(" + ", ".join(show(x) for x in v) + ")"
    if isinstance(v, tuple):
        return "%s[%s]" % (v[1], v[2]) if v and v[0] == "elem" else str(v)
    return str(v)


def same(a, b):
    """equality of extracted values (points, element references, scalars)"""
    if a is None or b is None:
        return a is None and b is None
    if isinstance(a, list) and isinstance(b, list):
        return len(a) == len(b) and all(same(x, y) for x, y in zip(a, b))
    if isinstance(a, tuple) and isinstance(b, tuple):
        return len(a) == len(b) and all(same(x, y) if not isinstance(x, str) else x == y for x, y in zip(a, b))
    if isinstance(a, RF) and isinstance(b, RF):
        return a == b
    return False


class SegEval:
    def __init__(self, ctx, rule, construct, seg_kinds, decide, alg=None, point_lists=(), point_calls=(), value_hook=None, on_call=None):
        self.ctx, self.rule, self.construct = ctx, rule, construct
        self.kinds = set(seg_kinds)
        self.decide = decide  # decide(test) -> True / False / None
        self.alg = alg or Alg()
        self.vals = {}  # local name -> sequence (list) / Seg / point / ("elem", base, idx) / ("builder", [..])
        self.point_lists = set(point_lists)  # expressions (unparsed attr chains or local names) holding a list of points
        self.point_calls = set(point_calls)  # method names returning a point: self.m(t) -> ("call", m, RF)
        self.value_hook = value_hook  # value_hook(self, node) -> abstract value or None (domain-specific expressions)
        self.on_call = on_call  # on_call(self, call) -> True when the call statement was interpreted
        self.on_stmt = None  # on_stmt(self, stmt): told about every statement on the followed path, before it is interpreted

    # ----------------------------------------------------------------- values
    def err(self, what, node=None):
        raise AnalysisError(self.rule, "%s: %s%s" % (self.construct, what, " line %d" % node.lineno if node is not None and hasattr(node, "lineno") else ""))

    def base_key(self, node):
        if isinstance(node, ast.Name):
            v = self.vals.get(node.id)
            if isinstance(v, tuple) and v and v[0] == "plist":
                return v[1]
            return node.id if node.id in self.point_lists else None
        ch = attr_chain(node)
        if ch and ".".join(ch) in self.point_lists:
            return ".".join(ch)
        # list(map(F, L)) / [F(p) for p in L] over a point list: the image list under F
        inner = node
        while isinstance(inner, ast.Call) and call_name(inner) in ("list", "tuple") and len(inner.args) == 1:
            inner = inner.args[0]
        if isinstance(inner, ast.Call) and call_name(inner) == "map" and len(inner.args) == 2:
            b = self.base_key(inner.args[1])
            if b is not None:
                return "map(%s, %s)" % (ast.unparse(inner.args[0]), b)
        if isinstance(inner, (ast.ListComp, ast.GeneratorExp)) and len(inner.generators) == 1 and not inner.generators[0].ifs and isinstance(inner.generators[0].target, ast.Name) \
                and isinstance(inner.elt, ast.Call) and len(inner.elt.args) == 1 and isinstance(inner.elt.args[0], ast.Name) and inner.elt.args[0].id == inner.generators[0].target.id:
            b = self.base_key(inner.generators[0].iter)
            if b is not None:
                return "map(%s, %s)" % (ast.unparse(inner.elt.func), b)
        return None

    def len_atom(self, base):
        return atom("LEN[%s]" % base)

    def num(self, node):
        """scalar expression; len(<point list>) is the canonical length atom of that list"""
        outer = self

        class T(ast.NodeTransformer):
            def visit_Call(self, n):
                if isinstance(n.func, ast.Name) and n.func.id == "len" and len(n.args) == 1:
                    b = outer.base_key(n.args[0])
                    if b is not None:
                        return ast.Name(id="LEN__%d" % outer._len_id(b), ctx=ast.Load())
                return self.generic_visit(n)

        from .model import fresh

        class L(ast.NodeTransformer):
            # constant subscripts of a list of numbers the function built itself
            def visit_Subscript(self, n):
                sl = getattr(outer, "slists", {})
                if isinstance(n.value, ast.Name) and n.value.id in sl:
                    k = n.slice
                    idx = k.value if isinstance(k, ast.Constant) and isinstance(k.value, int) else \
                        -k.operand.value if isinstance(k, ast.UnaryOp) and isinstance(k.op, ast.USub) and isinstance(k.operand, ast.Constant) and isinstance(k.operand.value, int) else None
                    lst = sl[n.value.id]
                    if idx is not None and -len(lst) <= idx < len(lst):
                        nm = "SL__%d" % len(outer._slvals)
                        outer._slvals.append(lst[idx])
                        outer.alg.env[nm] = lst[idx]
                        return ast.Name(id=nm, ctx=ast.Load())
                return self.generic_visit(n)

        if getattr(self, "slists", None):
            if not hasattr(self, "_slvals"):
                self._slvals = []
            node = L().visit(fresh(node))
        tree = T().visit(fresh(node))
        for b, i in getattr(self, "_lens", {}).items():
            self.alg.env["LEN__%d" % i] = self.len_atom(b)
        return self.alg.ev(tree)

    def _len_id(self, base):
        if not hasattr(self, "_lens"):
            self._lens = {}
        return self._lens.setdefault(base, len(self._lens))

    def point(self, node):
        """point-like value or None"""
        if isinstance(node, ast.Constant) and node.value is None:
            return None
        if self.value_hook is not None:
            hv = self.value_hook(self, node)
            if hv is not None:
                return hv
        if isinstance(node, ast.Name) and node.id in self.vals and not isinstance(self.vals[node.id], (Seg,)):
            v = self.vals[node.id]
            if isinstance(v, (list, tuple)) and not (isinstance(v, tuple) and v and v[0] in ("builder", "plist")):
                return v
        if isinstance(node, ast.Subscript):
            b = self.base_key(node.value)
            if b is not None and not isinstance(node.slice, ast.Slice):
                try:
                    idx = self.num(node.slice)
                except Uninterpreted:
                    return self.err("index not interpreted: %s" % ast.unparse(node), node)
                if idx.is_const() and idx.constval() < 0:
                    idx = self.len_atom(b) + idx  # points[-1] is points[len - 1]
                return ("elem", b, idx)
        if isinstance(node, ast.Call) and isinstance(node.func, ast.Attribute) and node.func.attr in self.point_calls and len(node.args) == 1:
            try:
                return ("call", node.func.attr, self.alg.ev(node.args[0]))
            except Uninterpreted:
                return self.err("argument not interpreted: %s" % ast.unparse(node), node)
        if isinstance(node, ast.Call) and call_name(node) == "Point" and len(node.args) == 1:
            inner = self.point(node.args[0])
            if inner is not None:
                return inner
        try:
            pv = self.alg.point_value(node)
        except Uninterpreted:
            pv = None
        if pv is not None:
            return list(pv)
        if isinstance(node, (ast.Tuple, ast.List)) and len(node.elts) == 1:
            return self.point(node.elts[0])
        return self.err("point expression not interpreted: %s" % ast.unparse(node)[:80], node)

    def operand(self, node):
        if isinstance(node, ast.Constant) and node.value is None:
            return None
        if self.value_hook is not None:
            hv = self.value_hook(self, node)
            if hv is not None:
                return hv
        if isinstance(node, ast.Name) and isinstance(self.vals.get(node.id), (list, tuple)) and not (isinstance(self.vals[node.id], tuple) and self.vals[node.id][0] in ("builder", "plist")):
            return self.vals[node.id]
        try:
            return self.alg.ev(node)
        except Uninterpreted:
            pass
        try:
            return self.point(node)
        except AnalysisError:
            return ("opaque", ast.unparse(node))

    def seg(self, call):
        kind = call_name(call)
        args = []
        for i, a in enumerate(call.args):
            args.append(self.point(a) if i < 2 else self.operand(a))
        kw = {k.arg: self.operand(k.value) for k in call.keywords if k.arg}
        return Seg(kind, args, kw, call)

    def seq_value(self, node):
        """sequence of segment records denoted by node, or None"""
        if isinstance(node, (ast.Tuple, ast.List)) and node.elts and all(
                (isinstance(e, ast.Call) and call_name(e) in self.kinds) or (isinstance(e, ast.Name) and isinstance(self.vals.get(e.id), Seg)) for e in node.elts):
            return [self.seg(e) if isinstance(e, ast.Call) else self.vals[e.id] for e in node.elts]
        if isinstance(node, (ast.Tuple, ast.List)) and not node.elts:
            return []
        if isinstance(node, ast.Call) and call_name(node) in ("tuple", "list") and not node.args:
            return []
        if isinstance(node, ast.Call) and call_name(node) in ("tuple", "list") and len(node.args) == 1:
            return self.seq_value(node.args[0])
        if isinstance(node, ast.Name) and isinstance(self.vals.get(node.id), list) and (not self.vals[node.id] or isinstance(self.vals[node.id][0], (Seg, Repeat, Mapped))):
            return self.vals[node.id]
        if isinstance(node, ast.BinOp) and isinstance(node.op, ast.Add):
            l, r = self.seq_value(node.left), self.seq_value(node.right)
            if l is not None and r is not None:
                return list(l) + list(r)
        if isinstance(node, (ast.ListComp, ast.GeneratorExp)) and len(node.generators) == 1 and not node.generators[0].ifs \
                and isinstance(node.elt, ast.Call) and call_name(node.elt) in self.kinds:
            g = node.generators[0]
            it = g.iter
            saved = self._snapshot()
            try:
                # for a, b in zip(L, L[1:]) : consecutive pairs (L[i-1], L[i]) for i in [1, len L)
                if isinstance(it, ast.Call) and call_name(it) == "zip" and len(it.args) == 2 and isinstance(g.target, ast.Tuple) and len(g.target.elts) == 2 \
                        and all(isinstance(e, ast.Name) for e in g.target.elts):
                    b0 = self.base_key(it.args[0])
                    a1 = it.args[1]
                    if b0 is not None and isinstance(a1, ast.Subscript) and isinstance(a1.slice, ast.Slice) and a1.slice.upper is None and a1.slice.step is None \
                            and isinstance(a1.slice.lower, ast.Constant) and a1.slice.lower.value == 1 and self.base_key(a1.value) == b0:
                        idx = atom("#k")
                        self.vals[g.target.elts[0].id] = ("elem", b0, idx - const(1))
                        self.vals[g.target.elts[1].id] = ("elem", b0, idx)
                        item = self.seg(node.elt)
                        return [Repeat("#k", const(1), self.len_atom(b0), [item])]
                # for i in range(lo, hi)
                if isinstance(it, ast.Call) and call_name(it) == "range" and isinstance(g.target, ast.Name) and 1 <= len(it.args) <= 2:
                    bounds = [self.num(a) for a in it.args]
                    if len(bounds) == 1:
                        bounds = [const(0), bounds[0]]
                    self.alg.env[g.target.id] = atom("#" + g.target.id)
                    item = self.seg(node.elt)
                    return [Repeat("#" + g.target.id, bounds[0], bounds[1], [item])]
            except Uninterpreted:
                return None
            finally:
                self._restore(saved)
        if isinstance(node, (ast.ListComp, ast.GeneratorExp)) and len(node.generators) == 1 and not node.generators[0].ifs:
            g = node.generators[0]
            inner = self.seq_value(g.iter)
            if inner is not None and isinstance(g.target, ast.Name) and isinstance(node.elt, ast.BinOp) and isinstance(node.elt.op, ast.Mult) \
                    and isinstance(node.elt.left, ast.Name) and node.elt.left.id == g.target.id:
                return [Mapped(inner, ast.unparse(node.elt.right))]
        return None

    # ------------------------------------------------------------- statements
    def run(self, stmts):
        """-> ('return', node) | ('raise', node) | ('fall', None)"""
        for s in stmts:
            if isinstance(s, ast.Expr) and isinstance(s.value, ast.Constant):
                continue
            if self.on_stmt is not None:
                self.on_stmt(self, s)
            if isinstance(s, ast.If):
                t = self.decide(s.test)
                if t is None:
                    self.err("undecided test `%s`" % ast.unparse(s.test)[:80], s)
                out = self.run(s.body if t else s.orelse)
                if out[0] != "fall":
                    return out
                continue
            if isinstance(s, ast.Return):
                return ("return", s.value)
            if isinstance(s, ast.Raise):
                return ("raise", s.exc)
            if isinstance(s, ast.Pass):
                continue
            if isinstance(s, ast.Continue):
                return ("continue", None)  # the rest of this iteration is skipped
            if isinstance(s, ast.Break):
                return ("break", None)  # the loop is left; the caller decides what that means
            if isinstance(s, ast.Assign) and len(s.targets) == 1:
                self.assign(s.targets[0], s.value, s)
                continue
            if isinstance(s, ast.AugAssign):
                self.augassign(s)
                continue
            if isinstance(s, ast.Expr) and isinstance(s.value, ast.Call):
                self.call_stmt(s.value, s)
                continue
            if isinstance(s, ast.For):
                self.loop(s)
                continue
            self.err("statement kind %s not handled" % type(s).__name__, s)
        return ("fall", None)

    def assign(self, t, v, s):
        while isinstance(v, ast.IfExp):
            d = self.decide(v.test)
            if d is None:
                self.err("undecided test `%s`" % ast.unparse(v.test)[:80], s)
            v = v.body if d else v.orelse
        if isinstance(t, ast.Name) and self.value_hook is not None:
            hv = self.value_hook(self, v)
            if hv is not None:
                self.vals[t.id] = hv
                self.alg.env.pop(t.id, None)
                return
        if isinstance(t, ast.Name) and isinstance(v, ast.Constant) and v.value is None:
            self.vals[t.id] = ("none",)
            self.alg.env.pop(t.id, None)
            return
        if isinstance(t, ast.Name) and isinstance(v, ast.List) and v.elts and all(isinstance(e, (ast.Constant, ast.Name, ast.BinOp, ast.UnaryOp)) for e in v.elts):
            try:
                nums = [self.num(e) for e in v.elts]
            except Uninterpreted:
                nums = None
            if nums is not None and all(isinstance(x, RF) for x in nums):
                if not hasattr(self, "slists"):
                    self.slists = {}
                self.slists[t.id] = nums
                self.vals.pop(t.id, None)
                self.alg.env.pop(t.id, None)
                return
        if isinstance(t, ast.Name) and t.id in getattr(self, "slists", {}):
            self.slists.pop(t.id)
        if isinstance(t, ast.Name):
            self.vals.pop(t.id, None)
            sv = self.seq_value(v)
            if sv is not None:
                self.vals[t.id] = list(sv)
                return
            if isinstance(v, ast.Call) and call_name(v) in self.kinds:
                self.vals[t.id] = self.seg(v)
                return
            if isinstance(v, ast.Call) and call_name(v) == "Path" and not v.args:
                self.vals[t.id] = ("builder", [])
                return
            b = self.base_key(v)
            if b is not None:
                self.vals[t.id] = ("plist", b)
                return
            if isinstance(v, (ast.Subscript, ast.Call)) or (isinstance(v, ast.Name) and v.id in self.vals):
                try:
                    p = self.point(v)
                    if p is not None:
                        self.vals[t.id] = p
                        self.alg.env.pop(t.id, None)
                        return
                except AnalysisError:
                    pass
        try:
            if self.alg.assign(s):
                return
        except Uninterpreted:
            pass
        for n in ast.walk(t):
            if isinstance(n, ast.Name):
                self.alg.env.pop(n.id, None)
                self.vals.pop(n.id, None)
                self.alg.env[n.id] = atom("?%s@%d" % (n.id, s.lineno))
        if isinstance(t, ast.Attribute):
            return  # attribute stores (self.apply = ...) are the business of other rules

    def augassign(self, s):
        if isinstance(s.target, ast.Name) and s.target.id in self.vals:
            cur = self.vals[s.target.id]
            if isinstance(cur, tuple) and cur[0] == "builder" and isinstance(s.op, ast.Add):
                if isinstance(s.value, ast.Call) and call_name(s.value) in self.kinds:
                    cur[1].append(self.seg(s.value))
                    return
                self.err("builder += %s not interpreted" % ast.unparse(s.value)[:60], s)
            if isinstance(cur, list) and isinstance(s.op, ast.Add):
                add = self.seq_value(s.value)
                cur = self.vals[s.target.id]
                if add is not None:
                    cur.extend(add)
                    return
                self.err("sequence += %s not interpreted" % ast.unparse(s.value)[:60], s)
            if isinstance(cur, list) and len(cur) == 2 and isinstance(s.op, ast.Mult):
                # point *= matrix: an opaque image of the point
                self.vals[s.target.id] = ("image", ast.unparse(s.value), tuple(cur) if False else show(cur))
                return
        try:
            if self.alg.assign(s):
                return
        except Uninterpreted:
            pass
        if isinstance(s.target, ast.Name):
            self.alg.env[s.target.id] = atom("?%s@%d" % (s.target.id, s.lineno))

    def call_stmt(self, c, s):
        if self.on_call is not None and self.on_call(self, c):
            return
        if isinstance(c.func, ast.Attribute) and isinstance(c.func.value, ast.Name) and c.func.value.id in getattr(self, "slists", {}):
            if c.func.attr == "append" and len(c.args) == 1:
                try:
                    self.slists[c.func.value.id].append(self.num(c.args[0]))
                    return
                except Uninterpreted:
                    pass
            self.err("call %s on a list of numbers not interpreted" % ast.unparse(c)[:60], s)
        if isinstance(c.func, ast.Attribute) and isinstance(c.func.value, ast.Name) and c.func.value.id in self.vals:
            cur = self.vals[c.func.value.id]
            m = c.func.attr
            if isinstance(cur, list) and m == "append" and len(c.args) == 1 and isinstance(c.args[0], ast.Call) and call_name(c.args[0]) in self.kinds:
                cur.append(self.seg(c.args[0]))
                return
            if isinstance(cur, list) and m == "append" and len(c.args) == 1 and isinstance(c.args[0], ast.Name) and isinstance(self.vals.get(c.args[0].id), Seg):
                cur.append(self.vals[c.args[0].id])
                return
            if isinstance(cur, list) and m == "extend" and len(c.args) == 1:
                add = self.seq_value(c.args[0])
                cur = self.vals[c.func.value.id]  # evaluating a comprehension works on a snapshot: fetch the live list again
                if add is not None:
                    cur.extend(add)
                    return
            if isinstance(cur, tuple) and cur[0] == "builder":
                if m == "move" and len(c.args) == 1:
                    cur[1].append(Seg("Move", [None, self.point(c.args[0])], {}, c))
                    return
                if m == "line" and len(c.args) == 1:
                    cur[1].append(Seg("Line", [("current",), self.point(c.args[0])], {}, c))
                    return
                if m == "closed":
                    cur[1].append(Seg("Close", [("current",), ("subpath-start",)], {}, c))
                    return
            self.err("call %s on a tracked value not interpreted" % ast.unparse(c)[:60], s)
        # calls that do not touch tracked values are irrelevant to the sequence
        return

    # ------------------------------------------------------------------ loops
    def loop(self, s):
        it = s.iter
        sl = getattr(self, "slists", {})
        if isinstance(it, ast.Call) and call_name(it) == "zip" and len(it.args) == 2 and isinstance(it.args[0], ast.Name) and it.args[0].id in sl and not s.orelse \
                and isinstance(it.args[1], ast.Subscript) and isinstance(it.args[1].value, ast.Name) and it.args[1].value.id == it.args[0].id \
                and isinstance(it.args[1].slice, ast.Slice) and isinstance(it.args[1].slice.lower, ast.Constant) and it.args[1].slice.lower.value == 1 \
                and it.args[1].slice.upper is None and it.args[1].slice.step is None \
                and isinstance(s.target, ast.Tuple) and len(s.target.elts) == 2 and all(isinstance(e, ast.Name) for e in s.target.elts):
            # for a, b in zip(L, L[1:]) over a list of numbers built in this function: consecutive pairs
            lst = list(sl[it.args[0].id])
            a, b = s.target.elts[0].id, s.target.elts[1].id
            for x, y in zip(lst, lst[1:]):
                self.alg.env[a], self.alg.env[b] = x, y
                out = self.run(s.body)
                if out[0] not in ("fall", "continue"):
                    self.err("exit from inside a loop", s)
            return
        if not (isinstance(it, ast.Call) and call_name(it) == "range" and isinstance(s.target, ast.Name) and not s.orelse):
            self.err("loop form not interpreted: for %s in %s" % (ast.unparse(s.target), ast.unparse(it)[:60]), s)
        try:
            bounds = [self.num(a) for a in it.args]
        except Uninterpreted:
            return self.err("loop bounds not interpreted: %s" % ast.unparse(it), s)
        if len(bounds) == 1:
            bounds = [const(0), bounds[0]]
        if len(bounds) != 2:
            self.err("range with a step", s)
        lo, hi = bounds
        var = s.target.id
        if lo.is_const() and hi.is_const():
            a, b = lo.constval(), hi.constval()
            if a.denominator != 1 or b.denominator != 1 or b - a > 64:
                self.err("constant loop bounds not small integers", s)
            for k in range(int(a), int(b)):
                self.alg.env[var] = const(k)
                out = self.run(s.body)
                if out[0] not in ("fall", "continue"):
                    self.err("exit from inside a loop", s)
            return
        # symbolic trip count: induction on one iteration
        assigned = []
        for n in ast.walk(s):
            if isinstance(n, ast.Name) and isinstance(n.ctx, ast.Store) and n.id != var and n.id not in assigned:
                assigned.append(n.id)
        carried = [n for n in assigned if self._read_before_write(s.body, n)]
        idx = atom("#" + var)

        def after_iteration(index_value):
            """values of the carried names after the iteration with the given index, computed without knowledge of older iterations"""
            snap = self._snapshot()
            self.alg.env[var] = index_value
            for n in carried:
                if n in self.vals:
                    self.vals[n] = ("?carried:" + n,)
                else:
                    self.alg.env[n] = atom("?carried:" + n)
            out = self.run(s.body)
            if out[0] not in ("fall", "continue"):
                self.err("exit from inside a loop", s)
            res = {n: (self.vals.get(n), self.alg.env.get(n) if n not in self.vals else None) for n in carried}
            self._restore(snap)
            for n, (v, e) in res.items():
                if "?carried:" in show(v) + str(e):
                    self.err("loop-carried value of %s depends on older iterations (not an index loop)" % n, s)
            return res

        def current(n):
            return (self.vals.get(n), self.alg.env.get(n) if n not in self.vals else None)

        def agree(a, b):
            (av, ae), (bv, be) = a, b
            if av is not None or bv is not None:
                return same(av, bv)
            return isinstance(ae, RF) and isinstance(be, RF) and ae == be

        guess = after_iteration(idx - const(1))
        base = after_iteration(lo - const(1))
        for n in carried:
            if not agree(current(n), base[n]):
                pv, pe = current(n)
                bv, be = base[n]
                self.err("loop-carried %s before the loop (%s) is not its value after iteration lo-1 (%s)" % (n, show(pv) if pv is not None else pe, show(bv) if bv is not None else be), s)
        final = after_iteration(hi - const(1))
        # iteration i with the carried names at their values after iteration i-1
        self.alg.env[var] = idx
        for n in carried:
            v, e = guess[n]
            self.vals.pop(n, None)
            self.alg.env.pop(n, None)
            if v is not None:
                self.vals[n] = v
            elif e is not None:
                self.alg.env[n] = e
        before = {k: len(v) for k, v in self.vals.items() if isinstance(v, list) and (not v or isinstance(v[0], (Seg, Repeat, Mapped)))}
        builders = {k: len(v[1]) for k, v in self.vals.items() if isinstance(v, tuple) and v and v[0] == "builder"}
        out = self.run(s.body)
        if out[0] != "fall":
            self.err("exit from inside a loop", s)
        for k, n0 in before.items():
            v = self.vals.get(k)
            if isinstance(v, list) and len(v) > n0:
                items = v[n0:]
                del v[n0:]
                v.append(Repeat("#" + var, lo, hi, items))
        for k, n0 in builders.items():
            v = self.vals.get(k)
            if isinstance(v, tuple) and len(v[1]) > n0:
                items = v[1][n0:]
                del v[1][n0:]
                v[1].append(Repeat("#" + var, lo, hi, items))
        # after the loop the carried names hold their values after iteration hi-1; everything else assigned in the body is unknown
        for n in assigned:
            self.vals.pop(n, None)
            self.alg.env[n] = atom("?after-loop:" + n)
        for n in carried:
            v, e = final[n]
            self.alg.env.pop(n, None)
            if v is not None:
                self.vals[n] = v
            elif e is not None:
                self.alg.env[n] = e
        self.alg.env.pop(var, None)

    def _read_before_write(self, body, name):
        for st in body:
            reads = [n for n in ast.walk(st.value if isinstance(st, (ast.Assign, ast.AugAssign)) else st) if isinstance(n, ast.Name) and n.id == name and isinstance(n.ctx, ast.Load)]
            if reads:
                return True
            if isinstance(st, ast.AugAssign) and isinstance(st.target, ast.Name) and st.target.id == name:
                return True
            writes = [n for n in ast.walk(st) if isinstance(n, ast.Name) and n.id == name and isinstance(n.ctx, ast.Store)]
            if writes:
                return False
        return False

    def _snapshot(self):
        vals = {}
        for k, v in self.vals.items():
            if isinstance(v, list):
                vals[k] = list(v)
            elif isinstance(v, tuple) and v and v[0] == "builder":
                vals[k] = ("builder", list(v[1]))
            else:
                vals[k] = v
        return vals, dict(self.alg.env), dict(self.alg.atom_map)

    def _restore(self, snap):
        self.vals, self.alg.env, self.alg.atom_map = snap[0], snap[1], snap[2]


def boolean(test, leaf):
    """Truth of a test from a valuation of its atomic parts: leaf(node) -> True / False / None (unknown)."""
    if isinstance(test, ast.BoolOp):
        vals = [boolean(v, leaf) for v in test.values]
        if isinstance(test.op, ast.And):
            if any(v is False for v in vals):
                return False
            return None if any(v is None for v in vals) else True
        if any(v is True for v in vals):
            return True
        return None if any(v is None for v in vals) else False
    if isinstance(test, ast.UnaryOp) and isinstance(test.op, ast.Not):
        v = boolean(test.operand, leaf)
        return None if v is None else not v
    return leaf(test)
