"""T8 cache coherence: the cached length summary of a Path (_length/_lengths) is valid only while its inputs
(the segment list and the stored segments' geometry) are unchanged.  Every Path/Subpath method that rebinds or
permutes the list, or mutates stored segments through the path, must invalidate - directly or through a callee."""
import ast

from .flow import Aliases
from .model import attr_chain, call_name, stmts_in

LIST_MUTATORS = {"append", "extend", "insert", "pop", "remove", "reverse", "sort", "clear", "__setitem__", "__delitem__"}


def seg_list_exprs(cls_name):
    if cls_name == "Path":
        return {"self._segments"}
    return {"self._path._segments"}


def analyse(ctx, cls_name):
    """Returns dict method -> {'writes': [why], 'invalidates': bool, 'via': [callees]}"""
    cls = ctx.m.cls(cls_name)
    lists = seg_list_exprs(cls_name)
    inval_target = "self._length" if cls_name == "Path" else "self._path._length"
    info = {}
    for name, fn in cls.methods.items():
        writes = []
        al = Aliases(fn)
        aliases = set(lists)
        for s in ast.walk(fn):
            if isinstance(s, ast.Assign) and isinstance(s.targets[0], ast.Name) and al.canon(s.value) in lists:
                aliases.add(s.targets[0].id)
        for s in ast.walk(fn):
            if isinstance(s, ast.Assign):
                for t in s.targets:
                    ts = ast.unparse(t)
                    if ts in lists:
                        writes.append("rebinds %s line %d" % (ts, s.lineno))
                    if isinstance(t, ast.Subscript) and ast.unparse(t.value) in aliases:
                        writes.append("item assignment on %s line %d" % (ast.unparse(t.value), s.lineno))
            if isinstance(s, ast.Delete):
                for t in s.targets:
                    if isinstance(t, ast.Subscript) and ast.unparse(t.value) in aliases:
                        writes.append("item deletion line %d" % s.lineno)
            if isinstance(s, ast.Call) and isinstance(s.func, ast.Attribute) and s.func.attr in LIST_MUTATORS and ast.unparse(s.func.value) in aliases:
                writes.append("%s.%s() line %d" % (ast.unparse(s.func.value), s.func.attr, s.lineno))
            # geometry of stored segments changed in place: `e *= M` / `.reverse()` on elements of the list
            if isinstance(s, ast.For):
                it = ast.unparse(s.iter)
                if it in aliases or (cls_name == "Subpath" and it == "self"):
                    for b in ast.walk(s):
                        if isinstance(b, ast.AugAssign) and isinstance(b.target, ast.Name) and isinstance(s.target, ast.Name) and b.target.id == s.target.id:
                            writes.append("stored segments mutated in place (%s) line %d" % (ast.unparse(b)[:30], b.lineno))
            if isinstance(s, ast.Call) and isinstance(s.func, ast.Attribute) and s.func.attr == "reverse" and isinstance(s.func.value, ast.Name):
                # start_segment.reverse() where start_segment = segments[s]
                nm = s.func.value.id
                for a in ast.walk(fn):
                    if isinstance(a, ast.Assign) and isinstance(a.targets[0], ast.Name) and a.targets[0].id == nm and isinstance(a.value, ast.Subscript) \
                            and ast.unparse(a.value.value) in aliases:
                        writes.append("stored segment reversed in place line %d" % s.lineno)
                        break
        direct = any(isinstance(s, ast.Assign) and any(al.canon(t) == inval_target for t in s.targets) and isinstance(s.value, ast.Constant) and s.value.value is None
                     for s in ast.walk(fn))
        callees = set()
        for c in ast.walk(fn):
            if isinstance(c, ast.Call):
                ch = attr_chain(c.func)
                if ch and ch[0] == "self" and len(ch) == 2:
                    callees.add(("self", ch[1]))
                if ch and ch[:2] == ["self", "_path"] and len(ch) == 3:
                    callees.add(("path", ch[2]))
                if isinstance(c.func, ast.Attribute) and isinstance(c.func.value, ast.Name) and c.func.value.id in al.map and al.canon(c.func.value) == "self._path":
                    callees.add(("path", c.func.attr))
                if ch and len(ch) == 2 and ch[0] in ctx.m.classes and c.args and ast.unparse(c.args[0]) == "self":
                    callees.add((ch[0], ch[1]))
            # item assignment through the path's own __setitem__/__delitem__ (Subpath -> Path)
            if cls_name == "Subpath" and isinstance(c, (ast.Assign, ast.Delete)):
                for t in c.targets:
                    if isinstance(t, ast.Subscript) and ast.unparse(t.value) == "self._path":
                        callees.add(("path", "__setitem__" if isinstance(c, ast.Assign) else "__delitem__"))
            if cls_name == "Path" and isinstance(c, (ast.Assign, ast.Delete)):
                for t in c.targets:
                    if isinstance(t, ast.Subscript) and ast.unparse(t.value) == "self":
                        callees.add(("self", "__setitem__" if isinstance(c, ast.Assign) else "__delitem__"))
            if isinstance(c, ast.AugAssign) and ast.unparse(c.target) == "self" and isinstance(c.op, ast.Add):
                callees.add(("self", "__iadd__"))
        info[name] = {"writes": writes, "direct": direct, "callees": callees, "line": fn.lineno}
    return info


def invalidating(ctx):
    """Fixed point: which (class, method) invalidate the path cache."""
    pinfo = analyse(ctx, "Path")
    sinfo = analyse(ctx, "Subpath")
    # Transformable.reify resets both caches
    treify = ctx.m.func("Transformable.reify")
    t_inv = any(isinstance(s, ast.Assign) and ast.unparse(s.targets[0]) == "self._length" and isinstance(s.value, ast.Constant) and s.value.value is None for s in ast.walk(treify))
    inv = {("Path", n) for n, i in pinfo.items() if i["direct"]}
    inv |= {("Subpath", n) for n, i in sinfo.items() if i["direct"]}
    if t_inv:
        inv.add(("Transformable", "reify"))
    changed = True
    while changed:
        changed = False
        for cname, info in (("Path", pinfo), ("Subpath", sinfo)):
            for n, i in info.items():
                if (cname, n) in inv:
                    continue
                for who, callee in i["callees"]:
                    tgt = None
                    if who == "self":
                        tgt = (cname, callee)
                    elif who == "path":
                        tgt = ("Path", callee)
                    else:
                        tgt = (who, callee)
                    if tgt in inv:
                        inv.add((cname, n))
                        changed = True
                        break
    return pinfo, sinfo, inv


def check(ctx, rule):
    pinfo, sinfo, inv = invalidating(ctx)
    n = 0
    for cname, info in (("Path", pinfo), ("Subpath", sinfo)):
        called = {callee for i in info.values() for who, callee in i["callees"] if who == "self"}

        def private(name):
            return name.startswith("_") and not (name.startswith("__") and name.endswith("__"))

        # a private helper that edits the list without invalidating is judged at its callers: the edit is theirs
        eff = {name: list(i["writes"]) for name, i in info.items()}
        changed = True
        while changed:
            changed = False
            for name, i in info.items():
                for who, callee in i["callees"]:
                    if who == "self" and callee in info and private(callee) and (cname, callee) not in inv:
                        for w in eff[callee]:
                            tag = "%s (in %s)" % (w, callee) if "(in " not in w else w
                            if tag not in eff[name]:
                                eff[name].append(tag)
                                changed = True
        for name in sorted(info):
            i = info[name]
            if not eff[name] or name == "__init__":
                continue
            if private(name) and name in called and (cname, name) not in inv:
                continue
            n += 1
            ctx.ob(rule, "%s.%s" % (cname, name), (cname, name) in inv, "; ".join(eff[name][:3]), i["line"],
                   "the method changes the segments the cached length/fractions were computed from but does not invalidate them "
                   "(a later length()/point(t) uses stale data)")
    return n
