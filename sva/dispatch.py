"""Dispatch-table extraction: read the cell of an if/elif/early-return table that a finite key selects.

A *scenario* fixes the finite keys the code dispatches on (unit strings, None-ness of
optional parameters, the class of an operand, whether an amount is zero).  The walker
follows the statement list with first-match semantics, deciding each test from the
scenario facts only, and returns the terminating statement (return / raise) together
with the arithmetic effect accumulated on the way (as canonical forms, algebra.Alg).
Tests that the facts do not decide are an analysis error: the table has a shape this
extractor does not know.  Nothing is executed and no numeric value is ever computed
from runtime data.
"""
import ast

from .algebra import Alg, Uninterpreted
from .model import AnalysisError, NotConst, attr_chain


class Unknown(Exception):
    pass


class Facts:
    def __init__(self, strs=None, nulls=None, types=None, zeros=None, truth=None):
        self.strs = dict(strs or {})  # "self.units" -> "pt"
        self.nulls = dict(nulls or {})  # "ppi" -> True if it is None
        self.types = dict(types or {})  # "other" -> "Length"
        self.zeros = dict(zeros or {})  # "self.amount" -> True if it is zero
        self.truth = dict(truth or {})  # unparsed test -> bool


def _key(node):
    ch = attr_chain(node)
    return ".".join(ch) if ch else None


def _strval(node, facts, model):
    k = _key(node)
    if k is not None and k in facts.strs:
        return facts.strs[k]
    if isinstance(node, ast.Constant) and isinstance(node.value, (str, int)) and not isinstance(node.value, bool):
        return node.value
    if isinstance(node, ast.Call) and isinstance(node.func, ast.Attribute) and node.func.attr in ("lower", "upper", "strip") and not node.args:
        inner = _strval(node.func.value, facts, model)
        if isinstance(inner, str):
            return getattr(inner, node.func.attr)()
    if isinstance(node, ast.Name) and model is not None:
        try:
            v = model.const(node)
            if isinstance(v, (str, int)):
                return v
        except NotConst:
            pass
    return None


def decide(test, facts, model=None, hook=None):
    src = ast.unparse(test)
    if src in facts.truth:
        return facts.truth[src]
    if hook is not None:
        h = hook(test)
        if h is not None:
            return h
    if isinstance(test, ast.BoolOp):
        # short-circuit, left to right (a later operand may only be decidable when the earlier ones let it be reached)
        if isinstance(test.op, ast.And):
            for v in test.values:
                if not decide(v, facts, model, hook):
                    return False
            return True
        for v in test.values:
            if decide(v, facts, model, hook):
                return True
        return False
    if isinstance(test, ast.UnaryOp) and isinstance(test.op, ast.Not):
        return not decide(test.operand, facts, model, hook)
    if isinstance(test, ast.Compare) and len(test.ops) == 1:
        l, r, op = test.left, test.comparators[0], test.ops[0]
        if isinstance(op, (ast.Is, ast.IsNot)):
            for a, b in ((l, r), (r, l)):
                if isinstance(b, ast.Constant) and b.value is None:
                    k = _key(a)
                    if k in facts.nulls:
                        v = facts.nulls[k]
                        return v if isinstance(op, ast.Is) else not v
            raise Unknown(src)
        if isinstance(op, (ast.Eq, ast.NotEq)):
            ls, rs = _strval(l, facts, model), _strval(r, facts, model)
            if ls is not None and rs is not None:
                return (ls == rs) if isinstance(op, ast.Eq) else (ls != rs)
            for a, b in ((l, r), (r, l)):
                if isinstance(b, ast.Constant) and isinstance(b.value, (int, float)) and b.value == 0:
                    k = _key(a)
                    if k in facts.zeros:
                        v = facts.zeros[k]
                        return v if isinstance(op, ast.Eq) else not v
            raise Unknown(src)
        if isinstance(op, (ast.In, ast.NotIn)) and not isinstance(r, (ast.Tuple, ast.List, ast.Set)):
            ls, rs = _strval(l, facts, model), _strval(r, facts, model)
            if isinstance(ls, str) and isinstance(rs, str):
                return (ls in rs) if isinstance(op, ast.In) else (ls not in rs)
            raise Unknown(src)
        if isinstance(op, (ast.In, ast.NotIn)) and isinstance(r, (ast.Tuple, ast.List, ast.Set)):
            ls = _strval(l, facts, model)
            if ls is not None:
                vals = [_strval(e, facts, model) for e in r.elts]
                if all(v is not None for v in vals):
                    return (ls in vals) if isinstance(op, ast.In) else (ls not in vals)
            raise Unknown(src)
    if isinstance(test, (ast.Name, ast.Attribute)):
        # truthiness of a value: None is false, a number is false exactly when it is zero
        k = _key(test)
        if facts.nulls.get(k) is True:
            return False
        if k in facts.nulls and k in facts.zeros:
            return not facts.zeros[k]
        raise Unknown(src)
    if isinstance(test, ast.Call) and isinstance(test.func, ast.Name) and test.func.id == "isinstance" and len(test.args) == 2:
        k = _key(test.args[0])
        if k in facts.types:
            t = test.args[1]
            names = [e for e in (t.elts if isinstance(t, ast.Tuple) else [t])]
            names = [n.id if isinstance(n, ast.Name) else None for n in names]
            return facts.types[k] in names
        raise Unknown(src)
    raise Unknown(src)


class Outcome:
    def __init__(self, kind, node, alg, facts, stmt=None):
        self.kind = kind  # 'return' | 'raise' | 'fall'
        self.node = node  # returned expression / raised expression
        self.alg = alg
        self.facts = facts
        self.stmt = stmt


def walk(stmts, facts, alg, model=None, rule="dispatch", construct="?", on_assign=None, on_test=None):
    """Follow stmts under facts. Returns Outcome.
    on_test(test, facts, alg) may decide a test the facts do not (True/False, None = no opinion);
    on_assign(stmt, facts, alg) may interpret an assignment (return True when handled)."""
    for s in stmts:
        if isinstance(s, ast.If):
            t = on_test(s.test, facts, alg) if on_test is not None else None
            if t is None:
                try:
                    t = decide(s.test, facts, model, (lambda tt: on_test(tt, facts, alg)) if on_test is not None else None)
                except Unknown as e:
                    raise AnalysisError(rule, "construct=%s undecided test `%s` line %d" % (construct, e, s.lineno))
            out = walk(s.body if t else s.orelse, facts, alg, model, rule, construct, on_assign, on_test)
            if out.kind != "fall":
                return out
            continue
        if isinstance(s, ast.Return):
            return Outcome("return", s.value, alg, facts, s)
        if isinstance(s, ast.Raise):
            return Outcome("raise", s.exc, alg, facts, s)
        if isinstance(s, (ast.Assign, ast.AugAssign)) and on_assign is not None and on_assign(s, facts, alg):
            continue
        if isinstance(s, (ast.Assign, ast.AugAssign)):
            # string-valued key updates (self.units = other.units)
            if isinstance(s, ast.Assign) and len(s.targets) == 1:
                tk = _key(s.targets[0])
                if tk in facts.strs:
                    sv = _strval(s.value, facts, model)
                    if sv is not None:
                        facts.strs[tk] = sv
                    # a non-constant definition (size = len(h)) is the quantity the scenario fixes: keep the fact
                    continue
            try:
                if isinstance(s, ast.AugAssign) and isinstance(s.target, ast.Attribute):
                    k = _key(s.target)
                    cur = alg.ev(s.target)
                    val = alg.ev(s.value)
                    op = s.op
                    if isinstance(op, ast.Add):
                        new = cur + val
                    elif isinstance(op, ast.Sub):
                        new = cur - val
                    elif isinstance(op, ast.Mult):
                        new = cur * val
                    elif isinstance(op, ast.Div):
                        new = cur / val
                    else:
                        raise Uninterpreted("augassign op")
                    alg.atom_map[k] = new
                    continue
                if not alg.assign(s):
                    raise Uninterpreted("assignment form")
            except Uninterpreted:
                # opaque object binding: forget any previous definition of the names
                for t in s.targets if isinstance(s, ast.Assign) else [s.target]:
                    if isinstance(t, ast.Name):
                        alg.env.pop(t.id, None)
                    else:
                        k = _key(t)
                        if k is not None and (k in alg.atom_map or k.startswith("self.")):
                            raise AnalysisError(rule, "construct=%s uninterpreted update of %s line %d" % (construct, k, s.lineno))
            continue
        if isinstance(s, ast.Expr):
            continue
        if isinstance(s, ast.Pass):
            continue
        if isinstance(s, ast.Try):
            out = walk(s.body, facts, alg, model, rule, construct, on_assign, on_test)
            if out.kind != "fall":
                return out
            continue
        raise AnalysisError(rule, "construct=%s statement kind %s not handled line %d" % (construct, type(s).__name__, s.lineno))
    return Outcome("fall", None, alg, facts)


def raised_name(outcome):
    n = outcome.node
    if n is None:
        return None
    if isinstance(n, ast.Call):
        n = n.func
    if isinstance(n, ast.Name):
        return n.id
    return ast.unparse(n)
