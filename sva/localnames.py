"""Normalisation: undo `rename local variable`.

Rules find constructs by role, but many roles in the long functions (SVG.parse: the element stack, the element under
construction, the inherited value dictionary, the current container, the root) are most cheaply named by the local that plays
them.  A rename of such a local is behaviour-preserving and must not change any verdict.  Instead of teaching every rule every
possible name, the name is restored before analysis:

  * spec/pinned_locals.json records, for every function of the reference tree, a *use signature* of each local it binds: the
    multiset of syntactic contexts the name occurs in (method called on it, attribute read, subscript with which constant,
    argument position of which callee, value it is assigned from, comparison against which constant, ...), with every other
    local name wildcarded.
  * On the analysed tree, a function that lacks a reference local and has a local the reference does not know is a candidate:
    the new local whose signature is most similar (Jaccard on multisets) to the missing one - above a threshold and clearly
    ahead of the runner-up - is renamed back, in that function only.

Nothing is renamed when the match is not unique; the rules then fail closed exactly as before.
"""
import ast
import collections
import json
import os

VERIF = os.path.dirname(os.path.dirname(os.path.abspath(__file__)))
TABLE = os.path.join(VERIF, "spec", "pinned_locals.json")
THRESHOLD = 0.6
MARGIN = 0.15


def _qualname_functions(tree):
    out = {}

    def walk(body, prefix):
        for n in body:
            if isinstance(n, ast.ClassDef):
                walk(n.body, prefix + n.name + ".")
            elif isinstance(n, (ast.FunctionDef, ast.AsyncFunctionDef)):
                q = prefix + n.name
                if q not in out:
                    out[q] = n
                walk(n.body, q + ".")
    walk(tree.body, "")
    return out


def _own_nodes(fn):
    """nodes of fn excluding nested function/class bodies"""
    # nested definitions that are statements of the body itself are walked (closures share the enclosing function's locals:
    # `event_defs` of _use_structure_parse is used inside its nested semiparse); deeper ones are not
    stack = list(fn.body)
    while stack:
        n = stack.pop()
        yield n
        for c in ast.iter_child_nodes(n):
            if isinstance(c, (ast.FunctionDef, ast.AsyncFunctionDef, ast.ClassDef, ast.Lambda)):
                continue
            stack.append(c)


def bound_locals(fn):
    names = set()
    for n in _own_nodes(fn):
        if isinstance(n, ast.Name) and isinstance(n.ctx, (ast.Store, ast.Del)):
            names.add(n.id)
    return names


def _const(n):
    if isinstance(n, ast.Constant):
        return repr(n.value)[:20]
    if isinstance(n, ast.UnaryOp) and isinstance(n.op, ast.USub) and isinstance(n.operand, ast.Constant):
        return "-" + repr(n.operand.value)[:20]
    if isinstance(n, ast.Name) and n.id.isupper():
        return n.id  # module constant
    return "_"


def _callee(c):
    f = c.func
    if isinstance(f, ast.Name):
        return f.id
    if isinstance(f, ast.Attribute):
        return "." + f.attr
    return "?"


def signatures(fn, params=()):
    """local name -> Counter of context strings"""
    parents = {}
    for n in _own_nodes(fn):
        for c in ast.iter_child_nodes(n):
            parents[id(c)] = n
    sig = collections.defaultdict(collections.Counter)
    for n in _own_nodes(fn):
        if not isinstance(n, ast.Name):
            continue
        p = parents.get(id(n))
        v = n.id
        if isinstance(n.ctx, ast.Store):
            if isinstance(p, ast.Assign):
                val = p.value
                if isinstance(val, ast.Call):
                    sig[v]["=call:" + _callee(val)] += 1
                elif isinstance(val, ast.Constant):
                    sig[v]["=const:" + _const(val)] += 1
                elif isinstance(val, ast.Attribute):
                    sig[v]["=attr:" + val.attr] += 1
                elif isinstance(val, ast.Subscript):
                    sig[v]["=sub:" + _const(val.slice)] += 1
                else:
                    sig[v]["=" + type(val).__name__] += 1
            elif isinstance(p, ast.Tuple):
                idx = [i for i, e in enumerate(p.elts) if e is n]
                sig[v]["=tuple#%d/%d" % (idx[0] if idx else -1, len(p.elts))] += 1
            elif isinstance(p, (ast.For, ast.comprehension)):
                sig[v]["for-target"] += 1
            elif isinstance(p, ast.AugAssign):
                sig[v]["aug:" + type(p.op).__name__] += 1
            else:
                sig[v]["store:" + type(p).__name__] += 1
            continue
        if isinstance(p, ast.Attribute):
            gp = parents.get(id(p))
            if isinstance(gp, ast.Call) and gp.func is p:
                sig[v]["call." + p.attr] += 1
            elif isinstance(p.ctx, ast.Store):
                sig[v]["set." + p.attr] += 1
            else:
                sig[v]["get." + p.attr] += 1
        elif isinstance(p, ast.Subscript) and p.value is n:
            sig[v]["sub[%s]%s" % (_const(p.slice), "=" if isinstance(p.ctx, ast.Store) else "")] += 1
        elif isinstance(p, ast.Subscript):
            sig[v]["index-of"] += 1
        elif isinstance(p, ast.Call):
            pos = [i for i, a in enumerate(p.args) if a is n]
            sig[v]["arg:%s#%d" % (_callee(p), pos[0] if pos else -1)] += 1
        elif isinstance(p, ast.keyword):
            sig[v]["kw:" + str(p.arg)] += 1
        elif isinstance(p, ast.Compare):
            others = [p.left] + list(p.comparators)
            ops = "/".join(type(o).__name__ for o in p.ops)
            sig[v]["cmp:%s:%s" % (ops, "|".join(sorted(_const(o) for o in others if o is not n)))] += 1
        elif isinstance(p, ast.Return):
            sig[v]["return"] += 1
        elif isinstance(p, (ast.If, ast.While, ast.IfExp)) and getattr(p, "test", None) is n:
            sig[v]["truth"] += 1
        elif isinstance(p, ast.BinOp):
            sig[v]["binop:" + type(p.op).__name__] += 1
        elif isinstance(p, ast.AugAssign):
            sig[v]["augval:" + type(p.op).__name__] += 1
        elif isinstance(p, (ast.For, ast.comprehension)):
            sig[v]["iter"] += 1
        elif isinstance(p, ast.Tuple):
            sig[v]["in-tuple/%d" % len(p.elts)] += 1
        else:
            sig[v]["use:" + type(p).__name__] += 1
    return sig


def build_table(tree):
    out = {}
    for q, fn in _qualname_functions(tree).items():
        loc = bound_locals(fn)
        if len(loc) < 2:
            continue
        s = signatures(fn)
        out[q] = {v: dict(s[v]) for v in sorted(loc)}
    return out


def _similarity(a, b):
    a, b = collections.Counter(a), collections.Counter(b)
    inter = sum((a & b).values())
    union = sum((a | b).values())
    return inter / union if union else 0.0


def restore(tree):
    """-> list of (function, current name, restored name, similarity)"""
    if not os.path.exists(TABLE):
        return []
    table = json.load(open(TABLE))
    done = []
    for q, fn in _qualname_functions(tree).items():
        ref = table.get(q)
        if not ref:
            continue
        cur = bound_locals(fn)
        params = {a.arg for a in fn.args.args + fn.args.kwonlyargs} | ({fn.args.vararg.arg} if fn.args.vararg else set()) | ({fn.args.kwarg.arg} if fn.args.kwarg else set())
        used = {n.id for n in _own_nodes(fn) if isinstance(n, ast.Name)}
        missing = [m for m in ref if m not in cur and m not in used and m not in params]
        new = [n for n in cur if n not in ref]
        if not missing or not new:
            continue
        sig = signatures(fn)
        pairs = []
        for m in missing:
            scored = sorted(((_similarity(ref[m], sig[n]), n) for n in new), reverse=True)
            if not scored:
                continue
            best = scored[0]
            second = scored[1][0] if len(scored) > 1 else 0.0
            if best[0] >= THRESHOLD and best[0] - second >= MARGIN:
                pairs.append((best[0], m, best[1]))
        # a new name may serve only one missing name
        taken = set()
        mapping = {}
        for simv, m, n in sorted(pairs, reverse=True):
            if n in taken or m in mapping.values():
                continue
            # the new name must also prefer this missing name
            rivals = sorted(((_similarity(ref[m2], sig[n]), m2) for m2 in missing), reverse=True)
            if rivals[0][1] != m:
                continue
            mapping[n] = m
            taken.add(n)
            done.append((q, n, m, round(simv, 2)))
        if mapping:
            for node in _own_nodes(fn):
                if isinstance(node, ast.Name) and node.id in mapping:
                    node.id = mapping[node.id]
                elif isinstance(node, ast.arg) and node.arg in mapping:
                    # a parameter of a nested definition with the same (renamed) name: its uses in that body were renamed with
                    # the rest, so the parameter follows - a consistent renaming inside the nested scope
                    node.arg = mapping[node.arg]
    return done
