"""Follow an operator method for one operand class: which statements run when `other` is a str / a Path / a PathSegment ...

Operator methods dispatch on isinstance tests, written as elif chains or as guard clauses with early returns; first-match
semantics over the class hierarchy (C3 MRO from the model) decide each test, nothing else is evaluated.
"""
import ast

from .model import AnalysisError

BUILTINS = {"str": {"str"}, "int": {"int"}, "float": {"float"}, "bool": {"bool", "int"}, "list": {"list"}, "tuple": {"tuple"}, "dict": {"dict"}, "complex": {"complex"}}


class Path_:
    def __init__(self):
        self.stmts = []  # statements executed, in order (compound statements that are not dispatch tests included whole)
        self.exit = None  # 'return' | 'raise' | 'fall'
        self.value = None


def is_instance(model, actual, wanted):
    if actual in BUILTINS:
        return wanted in BUILTINS[actual]
    if actual in model.classes:
        return wanted in model.mro(actual)
    return False


def follow(ctx, rule, fn, types, extra=None):
    model = ctx.m
    types = dict(types)
    out = Path_()

    def decide(t):
        if isinstance(t, ast.BoolOp):
            # short-circuit, left to right: a later operand may be decidable only when the earlier ones let it be reached
            if isinstance(t.op, ast.And):
                for v in t.values:
                    if not decide(v):
                        return False
                return True
            for v in t.values:
                if decide(v):
                    return True
            return False
        if isinstance(t, ast.UnaryOp) and isinstance(t.op, ast.Not):
            return not decide(t.operand)
        if isinstance(t, ast.Call) and isinstance(t.func, ast.Name) and t.func.id == "isinstance" and len(t.args) == 2 and isinstance(t.args[0], ast.Name) \
                and t.args[0].id in types:
            names = [e.id for e in (t.args[1].elts if isinstance(t.args[1], ast.Tuple) else [t.args[1]]) if isinstance(e, ast.Name)]
            return any(is_instance(model, types[t.args[0].id], n) for n in names)
        if extra is not None:
            v = extra(t)
            if v is not None:
                return v
        raise AnalysisError(rule, "%s: undecided dispatch test `%s` line %d" % (fn.name, ast.unparse(t)[:60], t.lineno))

    def dispatchy(t):
        return any(isinstance(c, ast.Call) and isinstance(c.func, ast.Name) and c.func.id == "isinstance" and c.args and isinstance(c.args[0], ast.Name) and c.args[0].id in types
                   for c in ast.walk(t))

    def decidable(t):
        # a test the scenario answers without any type fact (`not other.transform.is_identity()`)
        if extra is None:
            return False
        try:
            decide(t)
            return True
        except AnalysisError:
            return False

    def run(stmts):
        for s in stmts:
            if isinstance(s, ast.Expr) and isinstance(s.value, ast.Constant):
                continue
            if isinstance(s, ast.If) and (dispatchy(s.test) or decidable(s.test)):
                r = run(s.body if decide(s.test) else s.orelse)
                if r:
                    return True
                continue
            if any(isinstance(n, ast.IfExp) and (dispatchy(n.test) or decidable(n.test)) for n in ast.walk(s)):
                # a conditional expression decided by the scenario: keep the selected operand
                import copy as _copy

                class _Pick(ast.NodeTransformer):
                    def visit_IfExp(self, n):
                        if dispatchy(n.test) or decidable(n.test):
                            return self.visit(n.body if decide(n.test) else n.orelse)
                        return self.generic_visit(n)

                s = ast.fix_missing_locations(_Pick().visit(_copy.deepcopy(s)))
            out.stmts.append(s)
            if isinstance(s, ast.Return):
                out.exit, out.value = "return", s.value
                return True
            if isinstance(s, ast.Raise):
                out.exit, out.value = "raise", s.exc
                return True
        return False

    if not run(fn.body):
        out.exit = "fall"
    return out


def calls_in(stmts, pred):
    out = []
    for s in stmts:
        for n in ast.walk(s):
            if isinstance(n, ast.Call) and pred(n):
                out.append(n)
    return out
