"""Bit-field layout evaluation: shifts, masks and ors over words whose bits are symbols.

A word is a list of W bits; each bit is 0, 1 or a symbol (name, index).  Only layout operators are
interpreted (<<, >>, &, |, ~ with constant partners, | of disjoint fields).  Anything else is Unknown.
"""
import ast

W = 72


class Unknown(Exception):
    pass


def word_const(v):
    if v < 0:
        v &= (1 << W) - 1
    return [(v >> i) & 1 for i in range(W)]


def word_sym(name, width):
    return [(name, i) if i < width else 0 for i in range(W)]


def shl(w, n):
    return ([0] * n + w)[:W]


def shr(w, n):
    return w[n:] + [0] * n


def band(a, b):
    out = []
    for x, y in zip(a, b):
        if x == 0 or y == 0:
            out.append(0)
        elif x == 1:
            out.append(y)
        elif y == 1:
            out.append(x)
        elif x == y:
            out.append(x)
        else:
            raise Unknown("and of two symbolic bits")
    return out


def bor(a, b):
    out = []
    for x, y in zip(a, b):
        if x == 0:
            out.append(y)
        elif y == 0:
            out.append(x)
        elif x == 1 or y == 1:
            out.append(1)
        elif x == y:
            out.append(x)
        else:
            out.append(("!overlap", 0))  # two different fields or-ed onto one bit: data corruption, shows up as a mismatch
    return out


def bnot(a):
    out = []
    for x in a:
        if x in (0, 1):
            out.append(1 - x)
        else:
            raise Unknown("not of symbolic bit")
    return out


def show(w, upto=32):
    """Compact description: list of (lo, hi, what)."""
    out = []
    i = 0
    while i < upto:
        b = w[i]
        j = i
        if b in (0, 1):
            while j + 1 < upto and w[j + 1] == b:
                j += 1
            out.append("%d..%d=%s" % (i, j, b))
        else:
            while j + 1 < upto and isinstance(w[j + 1], tuple) and w[j + 1][0] == b[0] and w[j + 1][1] == w[j][1] + 1:
                j += 1
            out.append("%d..%d=%s[%d..%d]" % (i, j, b[0], b[1], w[j][1]))
        i = j + 1
    return " ".join(out)


class BitEval:
    def __init__(self, env=None, attr_hook=None, call_hook=None):
        self.env = dict(env or {})  # expr source -> word
        self.attr_hook = attr_hook
        self.call_hook = call_hook

    def ev(self, node):
        src = ast.unparse(node)
        if src in self.env:
            return self.env[src]
        if isinstance(node, ast.Constant) and isinstance(node.value, int) and not isinstance(node.value, bool):
            return word_const(node.value)
        if isinstance(node, ast.UnaryOp) and isinstance(node.op, ast.Invert):
            return bnot(self.ev(node.operand))
        if isinstance(node, ast.BinOp):
            if isinstance(node.op, (ast.LShift, ast.RShift)):
                if not (isinstance(node.right, ast.Constant) and isinstance(node.right.value, int)):
                    raise Unknown("variable shift")
                l = self.ev(node.left)
                return shl(l, node.right.value) if isinstance(node.op, ast.LShift) else shr(l, node.right.value)
            if isinstance(node.op, ast.BitAnd):
                return band(self.ev(node.left), self.ev(node.right))
            if isinstance(node.op, ast.BitOr):
                return bor(self.ev(node.left), self.ev(node.right))
            raise Unknown("operator %s" % type(node.op).__name__)
        if isinstance(node, ast.IfExp):
            # `X if self.value is not None else None`: the non-None arm is the layout
            if isinstance(node.orelse, ast.Constant) and node.orelse.value is None:
                return self.ev(node.body)
            if isinstance(node.body, ast.Constant) and node.body.value is None:
                return self.ev(node.orelse)
            raise Unknown("conditional")
        if isinstance(node, ast.Attribute) and self.attr_hook is not None:
            r = self.attr_hook(self, node)
            if r is not None:
                return r
        if isinstance(node, ast.Call) and self.call_hook is not None:
            r = self.call_hook(self, node)
            if r is not None:
                return r
        raise Unknown("expression %s" % src)
