"""Callee summaries 'parameter requires NonNull' and Maybe-returning accessors.

A parameter *requires NonNull* when some use of it in the callee, not dominated by a None test, dereferences it,
uses it arithmetically/ordered-compares it, wraps it in Point(...) and then uses the coordinates, or hands it to another
parameter that requires NonNull.  Star-arg constructors are analysed per call-site arity (len(args) == k tests are
decided from the number of positional arguments at the site).
"""
import ast

from .model import AnalysisError, attr_chain, call_name, stmts_in


def returns_maybe(fn, cls=None, depth=0):
    """Does some return path yield None (explicit None, bare return, fall-through, `X if c else None`, or a local read
    from a Maybe accessor of the same class without a raise-if-None guard)?  cls: ClassInfo for accessor lookup."""
    if cls is not None and depth < 3:
        guarded = set()
        for s in ast.walk(fn):
            if isinstance(s, ast.If) and isinstance(s.test, ast.Compare) and isinstance(s.test.ops[0], ast.Is) and isinstance(s.test.left, ast.Name) \
                    and isinstance(s.test.comparators[0], ast.Constant) and s.test.comparators[0].value is None and s.body \
                    and isinstance(s.body[0], (ast.Raise, ast.Return)):
                if isinstance(s.body[0], ast.Raise) or (s.body[0].value is not None and not (isinstance(s.body[0].value, ast.Constant) and s.body[0].value.value is None)):
                    guarded.add(s.test.left.id)
        for s in ast.walk(fn):
            if isinstance(s, ast.Return) and isinstance(s.value, ast.Name) and s.value.id not in guarded:
                for a in ast.walk(fn):
                    if isinstance(a, ast.Assign) and any(isinstance(t, ast.Name) and t.id == s.value.id for t in a.targets):
                        v = a.value
                        if isinstance(v, ast.Attribute) and isinstance(v.value, ast.Name) and v.value.id == "self" and v.attr in cls.getters \
                                and cls.getters[v.attr] is not fn and returns_maybe(cls.getters[v.attr], cls, depth + 1):
                            return True
    for s in ast.walk(fn):
        if isinstance(s, ast.Return):
            v = s.value
            if v is None or (isinstance(v, ast.Constant) and v.value is None):
                return True
            if isinstance(v, ast.IfExp) and any(isinstance(x, ast.Constant) and x.value is None for x in (v.body, v.orelse)):
                return True
            if isinstance(v, ast.Name):
                # a local initialised to None and conditionally assigned
                for a in ast.walk(fn):
                    if isinstance(a, ast.Assign) and any(isinstance(t, ast.Name) and t.id == v.id for t in a.targets) \
                            and isinstance(a.value, ast.Constant) and a.value.value is None:
                        return True
    last = fn.body[-1]
    if not isinstance(last, (ast.Return, ast.Raise)):
        return True
    return False


class Req:
    """requires-NonNull analysis with memoised summaries."""

    def __init__(self, model):
        self.m = model
        self.memo = {}
        self.stack = set()
        self.log = []

    # -- public ----------------------------------------------------------------
    def call_requires(self, call, arg_index, cls_hint=None):
        """Does the callee of `call` require its positional argument #arg_index to be non-None?
        Returns (bool, reason) ; unresolvable callees raise AnalysisError."""
        target = self.resolve(call, cls_hint)
        if target is None:
            raise AnalysisError("nullness", "cannot resolve callee of %s" % ast.unparse(call)[:60])
        qual, fn, bound = target
        return self.requires(qual, fn, arg_index + (1 if bound else 0), n_pos=len(call.args) + (1 if bound else 0),
                             kw={k.arg for k in call.keywords})

    def resolve(self, call, cls_hint=None):
        cn = call_name(call)
        if cn is None:
            return None
        parts = cn.split(".")
        m = self.m
        if len(parts) == 1 and parts[0] in m.classes:
            # constructor: first __init__ in the MRO
            for c in m.mro(parts[0]):
                if "__init__" in m.classes[c].methods:
                    return ("%s.__init__" % c, m.classes[c].methods["__init__"], True)
            return None
        if len(parts) == 2 and parts[0] in m.classes:
            try:
                fn = m.func(cn)
            except AnalysisError:
                return None
            static = "staticmethod" in getattr(fn, "_deco", [])
            # Base.__init__(self, ...) passes self explicitly
            return (cn, fn, False) if not static else (cn, fn, False)
        if len(parts) == 2 and parts[0] == "self" and cls_hint:
            try:
                fn = m.func("%s.%s" % (cls_hint, parts[1]))
            except AnalysisError:
                return None
            return ("%s.%s" % (cls_hint, parts[1]), fn, True)
        return None

    def requires(self, qual, fn, index, n_pos=None, kw=()):
        key = (qual, index, n_pos if fn.args.vararg else None)
        if key in self.memo:
            return self.memo[key]
        if key in self.stack:
            return (False, "recursive")
        self.stack.add(key)
        try:
            res = self._requires(qual, fn, index, n_pos, kw)
        finally:
            self.stack.discard(key)
        self.memo[key] = res
        return res

    # -- implementation ----------------------------------------------------------
    def _requires(self, qual, fn, index, n_pos, kw):
        params = [a.arg for a in fn.args.args]
        cls = getattr(fn, "_class", None)
        if index < len(params):
            name = params[index]
            var_args = None
        elif fn.args.vararg is not None:
            name = None
            var_args = (fn.args.vararg.arg, index - len(params), n_pos - len(params) if n_pos is not None else None)
        else:
            return (False, "no such parameter")
        an = _Uses(self, cls, name, var_args, kw)
        an.block(fn.body, guarded=False)
        return (bool(an.hits), "; ".join(an.hits[:3]))


class _Uses:
    def __init__(self, req, cls, name, var_args, kw):
        self.req = req
        self.cls = cls
        self.names = {name} if name else set()
        self.var_args = var_args  # (argsname, index, total)
        self.wrapped = set()  # names bound to Point(<param>) without guard
        self.hits = []
        self.kw = kw

    def is_param(self, node):
        if isinstance(node, ast.Name) and node.id in self.names:
            return True
        if self.var_args and isinstance(node, ast.Subscript) and isinstance(node.value, ast.Name) and node.value.id == self.var_args[0] \
                and isinstance(node.slice, ast.Constant) and node.slice.value == self.var_args[1]:
            return True
        return False

    def decide_len(self, test):
        """len(args) == k / != / >= / > with the call-site arity."""
        if not self.var_args or self.var_args[2] is None:
            return None
        if isinstance(test, ast.BoolOp):
            vals = [self.decide_len(v) for v in test.values]
            if isinstance(test.op, ast.And):
                if any(v is False for v in vals):
                    return False
                return True if all(v is True for v in vals) else None
            if any(v is True for v in vals):
                return True
            return False if all(v is False for v in vals) else None
        if isinstance(test, ast.Compare) and len(test.ops) == 1 and isinstance(test.comparators[0], ast.Constant):
            l = test.left
            n = None
            if isinstance(l, ast.Call) and isinstance(l.func, ast.Name) and l.func.id == "len" and isinstance(l.args[0], ast.Name):
                if l.args[0].id == self.var_args[0]:
                    n = self.var_args[2]
                elif l.args[0].id == "kwargs":
                    return None
            elif isinstance(l, ast.Name) and l.id in self.len_alias:
                n = self.var_args[2]
            if n is None:
                return None
            k = test.comparators[0].value
            op = test.ops[0]
            return {ast.Eq: n == k, ast.NotEq: n != k, ast.Gt: n > k, ast.GtE: n >= k, ast.Lt: n < k, ast.LtE: n <= k}.get(type(op))
        return None

    len_alias = set()

    def none_guard(self, test):
        """Returns ('nonnull'|'null', ) if test establishes the param's nullness in the true branch."""
        if isinstance(test, ast.Compare) and len(test.ops) == 1 and isinstance(test.comparators[0], ast.Constant) and test.comparators[0].value is None:
            if self.is_param(test.left) or (isinstance(test.left, ast.Name) and test.left.id in self.wrapped):
                return "nonnull" if isinstance(test.ops[0], ast.IsNot) else ("null" if isinstance(test.ops[0], ast.Is) else None)
        if isinstance(test, ast.BoolOp) and isinstance(test.op, ast.And):
            for v in test.values:
                if self.none_guard(v) == "nonnull":
                    return "nonnull"
        return None

    def block(self, stmts, guarded):
        """Returns True when the block always leaves (return/raise)."""
        for s in stmts:
            if isinstance(s, ast.If):
                d = self.decide_len(s.test)
                g = self.none_guard(s.test)
                if d is True:
                    if self.block(s.body, guarded):
                        return True
                    continue
                if d is False:
                    if self.block(s.orelse, guarded):
                        return True
                    continue
                if not guarded and g is None:
                    self.expr(s.test, guarded)
                t_exit = self.block(s.body, guarded or g == "nonnull")
                e_exit = self.block(s.orelse, guarded or g == "null")
                if g == "null" and t_exit:
                    guarded = True  # `if p is None: raise/return` dominates the rest
                if t_exit and e_exit and s.orelse:
                    return True
                continue
            if isinstance(s, (ast.Return, ast.Raise)):
                if isinstance(s, ast.Return) and s.value is not None:
                    self.expr(s.value, guarded)
                return True
            if isinstance(s, ast.Assign):
                # alias / wrap tracking
                v = s.value
                if len(s.targets) == 1 and isinstance(s.targets[0], ast.Name):
                    t = s.targets[0].id
                    if isinstance(v, ast.Call) and isinstance(v.func, ast.Name) and v.func.id == "len" and self.var_args \
                            and isinstance(v.args[0], ast.Name) and v.args[0].id == self.var_args[0]:
                        self.len_alias = set(self.len_alias) | {t}
                        continue
                    if self.is_param(v):
                        self.names.add(t)
                        continue
                    if isinstance(v, ast.Call) and call_name(v) == "Point" and len(v.args) == 1 and self.is_param(v.args[0]) and not guarded:
                        if t in self.names:
                            self.names.discard(t)
                        self.wrapped.add(t)
                        continue
                    if isinstance(v, ast.IfExp) and self.none_guard(v.test) == "nonnull":
                        self.expr(v.orelse, guarded)
                        continue
                    if t in self.names and not self.is_param(v):
                        self.expr(v, guarded)
                        self.names.discard(t)
                        continue
                if len(s.targets) == 1 and isinstance(s.targets[0], ast.Attribute) and (self.is_param(v) or (isinstance(v, ast.Name) and v.id in self.wrapped)):
                    continue  # store: no requirement
                if isinstance(v, ast.IfExp) and self.none_guard(v.test) == "nonnull":
                    self.expr(v.orelse, guarded)
                    continue
                self.expr(v, guarded)
                continue
            if isinstance(s, ast.AugAssign):
                self.expr(s.value, guarded)
                if self.is_param(s.target) and not guarded:
                    self.hits.append("arithmetic on %s line %d" % (ast.unparse(s.target), s.lineno))
                continue
            if isinstance(s, ast.Expr):
                self.expr(s.value, guarded)
                continue
            if isinstance(s, (ast.For, ast.While)):
                if isinstance(s, ast.For):
                    self.expr(s.iter, guarded)
                else:
                    self.expr(s.test, guarded)
                self.block(s.body, guarded)
                continue
            if isinstance(s, ast.Try):
                self.block(s.body, guarded)
                for h in s.handlers:
                    self.block(h.body, guarded)
                continue
            if isinstance(s, ast.With):
                self.block(s.body, guarded)
                continue

    def expr(self, node, guarded):
        if guarded or node is None:
            return
        for n in ast.walk(node):
            if isinstance(n, ast.Attribute) and (self.is_param(n.value)):
                self.hits.append("dereference %s line %d" % (ast.unparse(n), n.lineno))
            elif isinstance(n, ast.Attribute) and isinstance(n.value, ast.Name) and n.value.id in self.wrapped and n.attr in ("x", "y", "real", "imag"):
                # coordinates of Point(None) are None: arithmetic on them fails
                p = getattr(n, "_parent", None)
                if isinstance(p, (ast.BinOp, ast.UnaryOp, ast.Compare)) or (isinstance(p, ast.Call) and n in p.args):
                    self.hits.append("coordinate of Point(<maybe None>) used: %s line %d" % (ast.unparse(n), n.lineno))
            elif isinstance(n, ast.Subscript) and self.is_param(n.value) and not self.is_param(n):
                self.hits.append("subscript %s line %d" % (ast.unparse(n), n.lineno))
            elif isinstance(n, ast.BinOp) and (self.is_param(n.left) or self.is_param(n.right)):
                self.hits.append("arithmetic %s line %d" % (ast.unparse(n), n.lineno))
            elif isinstance(n, ast.Compare) and any(isinstance(o, (ast.Lt, ast.LtE, ast.Gt, ast.GtE)) for o in n.ops) \
                    and (self.is_param(n.left) or any(self.is_param(c) for c in n.comparators)):
                self.hits.append("ordered comparison %s line %d" % (ast.unparse(n), n.lineno))
            elif isinstance(n, ast.Compare) and any(isinstance(o, (ast.Eq, ast.NotEq)) for o in n.ops) \
                    and any(isinstance(x, ast.Name) and x.id in self.wrapped for x in [n.left] + n.comparators):
                self.hits.append("comparison of Point(<maybe None>) %s line %d" % (ast.unparse(n), n.lineno))
            elif isinstance(n, ast.Call):
                for i, a in enumerate(n.args):
                    if self.is_param(a):
                        cn = call_name(n)
                        if cn in ("Point",):
                            continue  # wrap handled at assignment level; bare Point(None) is harmless by itself
                        if cn in ("abs", "float", "int", "radians", "degrees", "cos", "sin", "sqrt", "tan", "round"):
                            self.hits.append("numeric builtin %s line %d" % (ast.unparse(n)[:40], n.lineno))
                            continue
                        try:
                            target = self.req.resolve(n, self.cls)
                        except AnalysisError:
                            target = None
                        if target is None:
                            continue
                        qual, fn, bound = target
                        # Base.__init__(self, x): explicit self
                        r, why = self.req.requires(qual, fn, i + (1 if bound else 0), n_pos=len(n.args) + (1 if bound else 0),
                                                   kw={k.arg for k in n.keywords})
                        if r:
                            self.hits.append("passed to %s which requires it (%s)" % (qual, why))
