"""Program model of /repo/svgelements/svgelements.py built from its syntax tree.

Nothing here imports or executes the module under analysis.
"""
import ast
import re
import hashlib
import os
from fractions import Fraction

REPO = os.environ.get("REPO", "/repo")
SRC_REL = "svgelements/svgelements.py"


class AnalysisError(Exception):
    """The analysis cannot decide (anchor vanished, idiom unknown, floor missed)."""

    def __init__(self, rule, what):
        Exception.__init__(self, "rule=%s %s" % (rule, what))
        self.rule = rule
        self.what = what


class NotConst(Exception):
    pass


class Model:
    def __init__(self, repo=None):
        self.repo = repo or REPO
        self.path = os.path.join(self.repo, SRC_REL)
        with open(self.path, "rb") as f:
            data = f.read()
        self.digest = hashlib.sha256(data).hexdigest()
        self.tree = ast.parse(data, filename=self.path)
        self.normalisation = {"inlined": [], "kept": []}
        if os.environ.get("SVA_NO_INLINE") != "1":
            from .normalise import normalise
            self.tree, self.normalisation = normalise(self.tree)
        self.source_lines = data.decode("iso-8859-1").splitlines()
        init = os.path.join(self.repo, "svgelements/__init__.py")
        self.init_tree = ast.parse(open(init, "rb").read(), filename=init)
        for node in ast.walk(self.tree):
            for child in ast.iter_child_nodes(node):
                child._parent = node
        self.consts = {}
        self.regexes = {}  # name -> pattern string
        self.regex_flags = {}  # name -> int (re flags named in the compile call)
        self.classes = {}  # name -> ClassInfo
        self.functions = {}  # module level functions
        self._build()

    # ------------------------------------------------------------------
    def _build(self):
        for node in self.tree.body:
            self._module_stmt(node)
        for ci in self.classes.values():
            ci._finish(self)

    def _module_stmt(self, node):
        if isinstance(node, ast.Assign) and len(node.targets) == 1 and isinstance(node.targets[0], ast.Name):
            name = node.targets[0].id
            v = node.value
            if (
                isinstance(v, ast.Call)
                and isinstance(v.func, ast.Attribute)
                and isinstance(v.func.value, ast.Name)
                and v.func.value.id == "re"
                and v.func.attr == "compile"
                and v.args
            ):
                try:
                    self.regexes[name] = self.const(v.args[0])
                    fl = 0
                    fexprs = list(v.args[1:2]) + [k.value for k in v.keywords if k.arg == "flags"]
                    for fe in fexprs:
                        for x in ast.walk(fe):
                            if isinstance(x, ast.Attribute) and isinstance(x.value, ast.Name) and x.value.id == "re" and isinstance(getattr(re, x.attr, None), re.RegexFlag):
                                fl |= int(getattr(re, x.attr))
                    self.regex_flags[name] = fl
                except NotConst:
                    pass
                return
            try:
                self.consts[name] = self.const(v)
            except NotConst:
                pass
        elif isinstance(node, ast.ClassDef):
            self.classes[node.name] = ClassInfo(node)
        elif isinstance(node, (ast.FunctionDef,)):
            self.functions[node.name] = node
        elif isinstance(node, ast.Try):
            for s in node.body:
                self._module_stmt(s)

    # ------------------------------------------------------------------
    def const(self, node, env=None):
        """Fold a constant expression (strings, numbers, tuples, lists, +, %, join)."""
        env = env or {}
        if isinstance(node, ast.Constant):
            return node.value
        if isinstance(node, ast.Name):
            if node.id in env:
                return env[node.id]
            if node.id in self.consts:
                return self.consts[node.id]
            raise NotConst(node.id)
        if isinstance(node, (ast.Tuple, ast.List)):
            vals = [self.const(e, env) for e in node.elts]
            return tuple(vals) if isinstance(node, ast.Tuple) else vals
        if isinstance(node, ast.BinOp):
            l = self.const(node.left, env)
            r = self.const(node.right, env)
            if isinstance(node.op, ast.Add):
                return l + r
            if isinstance(node.op, ast.Mod) and isinstance(l, str):
                return l % r
            if isinstance(node.op, ast.Mult):
                return l * r
            if isinstance(node.op, ast.Div):
                return l / r
            if isinstance(node.op, ast.Sub):
                return l - r
            raise NotConst("binop")
        if isinstance(node, ast.UnaryOp) and isinstance(node.op, ast.USub):
            return -self.const(node.operand, env)
        if isinstance(node, ast.JoinedStr):
            raise NotConst("fstring")
        if (
            isinstance(node, ast.Call)
            and isinstance(node.func, ast.Attribute)
            and node.func.attr == "join"
            and len(node.args) == 1
        ):
            sep = self.const(node.func.value, env)
            arg = node.args[0]
            if isinstance(arg, (ast.GeneratorExp, ast.ListComp)) and len(arg.generators) == 1:
                gen = arg.generators[0]
                if gen.ifs or not isinstance(gen.target, ast.Name):
                    raise NotConst("join-gen")
                items = self.const(gen.iter, env)
                out = []
                for it in items:
                    e2 = dict(env)
                    e2[gen.target.id] = it
                    out.append(self.const(arg.elt, e2))
                return sep.join(out)
            return sep.join(self.const(arg, env))
        raise NotConst(type(node).__name__)

    def try_const(self, node, default=None):
        try:
            return self.const(node)
        except NotConst:
            return default

    # ------------------------------------------------------------------
    def cls(self, name, rule="model"):
        if name not in self.classes:
            raise AnalysisError(rule, "class %s not found" % name)
        return self.classes[name]

    def func(self, qual, rule="model", kind=None):
        """Look up 'Class.method', 'Class.prop:setter', 'Class.prop:getter' or 'function'.
        Methods are resolved through the MRO."""
        if "." not in qual:
            if qual not in self.functions:
                raise AnalysisError(rule, "function %s not found" % qual)
            return self.functions[qual]
        cname, mname = qual.split(".", 1)
        which = None
        if ":" in mname:
            mname, which = mname.split(":")
        for c in self.mro(cname, rule):
            ci = self.classes[c]
            if which == "setter":
                if mname in ci.setters:
                    return ci.setters[mname]
            elif which == "getter":
                if mname in ci.getters:
                    return ci.getters[mname]
            else:
                if mname in ci.methods:
                    return ci.methods[mname]
                if mname in ci.aliases and ci.aliases[mname] in ci.methods:
                    return ci.methods[ci.aliases[mname]]
                if mname in ci.getters:
                    return ci.getters[mname]
        raise AnalysisError(rule, "method %s not found" % qual)

    def has_func(self, qual):
        try:
            self.func(qual)
            return True
        except AnalysisError:
            return False

    def owner(self, qual):
        """Return the class in the MRO that defines the method."""
        cname, mname = qual.split(".", 1)
        for c in self.mro(cname):
            ci = self.classes[c]
            if mname in ci.methods or mname in ci.aliases or mname in ci.getters:
                return c
        return None

    def mro(self, cname, rule="model"):
        ci = self.cls(cname, rule)
        if ci._mro is None:
            seqs = [self.mro(b, rule) for b in ci.bases if b in self.classes]
            seqs.append([b for b in ci.bases if b in self.classes])
            ci._mro = [cname] + _c3(seqs)
        return ci._mro

    def subclasses(self, cname, strict=False):
        out = []
        for c in self.classes:
            m = self.mro(c)
            if cname in m and (not strict or c != cname):
                out.append(c)
        return out

    def all_functions(self):
        """Yield (qualname, node) for every function in the module (methods incl. property variants)."""
        for n, f in self.functions.items():
            yield n, f
        for cn, ci in self.classes.items():
            for m, f in ci.methods.items():
                yield "%s.%s" % (cn, m), f
            for m, f in ci.getters.items():
                yield "%s.%s:getter" % (cn, m), f
            for m, f in ci.setters.items():
                yield "%s.%s:setter" % (cn, m), f

    def line(self, node):
        return getattr(node, "lineno", 0)

    def src(self, node):
        try:
            return ast.unparse(node)
        except Exception:
            return "<%s>" % type(node).__name__

    def resolve_name_const(self, node):
        """If node is a Name bound to a module constant or a literal, return the python value else raise."""
        return self.const(node)


def _c3(seqs):
    seqs = [list(s) for s in seqs if s]
    out = []
    while seqs:
        for s in seqs:
            head = s[0]
            if not any(head in t[1:] for t in seqs):
                break
        else:
            raise AnalysisError("model", "inconsistent MRO")
        out.append(head)
        seqs = [[x for x in s if x != head] for s in seqs]
        seqs = [s for s in seqs if s]
    return out


class ClassInfo:
    def __init__(self, node):
        self.node = node
        self.name = node.name
        self.bases = []
        for b in node.bases:
            if isinstance(b, ast.Name):
                self.bases.append(b.id)
            elif isinstance(b, ast.Attribute):
                self.bases.append(b.attr)
        self.methods = {}
        self.getters = {}
        self.setters = {}
        self.aliases = {}
        self.class_consts = {}
        self._mro = None
        for s in node.body:
            if isinstance(s, ast.FunctionDef):
                deco = [self._deco(d) for d in s.decorator_list]
                if "property" in deco:
                    self.getters[s.name] = s
                elif any(d.endswith(".setter") for d in deco):
                    self.setters[s.name] = s
                else:
                    self.methods[s.name] = s
                s._class = node.name
                s._deco = deco
            elif isinstance(s, ast.Assign) and len(s.targets) == 1 and isinstance(s.targets[0], ast.Name):
                if isinstance(s.value, ast.Name):
                    self.aliases[s.targets[0].id] = s.value.id
                else:
                    self.class_consts[s.targets[0].id] = s.value

    @staticmethod
    def _deco(d):
        if isinstance(d, ast.Name):
            return d.id
        if isinstance(d, ast.Attribute):
            return "%s.%s" % (ClassInfo._deco(d.value), d.attr)
        return "?"

    def _finish(self, model):
        pass

    def self_fields(self):
        """Attributes assigned on self anywhere in the class body: name -> list of value nodes."""
        out = {}
        for f in list(self.methods.values()) + list(self.setters.values()):
            if not f.args.args:
                continue
            selfname = f.args.args[0].arg
            for n in ast.walk(f):
                targets = []
                if isinstance(n, ast.Assign):
                    targets = [(t, n.value) for t in n.targets]
                elif isinstance(n, ast.AugAssign):
                    targets = [(n.target, n.value)]
                elif isinstance(n, ast.AnnAssign) and n.value is not None:
                    targets = [(n.target, n.value)]
                for t, v in targets:
                    if isinstance(t, ast.Tuple):
                        # tuple unpacking: the value is split, its constructor says nothing about each part's kind
                        v = ast.Constant(None)
                    for tt in t.elts if isinstance(t, ast.Tuple) else [t]:
                        if (
                            isinstance(tt, ast.Attribute)
                            and isinstance(tt.value, ast.Name)
                            and tt.value.id == selfname
                        ):
                            out.setdefault(tt.attr, []).append(v)
        return out


# ----------------------------------------------------------------------
# small AST helpers used by many rules


def is_name(node, name=None):
    return isinstance(node, ast.Name) and (name is None or node.id == name)


def is_attr(node, base=None, attr=None):
    """node is <base>.<attr> with base a Name."""
    return (
        isinstance(node, ast.Attribute)
        and (attr is None or node.attr == attr)
        and (base is None or (isinstance(node.value, ast.Name) and node.value.id == base))
    )


def attr_chain(node):
    """a.b.c -> ['a','b','c'] or None."""
    parts = []
    while isinstance(node, ast.Attribute):
        parts.append(node.attr)
        node = node.value
    if isinstance(node, ast.Name):
        parts.append(node.id)
        return list(reversed(parts))
    return None


def call_name(node):
    """For a Call return dotted callee name ('self.parser.move', 'Point', 'Matrix.scale') or None."""
    if not isinstance(node, ast.Call):
        return None
    ch = attr_chain(node.func)
    return ".".join(ch) if ch else None


def calls_in(node):
    return [n for n in ast.walk(node) if isinstance(n, ast.Call)]


def walk_no_nested(node):
    """Walk a function body without entering nested function/class definitions."""
    stack = list(ast.iter_child_nodes(node))
    while stack:
        n = stack.pop()
        yield n
        if isinstance(n, (ast.FunctionDef, ast.AsyncFunctionDef, ast.ClassDef, ast.Lambda)):
            continue
        stack.extend(ast.iter_child_nodes(n))


def stmts_in(body):
    """All statements in a statement list, recursively, in source order."""
    for s in body:
        yield s
        for field in ("body", "orelse", "finalbody"):
            sub = getattr(s, field, None)
            if isinstance(sub, list) and sub and isinstance(sub[0], ast.stmt):
                for x in stmts_in(sub):
                    yield x
        if isinstance(s, ast.Try):
            for h in s.handlers:
                for x in stmts_in(h.body):
                    yield x


def parent(node):
    return getattr(node, "_parent", None)


def enclosing(node, types):
    p = parent(node)
    while p is not None and not isinstance(p, types):
        p = parent(p)
    return p


def norm(node):
    """Normalised dump for structural equality (positions dropped)."""
    return ast.dump(node, annotate_fields=False, include_attributes=False)


class Renamer(ast.NodeTransformer):
    """Rename identifiers / attribute names / string constants according to a mapping."""

    def __init__(self, mapping):
        self.mapping = mapping

    def visit_Name(self, node):
        return ast.copy_location(ast.Name(self.mapping.get(node.id, node.id), node.ctx), node)

    def visit_Attribute(self, node):
        self.generic_visit(node)
        return ast.copy_location(ast.Attribute(node.value, self.mapping.get(node.attr, node.attr), node.ctx), node)

    def visit_arg(self, node):
        node.arg = self.mapping.get(node.arg, node.arg)
        return node

    def visit_keyword(self, node):
        self.generic_visit(node)
        if node.arg is not None:
            node.arg = self.mapping.get(node.arg, node.arg)
        return node

    def visit_Constant(self, node):
        if isinstance(node.value, str) and node.value in self.mapping:
            return ast.copy_location(ast.Constant(self.mapping[node.value]), node)
        return node


def fresh(node):
    """Detached copy of a node (via unparse/parse; the model's nodes carry parent links, so deepcopy would copy the module)."""
    src = ast.unparse(node)
    if isinstance(node, ast.stmt):
        return ast.parse(src).body[0]
    if isinstance(node, ast.expr):
        return ast.parse(src, mode="eval").body
    raise TypeError(type(node).__name__)


def renamed(node, mapping):
    return Renamer(mapping).visit(fresh(node))


def swap_map(pairs):
    m = {}
    for a, b in pairs:
        m[a] = b
        m[b] = a
    return m


def if_chain(stmt):
    """Flatten an if/elif/else chain into [(test or None, body)]."""
    out = []
    while True:
        out.append((stmt.test, stmt.body))
        if len(stmt.orelse) == 1 and isinstance(stmt.orelse[0], ast.If):
            stmt = stmt.orelse[0]
            continue
        if stmt.orelse:
            out.append((None, stmt.orelse))
        return out


def eq_keys(test, subject_pred, model=None):
    """If test is `subj == K`, `subj == K1 or subj == K2`, `subj in (K..)` return list of constant keys else None.
    subject_pred(node) decides whether a node is the dispatch subject."""
    def one(t):
        if isinstance(t, ast.Compare) and len(t.ops) == 1:
            l, r = t.left, t.comparators[0]
            if isinstance(t.ops[0], ast.Eq):
                if subject_pred(l):
                    k = _k(r, model)
                    return None if k is _NOKEY else [k]
                if subject_pred(r):
                    k = _k(l, model)
                    return None if k is _NOKEY else [k]
            if isinstance(t.ops[0], ast.In) and subject_pred(l) and isinstance(r, (ast.Tuple, ast.List, ast.Set)):
                ks = [_k(e, model) for e in r.elts]
                if any(k is _NOKEY for k in ks):
                    return None
                return ks
        return None

    if isinstance(test, ast.BoolOp) and isinstance(test.op, ast.Or):
        keys = []
        for v in test.values:
            k = one(v)
            if k is None:
                return None
            keys.extend(k)
        return keys
    return one(test)


_NOKEY = object()


def _k(node, model):
    if isinstance(node, ast.Constant):
        return node.value
    if model is not None:
        try:
            return model.const(node)
        except NotConst:
            return _NOKEY
    return _NOKEY


def frac(value):
    """Exact Fraction of a numeric literal through its decimal spelling."""
    if isinstance(value, bool):
        raise ValueError
    if isinstance(value, int):
        return Fraction(value)
    return Fraction(repr(value))
