"""Arming report (thorough tier): show, on scratch copies outside /repo and /verif, how many rule instances fire.

Two sources of variants:
  * the curated corpus selftest/<prop>.json (fire / silent / undecided variants, each a textual edit);
  * automatically generated single-token mutants inside the functions the check analysed (operator swaps, axis swaps,
    off-by-one constants, pre/post swaps).  These are arbitrary edits: a survivor is either an equivalent mutant, an edit that
    does not touch a decided clause, or a gap - it is listed in the evidence so the gap can be triaged.
The report never changes the exit status of the property check (which is decided on the unchanged tree only).
"""
import concurrent.futures as cf
import json
import os
import random
import re
import shutil
import subprocess
import sys
import tempfile

VERIF = os.path.dirname(os.path.dirname(os.path.abspath(__file__)))

SWAPS = [
    (r" \+ ", " - "), (r" - ", " + "), (r" \* ", " / "), (r" / ", " * "),
    (r" < ", " > "), (r" > ", " < "), (r" <= ", " >= "), (r" >= ", " <= "), (r" == ", " != "), (r" != ", " == "),
    (r"\.x\b", ".y"), (r"\.y\b", ".x"), (r"\bwidth\b", "height"), (r"\bheight\b", "width"),
    (r"\.start\b", ".end"), (r"\.end\b", ".start"), (r"\brx\b", "ry"), (r"\bry\b", "rx"),
    (r"\bpre_", "post_"), (r"\bpost_", "pre_"), (r"\bmin\(", "max("), (r"\bmax\(", "min("),
    (r"\bcos\(", "sin("), (r"\bsin\(", "cos("), (r"\bTrue\b", "False"), (r"\bFalse\b", "True"),
    (r"\b2\.0\b", "3.0"), (r"\b1\b", "2"), (r"\b0\b", "1"), (r" and ", " or "), (r" or ", " and "),
    (r"\bis not None\b", "is None"), (r"\bcontrol1\b", "control2"), (r"\bcontrol2\b", "control1"),
    (r"\bnot ", ""), (r"\[0\]", "[1]"), (r"\[1\]", "[0]"),
]


def run_variant(prop, src_text, timeout=240):
    tmp = tempfile.mkdtemp(prefix="sva_arm_")
    try:
        os.makedirs(os.path.join(tmp, "repo/svgelements"))
        with open(os.path.join(tmp, "repo/svgelements/svgelements.py"), "w", encoding="iso-8859-1") as f:
            f.write(src_text)
        with open(os.path.join(tmp, "repo/svgelements/__init__.py"), "w") as f:
            f.write("from .svgelements import *\n")
        env = dict(os.environ, REPO=os.path.join(tmp, "repo"), SVA_OUT=os.path.join(tmp, "out"), VERIF_TIER="quick")
        try:
            r = subprocess.run([sys.executable, "-B", "-m", "sva.main", prop, "quick"], cwd=VERIF, env=env, capture_output=True, text=True, timeout=timeout)
        except subprocess.TimeoutExpired:
            return 3, ""
        return r.returncode, r.stdout
    finally:
        shutil.rmtree(tmp, ignore_errors=True)


def corpus(prop, source):
    path = os.path.join(VERIF, "selftest", "%s.json" % prop.lower())
    if not os.path.exists(path):
        return []
    out = []
    for m in json.load(open(path)):
        src = source
        stale = False
        for e in m["edits"]:
            cnt = src.count(e["old"])
            want = e.get("count", 1)
            if cnt < 1 or (want != "all" and cnt != want):
                stale = True
                break
            src = src.replace(e["old"], e["new"])
        out.append((m, None if stale else src))
    return out


def auto_mutants(model, quals, limit, seed):
    lines = model.source_lines
    spans = []
    for q in sorted(quals):
        try:
            fn = model.func(q)
        except Exception:
            continue
        spans.append((q, fn.lineno, getattr(fn, "end_lineno", fn.lineno)))
    cands = []
    import ast as _ast
    doc_lines = set()
    for n in _ast.walk(model.tree):
        if isinstance(n, (_ast.FunctionDef, _ast.ClassDef, _ast.Module)) and n.body and isinstance(n.body[0], _ast.Expr) and isinstance(n.body[0].value, _ast.Constant) \
                and isinstance(n.body[0].value.value, str):
            d = n.body[0]
            doc_lines.update(range(d.lineno - 1, (d.end_lineno or d.lineno)))
    for q, lo, hi in spans:
        for ln in range(lo, hi):  # 0-based index ln = line lo+1 .. hi
            if ln in doc_lines:
                continue
            text = lines[ln]
            if text.strip().startswith("#") or text.strip().startswith('"""') or not text.strip():
                continue
            for pat, rep in SWAPS:
                for mt in re.finditer(pat, text):
                    new = text[:mt.start()] + rep + text[mt.end():]
                    if new != text:
                        cands.append((q, ln, pat, text, new))
    rnd = random.Random(seed)
    rnd.shuffle(cands)
    out = []
    seen = set()
    for q, ln, pat, old, new in cands:
        if (ln, new) in seen:
            continue
        seen.add((ln, new))
        src_lines = list(lines)
        src_lines[ln] = new
        src = "\n".join(src_lines) + "\n"
        try:
            compile(src, "mutant", "exec")
        except SyntaxError:
            continue
        out.append({"function": q, "line": ln + 1, "old": old.strip(), "new": new.strip(), "src": src})
        if len(out) >= limit:
            break
    return out


def report(ctx, limit=None):
    prop = ctx.prop
    source = "\n".join(ctx.m.source_lines) + "\n"
    seed = int(os.environ.get("VERIF_SEED", "0") or 0)
    limit = limit or int(os.environ.get("SVA_ARM_LIMIT", "120"))
    jobs = []
    cor = corpus(prop, source)
    for m, src in cor:
        if src is not None:
            jobs.append(("corpus", m, src))
    auto = auto_mutants(ctx.m, ctx.functions, limit, seed)
    for a in auto:
        jobs.append(("auto", a, a["src"]))
    results = []
    with cf.ThreadPoolExecutor(max_workers=int(os.environ.get("SVA_JOBS", "16"))) as ex:
        futs = {ex.submit(run_variant, prop, src): (kind, meta) for kind, meta, src in jobs}
        for fut in cf.as_completed(futs):
            kind, meta = futs[fut]
            rc, out = fut.result()
            results.append((kind, meta, rc, out))
    rep = {"corpus": {"variants": len(cor), "stale": sum(1 for _, s in cor if s is None), "as_expected": 0, "unexpected": []},
           "auto": {"generated": len(auto), "killed": 0, "undecided": 0, "survived": 0, "timeout": 0, "survivors": [], "killed_by_rule": {}}}
    for kind, meta, rc, out in results:
        if kind == "corpus":
            want = meta["kind"]
            ok = (want == "fire" and rc == 1 and (not meta.get("expect") or any(meta["expect"] in l for l in out.splitlines() if l.startswith("FINDING")))) \
                or (want == "silent" and rc == 0) or (want == "undecided" and rc in (1, 2))
            if ok:
                rep["corpus"]["as_expected"] += 1
            else:
                rep["corpus"]["unexpected"].append({"id": meta["id"], "kind": want, "exit": rc})
        else:
            a = rep["auto"]
            if rc == 1:
                a["killed"] += 1
                for l in out.splitlines():
                    if l.startswith("FINDING rule="):
                        r = l.split()[1].split("=")[1]
                        a["killed_by_rule"][r] = a["killed_by_rule"].get(r, 0) + 1
                        break
            elif rc == 2:
                a["undecided"] += 1
            elif rc == 3:
                a["timeout"] += 1
            else:
                a["survived"] += 1
                if len(a["survivors"]) < 40:
                    a["survivors"].append({"function": meta["function"], "line": meta["line"], "old": meta["old"][:100], "new": meta["new"][:100]})
    return rep
