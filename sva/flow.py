"""Small def-use helpers shared by rules that must survive renamings and re-spellings.

Nothing here is path sensitive: `Taint` is the flow-insensitive closure of "may derive from" over the assignments of one
region; it is used for facts of the form "the argument of this call is computed from the result of that call".
"""
import ast

from .model import NotConst


def names(node):
    return {n.id for n in ast.walk(node) if isinstance(n, ast.Name)}


def root_name(node):
    """a.b[c].d -> 'a'"""
    while isinstance(node, (ast.Attribute, ast.Subscript, ast.Starred)):
        node = node.value
    return node.id if isinstance(node, ast.Name) else None


def bindings(region):
    """(target, value, node) pairs of every binding construct inside region (a node or a list of nodes)."""
    nodes = region if isinstance(region, list) else [region]
    for top in nodes:
        for n in ast.walk(top):
            if isinstance(n, ast.Assign):
                for t in n.targets:
                    yield t, n.value, n
            elif isinstance(n, ast.AugAssign):
                yield n.target, n.value, n
            elif isinstance(n, ast.AnnAssign) and n.value is not None:
                yield n.target, n.value, n
            elif isinstance(n, (ast.For, ast.AsyncFor)):
                yield n.target, n.iter, n
            elif isinstance(n, ast.comprehension):
                yield n.target, n.iter, n
            elif isinstance(n, ast.NamedExpr):
                yield n.target, n.value, n
            elif isinstance(n, ast.withitem) and n.optional_vars is not None:
                yield n.optional_vars, n.context_expr, n


class Taint:
    """Names (and containers, by root name) that may hold a value derived from a source expression."""

    def __init__(self, region, is_source, seeds=(), through_containers=True):
        self.is_source = is_source
        self.names = set(seeds)
        binds = list(bindings(region))
        changed = True
        while changed:
            changed = False
            for t, v, _ in binds:
                if not self.derived(v):
                    continue
                targets = []
                for x in ast.walk(t):
                    if isinstance(x, ast.Name) and isinstance(x.ctx, ast.Store):
                        targets.append(x.id)
                if through_containers and isinstance(t, (ast.Subscript, ast.Attribute)):
                    r = root_name(t)
                    if r:
                        targets.append(r)
                for name in targets:
                    if name not in self.names:
                        self.names.add(name)
                        changed = True

    def derived(self, expr):
        for n in ast.walk(expr):
            if self.is_source(n):
                return True
            if isinstance(n, ast.Name) and n.id in self.names:
                return True
        return False


def const_value(model, node, default=None):
    try:
        return model.const(node)
    except NotConst:
        return default
    except Exception:
        return default


def is_const(model, node, value):
    marker = object()
    return const_value(model, node, marker) == value


def method_calls(region, attr):
    nodes = region if isinstance(region, list) else [region]
    out = []
    for top in nodes:
        for n in ast.walk(top):
            if isinstance(n, ast.Call) and isinstance(n.func, ast.Attribute) and n.func.attr == attr:
                out.append(n)
    return out


def regex_calls(model, region, role):
    """Calls that apply a module-level compiled regex whose pattern satisfies role(pattern): re.f(NAME, ...) or NAME.f(...)."""
    nodes = region if isinstance(region, list) else [region]
    out = []
    for top in nodes:
        for n in ast.walk(top):
            if not isinstance(n, ast.Call) or not isinstance(n.func, ast.Attribute):
                continue
            cands = []
            if isinstance(n.func.value, ast.Name) and n.func.value.id == "re" and n.args:
                cands.append((n.args[0], n.args[1:]))
            cands.append((n.func.value, n.args))
            for rx_node, rest in cands:
                if isinstance(rx_node, ast.Name) and rx_node.id in model.regexes and role(model.regexes[rx_node.id]):
                    out.append((n, n.func.attr, rest))
                    break
    return out


def same_expr(a, b):
    return ast.dump(a) == ast.dump(b)


def subscript_of(node, base_pred, key_pred=None):
    return isinstance(node, ast.Subscript) and base_pred(node.value) and (key_pred is None or key_pred(node.slice))


def _is_copier(node, copiers):
    """node is a callable reference naming a copier: copy / Point / copy.copy"""
    if isinstance(node, ast.Name):
        return node.id in copiers
    if isinstance(node, ast.Attribute):
        return node.attr in copiers
    return False


def _copy_of(expr, var, copiers):
    """expr is copier(var) / var.__copy__() / copy.copy(var)"""
    if isinstance(expr, ast.Call) and len(expr.args) == 1 and not expr.keywords and _is_copier(expr.func, copiers) and isinstance(expr.args[0], ast.Name) and expr.args[0].id == var:
        return True
    if isinstance(expr, ast.Call) and not expr.args and isinstance(expr.func, ast.Attribute) and expr.func.attr == "__copy__" and isinstance(expr.func.value, ast.Name) and expr.func.value.id == var:
        return True
    return False


def strip_list(expr):
    """list(X) / tuple(X) / X[:] / iter(X) -> X"""
    while True:
        if isinstance(expr, ast.Call) and isinstance(expr.func, ast.Name) and expr.func.id in ("list", "tuple", "iter") and len(expr.args) == 1 and not expr.keywords:
            expr = expr.args[0]
            continue
        if isinstance(expr, ast.Subscript) and isinstance(expr.slice, ast.Slice) and expr.slice.lower is None and expr.slice.upper is None and expr.slice.step is None:
            expr = expr.value
            continue
        return expr


def elementwise_copy(expr, copiers=("copy",)):
    """If expr builds a collection holding a copy of every element of some source, return the source expression, else None.
    Recognised: map(copy, S), [copy(e) for e in S], (copy(e) for e in S), e.__copy__() forms, any of them under list()/tuple()."""
    expr = strip_list(expr)
    if isinstance(expr, ast.Call) and isinstance(expr.func, ast.Name) and expr.func.id == "map" and len(expr.args) == 2 and _is_copier(expr.args[0], copiers):
        return strip_list(expr.args[1])
    if isinstance(expr, (ast.ListComp, ast.GeneratorExp)) and len(expr.generators) == 1 and not expr.generators[0].ifs and isinstance(expr.generators[0].target, ast.Name):
        if _copy_of(expr.elt, expr.generators[0].target.id, copiers):
            return strip_list(expr.generators[0].iter)
    return None


def refresh_loops(fn, copiers=("copy",)):
    """Names of lists whose every slot is replaced by a copy of itself: for i in range(len(L)): L[i] = copy(L[i]) (or enumerate form)."""
    out = set()
    for lp in ast.walk(fn):
        if not isinstance(lp, ast.For):
            continue
        it = lp.iter
        idx = elem = lst = None
        if isinstance(it, ast.Call) and isinstance(it.func, ast.Name) and it.func.id == "range" and isinstance(lp.target, ast.Name):
            a = it.args[-1] if len(it.args) in (1, 2) else None
            if len(it.args) == 2 and not (isinstance(it.args[0], ast.Constant) and it.args[0].value == 0):
                a = None
            if isinstance(a, ast.Call) and isinstance(a.func, ast.Name) and a.func.id == "len" and len(a.args) == 1 and isinstance(a.args[0], ast.Name):
                idx, lst = lp.target.id, a.args[0].id
        elif isinstance(it, ast.Call) and isinstance(it.func, ast.Name) and it.func.id == "enumerate" and len(it.args) == 1 and isinstance(it.args[0], ast.Name) \
                and isinstance(lp.target, ast.Tuple) and len(lp.target.elts) == 2 and all(isinstance(e, ast.Name) for e in lp.target.elts):
            idx, elem, lst = lp.target.elts[0].id, lp.target.elts[1].id, it.args[0].id
        if lst is None:
            continue
        for st in lp.body:
            if isinstance(st, ast.Assign) and len(st.targets) == 1 and isinstance(st.targets[0], ast.Subscript) and isinstance(st.targets[0].value, ast.Name) \
                    and st.targets[0].value.id == lst and isinstance(st.targets[0].slice, ast.Name) and st.targets[0].slice.id == idx:
                v = st.value
                if elem is not None and _copy_of(v, elem, copiers):
                    out.add(lst)
                if isinstance(v, ast.Call) and len(v.args) == 1 and _is_copier(v.func, copiers) and isinstance(v.args[0], ast.Subscript) and isinstance(v.args[0].value, ast.Name) \
                        and v.args[0].value.id == lst and isinstance(v.args[0].slice, ast.Name) and v.args[0].slice.id == idx:
                    out.add(lst)
    return out


def deleted_keys(region, model, dict_pred):
    """[(key value, node, conditional?)] for every removal of a constant key from a dictionary satisfying dict_pred(expr):
    `del D[K]`, `D.pop(K)`, `D.pop(K, default)`.  conditional is the innermost enclosing If when the removal is guarded by
    anything other than the key's own membership test (`if K in D`), else None."""
    nodes = region if isinstance(region, list) else [region]
    out = []
    for top in nodes:
        for n in ast.walk(top):
            key = node = None
            if isinstance(n, ast.Delete):
                for t in n.targets:
                    if isinstance(t, ast.Subscript) and dict_pred(t.value):
                        out.append((const_value(model, t.slice, None), n, t.value, t.slice))
            elif isinstance(n, ast.Call) and isinstance(n.func, ast.Attribute) and n.func.attr == "pop" and n.args and dict_pred(n.func.value):
                out.append((const_value(model, n.args[0], None), n, n.func.value, n.args[0]))
    return out


def own_membership_guard(node, stop, model):
    """Ifs between node and stop whose test is NOT merely `<the same key> in <the same dict>` -> list of those Ifs"""
    out = []
    p = getattr(node, "_parent", None)
    child = node
    while p is not None and p is not stop:
        if isinstance(p, ast.If) and (child in p.body or child in p.orelse):
            out.append(p)
        child = p
        p = getattr(p, "_parent", None)
    return out


def pure_chain(node):
    """a.b[c].d with constant or plain-name subscripts"""
    if isinstance(node, ast.Name):
        return True
    if isinstance(node, ast.Attribute):
        return pure_chain(node.value)
    if isinstance(node, ast.Subscript) and not isinstance(node.slice, ast.Slice):
        s = node.slice
        simple = isinstance(s, (ast.Constant, ast.Name)) or (isinstance(s, ast.UnaryOp) and isinstance(s.operand, ast.Constant)) \
            or (isinstance(s, ast.BinOp) and isinstance(s.op, (ast.Add, ast.Sub)) and isinstance(s.left, ast.Name) and isinstance(s.right, ast.Constant))
        return simple and pure_chain(node.value)
    return False


class Aliases:
    """Locals that merely name an attribute chain (path = self._path, first = self._segments[0]): canon() spells expressions
    with the chains written out, so that rules compare what is addressed, not how the local is called."""

    def __init__(self, fn):
        counts = {}
        vals = {}
        for tg, v, n in bindings(fn):
            if isinstance(tg, ast.Name):
                counts[tg.id] = counts.get(tg.id, 0) + 1
                vals[tg.id] = v
        params = {a.arg for a in fn.args.args} if hasattr(fn, "args") else set()
        self.map = {k: v for k, v in vals.items() if counts[k] == 1 and k not in params and pure_chain(v) and not isinstance(v, ast.Name)}

    def expand(self, node, depth=0):
        amap = self.map
        outer = self

        class T(ast.NodeTransformer):
            def visit_Name(self, n):
                if isinstance(n.ctx, ast.Load) and n.id in amap and depth < 4:
                    return outer.expand(amap[n.id], depth + 1)
                return n

        from .model import fresh
        return T().visit(fresh(node))

    def canon(self, node):
        return ast.unparse(self.expand(node)).replace(" ", "")


def split_tuple_assign(stmt):
    """a, b = x, y  ->  [(a, x), (b, y)] (targets and values pairwise); other assignments -> [(target, value)]"""
    if isinstance(stmt, ast.Assign) and len(stmt.targets) == 1 and isinstance(stmt.targets[0], (ast.Tuple, ast.List)) and isinstance(stmt.value, (ast.Tuple, ast.List)) \
            and len(stmt.targets[0].elts) == len(stmt.value.elts) and not any(isinstance(e, ast.Starred) for e in stmt.targets[0].elts + stmt.value.elts):
        return list(zip(stmt.targets[0].elts, stmt.value.elts))
    if isinstance(stmt, ast.Assign) and len(stmt.targets) == 1:
        return [(stmt.targets[0], stmt.value)]
    return []


def untuple(stmts):
    """`a, b = x, y` -> `a = x; b = y` when no target occurs in a later value (plain parallel assignment, not a swap)"""
    out = []
    for s in stmts:
        if isinstance(s, ast.Assign) and len(s.targets) == 1 and isinstance(s.targets[0], (ast.Tuple, ast.List)) and isinstance(s.value, (ast.Tuple, ast.List)) \
                and len(s.targets[0].elts) == len(s.value.elts) and all(isinstance(t, ast.Name) for t in s.targets[0].elts):
            tn = [t.id for t in s.targets[0].elts]
            used = {n.id for v in s.value.elts for n in ast.walk(v) if isinstance(n, ast.Name)}
            if not (set(tn) & used):
                for t, v in zip(s.targets[0].elts, s.value.elts):
                    out.append(ast.copy_location(ast.Assign(targets=[t], value=v, lineno=s.lineno), s))
                continue
        out.append(s)
    return out


# --------------------------------------------------------------------------- guard dominance
def _terminates(body):
    return bool(body) and isinstance(body[-1], (ast.Return, ast.Raise, ast.Continue, ast.Break))


def guard_implies(test, positive, atom_test):
    """Does `test` evaluating to `positive` establish the fact that atom_test(sub_test, polarity) recognises?
    and: any conjunct suffices when true; or: any disjunct suffices when false; not: flips."""
    if isinstance(test, ast.BoolOp):
        if isinstance(test.op, ast.And) and positive:
            return any(guard_implies(v, True, atom_test) for v in test.values)
        if isinstance(test.op, ast.Or) and not positive:
            return any(guard_implies(v, False, atom_test) for v in test.values)
        return False
    if isinstance(test, ast.UnaryOp) and isinstance(test.op, ast.Not):
        return guard_implies(test.operand, not positive, atom_test)
    return bool(atom_test(test, positive))


def dominated(use, fn, atom_test, handler_ok=None):
    """Is the expression node `use` (inside function `fn`, parent links present) reached only when the fact holds?
    Recognised: the body of `if <fact>`, the else of `if <not fact>`, later operands of `<fact> and ...`, a conditional
    expression arm, statements after `if <not fact>: return/raise/continue/break` in the same or an enclosing block;
    optionally a try whose handlers satisfy handler_ok(set of type names)."""
    from .excflow import handler_types

    node = use
    while node is not fn and node is not None:
        p = getattr(node, "_parent", None)
        if p is None:
            return False
        if isinstance(p, (ast.If, ast.IfExp, ast.While)):
            body = p.body if isinstance(p.body, list) else [p.body]
            orelse = p.orelse if isinstance(p.orelse, list) else [p.orelse]
            if any(node is b for b in body) and guard_implies(p.test, True, atom_test):
                return True
            if not isinstance(p, ast.While) and any(node is b for b in orelse) and guard_implies(p.test, False, atom_test):
                return True
        if isinstance(p, ast.BoolOp):
            i = [k for k, v in enumerate(p.values) if v is node]
            if i and isinstance(p.op, ast.And) and any(guard_implies(v, True, atom_test) for v in p.values[:i[0]]):
                return True
            if i and isinstance(p.op, ast.Or) and any(guard_implies(v, False, atom_test) for v in p.values[:i[0]]):
                return True
        if handler_ok is not None and isinstance(p, ast.Try) and any(node is b for b in p.body):
            types = set()
            for h in p.handlers:
                types |= handler_types(h)
            if handler_ok(types):
                return True
        for field in ("body", "orelse", "finalbody"):
            blk = getattr(p, field, None)
            if isinstance(blk, list) and any(node is b for b in blk):
                k = [i for i, b in enumerate(blk) if b is node][0]
                for prev in blk[:k]:
                    if isinstance(prev, ast.If) and _terminates(prev.body) and guard_implies(prev.test, False, atom_test):
                        return True
                    if isinstance(prev, ast.If) and prev.orelse and _terminates(prev.orelse) and guard_implies(prev.test, True, atom_test):
                        return True
        node = p
    return False


# --------------------------------------------------------------------------- range clamps
def unclamp(node):
    """min(max(X, lo), hi) / max(min(X, hi), lo) with constant bounds -> X.  Returns (copy of node with every such clamp
    replaced by its operand, [(lo, hi), ...]).  Inside the range the clamp is the identity; the caller checks that the range is
    the legal range of the quantity."""
    from .model import fresh

    found = []

    def num(n):
        if isinstance(n, ast.Constant) and isinstance(n.value, (int, float)) and not isinstance(n.value, bool):
            return n.value
        if isinstance(n, ast.UnaryOp) and isinstance(n.op, ast.USub) and isinstance(n.operand, ast.Constant) and isinstance(n.operand.value, (int, float)):
            return -n.operand.value
        return None

    def one(call, fname):
        """fname(X, c) or fname(c, X) -> (X, c)"""
        if isinstance(call, ast.Call) and isinstance(call.func, ast.Name) and call.func.id == fname and len(call.args) == 2 and not call.keywords:
            a, b = call.args
            if num(b) is not None and num(a) is None:
                return a, num(b)
            if num(a) is not None and num(b) is None:
                return b, num(a)
        return None

    class T(ast.NodeTransformer):
        def visit_Call(self, n):
            self.generic_visit(n)
            outer = one(n, "min")
            if outer:
                inner = one(outer[0], "max")
                if inner and inner[1] <= outer[1]:
                    found.append((inner[1], outer[1]))
                    return inner[0]
            outer = one(n, "max")
            if outer:
                inner = one(outer[0], "min")
                if inner and outer[1] <= inner[1]:
                    found.append((outer[1], inner[1]))
                    return inner[0]
            return n

    new = T().visit(fresh(node))
    return new, found


# --------------------------------------------------------------------------- value ranges of a clamped local
def value_range(fn, name, before=None):
    """(lo, hi) that the local `name` is confined to when control reaches the statement containing `before` (or the end of
    the function): the last plain assignment fixes the range of its expression - min()/max() against constants, division or
    multiplication by a positive constant - and later top-level `if name > c: name = c` / `if name < c: name = c` pairs narrow
    it.  Unknown = (-inf, inf).  Only straight-line top-level statements are followed; an assignment anywhere else resets."""
    inf = float("inf")

    def num(n):
        if isinstance(n, ast.Constant) and isinstance(n.value, (int, float)) and not isinstance(n.value, bool):
            return float(n.value)
        if isinstance(n, ast.UnaryOp) and isinstance(n.op, ast.USub) and isinstance(n.operand, ast.Constant) and isinstance(n.operand.value, (int, float)):
            return -float(n.operand.value)
        return None

    def rng(e, env):
        c = num(e)
        if c is not None:
            return (c, c)
        if isinstance(e, ast.Name) and e.id in env:
            return env[e.id]
        if isinstance(e, ast.Call) and isinstance(e.func, ast.Name) and e.func.id in ("min", "max") and len(e.args) >= 2 and not e.keywords:
            rs = [rng(a, env) for a in e.args]
            if e.func.id == "min":
                return (min(r[0] for r in rs), min(r[1] for r in rs))
            return (max(r[0] for r in rs), max(r[1] for r in rs))
        if isinstance(e, ast.BinOp) and isinstance(e.op, (ast.Div, ast.Mult)):
            k = num(e.right)
            if k is not None and k > 0:
                lo, hi = rng(e.left, env)
                return (lo / k, hi / k) if isinstance(e.op, ast.Div) else (lo * k, hi * k)
            k = num(e.left)
            if k is not None and k > 0 and isinstance(e.op, ast.Mult):
                lo, hi = rng(e.right, env)
                return (lo * k, hi * k)
        if isinstance(e, ast.Call) and isinstance(e.func, ast.Name) and e.func.id == "float" and len(e.args) == 1:
            return rng(e.args[0], env) if isinstance(e.args[0], ast.Name) and e.args[0].id in env else (-inf, inf)
        if isinstance(e, ast.IfExp):
            a, b = rng(e.body, env), rng(e.orelse, env)
            return (min(a[0], b[0]), max(a[1], b[1]))
        return (-inf, inf)

    env = {}
    stop_line = getattr(before, "lineno", None)

    def clamp_if(s):
        """if v > c: v = c'  ->  ('hi', c, c') ; chained elif handled by the caller"""
        t = s.test
        if not (isinstance(t, ast.Compare) and len(t.ops) == 1 and len(s.body) == 1 and isinstance(s.body[0], ast.Assign) and len(s.body[0].targets) == 1):
            return None
        tgt = s.body[0].targets[0]
        l, r = t.left, t.comparators[0]
        op = t.ops[0]
        if isinstance(r, ast.Name) and num(l) is not None:
            l, r = r, l
            op = {ast.Lt: ast.Gt, ast.LtE: ast.GtE, ast.Gt: ast.Lt, ast.GtE: ast.LtE}.get(type(op), type(None))()
        if not (isinstance(l, ast.Name) and isinstance(tgt, ast.Name) and tgt.id == l.id and num(r) is not None and num(s.body[0].value) is not None):
            return None
        if num(s.body[0].value) != num(r):
            return None
        if isinstance(op, (ast.Gt, ast.GtE)):
            return (l.id, "hi", num(r))
        if isinstance(op, (ast.Lt, ast.LtE)):
            return (l.id, "lo", num(r))
        return None

    def visit(stmts):
        for s in stmts:
            if stop_line is not None and s.lineno >= stop_line and not (s.lineno <= stop_line <= getattr(s, "end_lineno", s.lineno) and isinstance(s, (ast.If, ast.For, ast.While, ast.Try, ast.With))):
                return False
            if isinstance(s, ast.Assign) and len(s.targets) == 1 and isinstance(s.targets[0], ast.Name):
                env[s.targets[0].id] = rng(s.value, env)
                continue
            if isinstance(s, ast.If):
                cur = s
                handled = True
                found = []
                while True:
                    c = clamp_if(cur)
                    if c is None:
                        handled = False
                        break
                    found.append(c)
                    if len(cur.orelse) == 1 and isinstance(cur.orelse[0], ast.If):
                        cur = cur.orelse[0]
                        continue
                    if cur.orelse:
                        handled = False
                    break
                if handled:
                    for v, side, c in found:
                        lo, hi = env.get(v, (-inf, inf))
                        env[v] = (max(lo, c), hi) if side == "lo" else (lo, min(hi, c))
                    continue
            # anything else: names stored inside lose their range
            for n in ast.walk(s):
                if isinstance(n, ast.Name) and isinstance(n.ctx, ast.Store):
                    env.pop(n.id, None)
            if stop_line is not None and s.lineno <= stop_line <= getattr(s, "end_lineno", s.lineno):
                return False
        return True

    visit(fn.body)
    return env.get(name, (-inf, inf))


# --------------------------------------------------------------------------- end points of stored segments
def stored_endpoint(arg, fn):
    """Is `arg` (inside fn) the start/end of an element of a `_segments` list - written in full
    (self._segments[-1].end), through a local holding the element (seg = self._segments[-1]; seg.end; also a loop variable
    over the list) or through a local holding the end point itself (end = self._segments[-1].end)?  Locals must have
    exactly one binding in fn."""
    def binding(name):
        found = []
        for n in ast.walk(fn):
            if isinstance(n, ast.Assign) and len(n.targets) == 1 and isinstance(n.targets[0], ast.Name) and n.targets[0].id == name:
                found.append(n.value)
            elif isinstance(n, (ast.For, ast.comprehension)) and any(isinstance(t, ast.Name) and t.id == name for t in ast.walk(n.target)):
                found.append(("iter", n.iter) if isinstance(n.target, ast.Name) else None)
            elif isinstance(n, (ast.AugAssign, ast.NamedExpr)) and any(isinstance(t, ast.Name) and t.id == name and isinstance(t.ctx, ast.Store) for t in ast.walk(n)):
                found.append(None)
        params = [a.arg for a in fn.args.args + fn.args.kwonlyargs]
        return found[0] if len(found) == 1 and found[0] is not None and name not in params else None

    def element(e, depth=0):
        if isinstance(e, ast.Subscript) and "_segments" in ast.unparse(e.value):
            return True
        if isinstance(e, ast.Name) and depth < 3:
            b = binding(e.id)
            if isinstance(b, tuple):
                it = b[1]
                while isinstance(it, ast.Call) and isinstance(it.func, ast.Name) and it.func.id in ("reversed", "list", "iter") and it.args:
                    it = it.args[0]
                return "_segments" in ast.unparse(it) or (isinstance(it, ast.Name) and it.id == "self")
            return b is not None and element(b, depth + 1)
        return False

    def endpoint(e, depth=0):
        if isinstance(e, ast.Attribute) and e.attr in ("start", "end"):
            return element(e.value)
        if isinstance(e, ast.Name) and depth < 3:
            b = binding(e.id)
            return b is not None and not isinstance(b, tuple) and endpoint(b, depth + 1)
        return False

    return endpoint(arg)
