"""Small def-use helpers shared by rules that must survive renamings and re-spellings.

Nothing here is path sensitive: `Taint` is the flow-insensitive closure of "may derive from" over the assignments of one
region; it is used for facts of the form "the argument of this call is computed from the result of that call".
"""
import ast

from .model import NotConst


def names(node):
    return {n.id for n in ast.walk(node) if isinstance(n, ast.Name)}


def root_name(node):
    """a.b[c].d -> 'a'"""
    while isinstance(node, (ast.Attribute, ast.Subscript, ast.Starred)):
        node = node.value
    return node.id if isinstance(node, ast.Name) else None


def bindings(region):
    """(target, value, node) pairs of every binding construct inside region (a node or a list of nodes)."""
    nodes = region if isinstance(region, list) else [region]
    for top in nodes:
        for n in ast.walk(top):
            if isinstance(n, ast.Assign):
                for t in n.targets:
                    yield t, n.value, n
            elif isinstance(n, ast.AugAssign):
                yield n.target, n.value, n
            elif isinstance(n, ast.AnnAssign) and n.value is not None:
                yield n.target, n.value, n
            elif isinstance(n, (ast.For, ast.AsyncFor)):
                yield n.target, n.iter, n
            elif isinstance(n, ast.comprehension):
                yield n.target, n.iter, n
            elif isinstance(n, ast.NamedExpr):
                yield n.target, n.value, n
            elif isinstance(n, ast.withitem) and n.optional_vars is not None:
                yield n.optional_vars, n.context_expr, n


class Taint:
    """Names (and containers, by root name) that may hold a value derived from a source expression."""

    def __init__(self, region, is_source, seeds=(), through_containers=True):
        self.is_source = is_source
        self.names = set(seeds)
        binds = list(bindings(region))
        changed = True
        while changed:
            changed = False
            for t, v, _ in binds:
                if not self.derived(v):
                    continue
                targets = []
                for x in ast.walk(t):
                    if isinstance(x, ast.Name) and isinstance(x.ctx, ast.Store):
                        targets.append(x.id)
                if through_containers and isinstance(t, (ast.Subscript, ast.Attribute)):
                    r = root_name(t)
                    if r:
                        targets.append(r)
                for name in targets:
                    if name not in self.names:
                        self.names.add(name)
                        changed = True

    def derived(self, expr):
        for n in ast.walk(expr):
            if self.is_source(n):
                return True
            if isinstance(n, ast.Name) and n.id in self.names:
                return True
        return False


def const_value(model, node, default=None):
    try:
        return model.const(node)
    except NotConst:
        return default
    except Exception:
        return default


def is_const(model, node, value):
    marker = object()
    return const_value(model, node, marker) == value


def method_calls(region, attr):
    nodes = region if isinstance(region, list) else [region]
    out = []
    for top in nodes:
        for n in ast.walk(top):
            if isinstance(n, ast.Call) and isinstance(n.func, ast.Attribute) and n.func.attr == attr:
                out.append(n)
    return out


def regex_calls(model, region, role):
    """Calls that apply a module-level compiled regex whose pattern satisfies role(pattern): re.f(NAME, ...) or NAME.f(...)."""
    nodes = region if isinstance(region, list) else [region]
    out = []
    for top in nodes:
        for n in ast.walk(top):
            if not isinstance(n, ast.Call) or not isinstance(n.func, ast.Attribute):
                continue
            cands = []
            if isinstance(n.func.value, ast.Name) and n.func.value.id == "re" and n.args:
                cands.append((n.args[0], n.args[1:]))
            cands.append((n.func.value, n.args))
            for rx_node, rest in cands:
                if isinstance(rx_node, ast.Name) and rx_node.id in model.regexes and role(model.regexes[rx_node.id]):
                    out.append((n, n.func.attr, rest))
                    break
    return out


def same_expr(a, b):
    return ast.dump(a) == ast.dump(b)


def subscript_of(node, base_pred, key_pred=None):
    return isinstance(node, ast.Subscript) and base_pred(node.value) and (key_pred is None or key_pred(node.slice))
