"""Summaries of the path-data lexer (SVGLexicalParser.parse): one per command-letter branch.

Shared by C01 (grammar conformance), C09 (totality) and C17 (continuation).
"""
import ast

from . import rx
from .model import AnalysisError, attr_chain, call_name, eq_keys, if_chain

READERS = {"_coord": "coord", "_rcoord": "rcoord", "_number": "number", "_flag": "flag"}


class Branch:
    def __init__(self, letter, body, line):
        self.letter = letter
        self.body = body
        self.line = line
        self.events = []  # ordered
        self.loops = []  # kinds of loops met: 'while-true' / 'while-more'
        self.unknown = []

    # convenience views
    def reads(self):
        return [(e[1], e[2]) for e in self.events if e[0] == "read"]

    def builds(self):
        return [e for e in self.events if e[0] == "build"]


def reader_of(call):
    """self._coord() -> 'coord'"""
    if isinstance(call, ast.Call) and isinstance(call.func, ast.Attribute) and isinstance(call.func.value, ast.Name) \
            and call.func.value.id == "self" and call.func.attr in READERS and not call.args:
        return READERS[call.func.attr]
    return None


def is_more(node):
    return isinstance(node, ast.Call) and isinstance(node.func, ast.Attribute) and node.func.attr == "_more" \
        and isinstance(node.func.value, ast.Name) and node.func.value.id == "self"


def is_raise_value_error(stmt):
    if not isinstance(stmt, ast.Raise) or stmt.exc is None:
        return False
    e = stmt.exc.func if isinstance(stmt.exc, ast.Call) else stmt.exc
    return isinstance(e, ast.Name) and e.id == "ValueError"


def none_test(test):
    """`X is None` -> 'X'"""
    if isinstance(test, ast.Compare) and len(test.ops) == 1 and isinstance(test.ops[0], ast.Is) and isinstance(test.comparators[0], ast.Constant) \
            and test.comparators[0].value is None and isinstance(test.left, ast.Name):
        return test.left.id
    return None


def _is_inline_close(node):
    return attr_chain(node) == ["self", "inline_close"]


def _none_polarity(test):
    """`X is None` -> (X, True); `X is not None` / `not X is None` -> (X, False)"""
    neg = False
    if isinstance(test, ast.UnaryOp) and isinstance(test.op, ast.Not):
        neg, test = True, test.operand
    if isinstance(test, ast.Compare) and len(test.ops) == 1 and isinstance(test.ops[0], (ast.Is, ast.IsNot)) and isinstance(test.comparators[0], ast.Constant) \
            and test.comparators[0].value is None and isinstance(test.left, ast.Name):
        is_none = isinstance(test.ops[0], ast.Is) != neg
        return test.left.id, is_none
    return None


def _fallback(stmts, subject):
    """Interpret the statements executed when `subject` is None.
    -> ('raise', exc_ok) when they always raise; ('close', guarded names) when they substitute the inline close and raise if that is
    missing too; None when the idiom is not known."""
    state = {}  # name -> 'close' (may be None) | 'close!' (proved not None)
    for s in stmts:
        if isinstance(s, ast.Raise):
            if not state:
                return ("raise", is_raise_value_error(s), ast.unparse(s))
            return None
        if isinstance(s, ast.Assign) and len(s.targets) == 1 and isinstance(s.targets[0], ast.Name):
            if _is_inline_close(s.value):
                state[s.targets[0].id] = "close"
                continue
            if isinstance(s.value, ast.Name) and s.value.id in state:
                state[s.targets[0].id] = state[s.value.id]
                continue
            return None
        if isinstance(s, ast.If) and not s.orelse and len(s.body) == 1 and isinstance(s.body[0], ast.Raise):
            t = s.test
            disj = t.values if isinstance(t, ast.BoolOp) and isinstance(t.op, ast.Or) else [t]
            hit = [none_test(d) for d in disj]
            hit = [h for h in hit if h in state]
            if not hit:
                return None
            if not is_raise_value_error(s.body[0]):
                return ("raise", False, ast.unparse(s.body[0]))
            # other disjuncts (`or sweep is None`) are only evaluated when the subject was missing: they prove nothing in general
            for h in hit:
                for k in list(state):
                    if state[k] in ("close",) and (k == h):
                        state[k] = "close!"
            # aliases assigned before the guard share the object
            continue
        if isinstance(s, ast.Pass):
            continue
        return None
    if not state:
        return None
    # later copies of a guarded name are guarded
    return ("close", {k for k, v in state.items() if v == "close!"}, {k for k, v in state.items() if v == "close"})


def _fold_ifexp(node):
    """`A if <constant> else B` -> the selected operand (after inlining a helper called with a literal flag)"""
    while isinstance(node, ast.IfExp) and isinstance(node.test, ast.Constant):
        node = node.body if node.test.value else node.orelse
    return node


def summarise(branch, stmts, in_loop=None, env=None):
    """Events of one command branch.  Values are tracked through copies: a read creates a value id, `y = x` shares it, so the
    events name values, not variables."""
    ev = branch.events
    if env is None:
        env = {}
        branch.env = env
    counter = getattr(branch, "_n", 0)

    def fresh(name):
        nonlocal counter
        counter += 1
        branch._n = counter
        used = getattr(branch, "_used", set())
        vid = name if name not in used else "%s#%d" % (name, counter)
        used.add(vid)
        branch._used = used
        return vid

    for s in stmts:
        if isinstance(s, ast.While):
            if isinstance(s.test, ast.Constant) and s.test.value is True:
                kind = "while-true"
            elif is_more(s.test):
                kind = "while-more"
            else:
                branch.unknown.append((s.lineno, "loop test %s" % ast.unparse(s.test)))
                kind = "while-?"
            branch.loops.append(kind)
            ev.append(("loop", kind, s.lineno))
            branch._used = set()
            summarise(branch, s.body, kind, env)
            ev.append(("endloop", kind, s.lineno))
            continue
        if isinstance(s, ast.Assign) and len(s.targets) == 1:
            t, v = s.targets[0], _fold_ifexp(s.value)
            if isinstance(t, ast.Name) and reader_of(v):
                vid = fresh(t.id)
                env[t.id] = vid
                ev.append(("read", vid, reader_of(v), s.lineno))
                continue
            if isinstance(t, ast.Tuple) and isinstance(v, ast.Tuple) and len(t.elts) == len(v.elts) and all(reader_of(_fold_ifexp(c)) for c in v.elts) \
                    and all(isinstance(n, ast.Name) for n in t.elts):
                for n, c in zip(t.elts, v.elts):
                    vid = fresh(n.id)
                    env[n.id] = vid
                    ev.append(("read", vid, reader_of(_fold_ifexp(c)), s.lineno))
                continue
            if isinstance(t, ast.Name) and isinstance(v, ast.Name) and v.id in env:
                env[t.id] = env[v.id]
                continue
            if isinstance(t, ast.Tuple) and isinstance(v, (ast.Tuple, ast.List)) and len(t.elts) == len(v.elts) and all(isinstance(n_, ast.Name) for n_ in t.elts) \
                    and all(isinstance(c_, ast.Name) and c_.id in env for c_ in v.elts):
                vals_ = [env[c_.id] for c_ in v.elts]
                for n_, val_ in zip(t.elts, vals_):
                    env[n_.id] = val_
                continue
            if ast.unparse(t) == "self.inline_close" and isinstance(v, ast.Constant) and v.value is None:
                ev.append(("reset-close", s.lineno))
                continue
            if isinstance(t, ast.Name) and isinstance(v, (ast.List, ast.Tuple)) and v.elts and all(isinstance(c, ast.Call) and isinstance(c.func, ast.Attribute) and
                                                                                                   isinstance(c.func.value, ast.Name) and c.func.value.id == "self" for c in v.elts):
                # operands collected into a list: batching when the list goes on growing by further reads, or is star-passed
                # to the builder (a list holding the operands of ONE group is just another way to spell three locals)
                grows = False
                for n_ in ast.walk(ast.Module(body=list(stmts), type_ignores=[])):
                    if isinstance(n_, ast.Call) and isinstance(n_.func, ast.Attribute) and n_.func.attr in ("append", "extend") and isinstance(n_.func.value, ast.Name) \
                            and n_.func.value.id == t.id:
                        grows = True
                    if isinstance(n_, ast.Starred) and isinstance(n_.value, ast.Name) and n_.value.id == t.id:
                        grows = True
                if grows:
                    if not hasattr(branch, "batched"):
                        branch.batched = []
                    branch.batched.append((s.lineno, ast.unparse(s)[:60]))
            branch.unknown.append((s.lineno, "assignment %s" % ast.unparse(s)[:60]))
            continue
        if isinstance(s, ast.If):
            pol = _none_polarity(s.test)
            if pol is not None and pol[0] in env:
                x, is_none = pol
                null_b, nonnull_b = (s.body, s.orelse) if is_none else (s.orelse, s.body)
                copies = {}
                ok_nn = True
                for st in nonnull_b:
                    if isinstance(st, ast.Assign) and len(st.targets) == 1 and isinstance(st.targets[0], ast.Name) and isinstance(st.value, ast.Name) \
                            and (st.value.id == x or st.value.id in copies):
                        copies[st.targets[0].id] = x
                    elif isinstance(st, ast.Pass):
                        pass
                    else:
                        ok_nn = False
                fb = _fallback(null_b, x) if null_b else None
                if ok_nn and fb is not None:
                    if fb[0] == "raise":
                        if fb[1]:
                            ev.append(("check", env[x], "raise", s.lineno))
                        else:
                            ev.append(("check-wrong-exception", env[x], fb[2], s.lineno))
                        for c in copies:
                            env[c] = env[x]
                        continue
                    guarded, unguarded = fb[1], fb[2]
                    targets = set(copies) | {x}
                    # every name that carries the value after the statement must hold the checked close on the fallback path
                    carriers = {n for n in targets if n in guarded} | ({x} if x in guarded and not copies else set())
                    if carriers and not (set(copies) - guarded):
                        # other names that hold the same object but are not re-bound on the fallback path keep the missing value
                        # there (coord = coords__0; if coord is None: coord = <close>...  leaves coords__0 as it was)
                        stale = [n_ for n_ in env if n_ != x and env[n_] == env[x] and n_ not in guarded and n_ not in copies]
                        old_vid = env[x]
                        ev.append(("check", env[x], "close-or-raise", s.lineno))
                        for c in carriers | set(copies):
                            env[c] = env[x]
                        for n_ in stale:
                            reader = next((e_[2] for e_ in ev if e_[0] == "read" and e_[1] == old_vid), None)
                            vid = fresh(n_)
                            env[n_] = vid
                            if reader is not None:
                                # not a token read: a name left holding the unchecked original (operand tables ignore it,
                                # the nullness rule treats it as a value that may be None)
                                ev.append(("stale", vid, reader, s.lineno))
                        continue
                    if unguarded and not guarded:
                        # the inline close is substituted but never checked: the value may still be None
                        for c in (set(copies) | {x}) & (unguarded | set(copies)):
                            env[c] = env[x]
                        ev.append(("close-unchecked", env[x], s.lineno))
                        continue
                if ok_nn and not null_b and not copies:
                    continue
            x = none_test(s.test)
            if x is not None and not s.orelse and len(s.body) == 1 and isinstance(s.body[0], ast.Raise):
                ev.append(("check" if is_raise_value_error(s.body[0]) else "check-wrong-exception", env.get(x, x), "raise" if is_raise_value_error(s.body[0]) else ast.unparse(s.body[0]), s.lineno))
                continue
            if isinstance(s.test, ast.UnaryOp) and isinstance(s.test.op, ast.Not) and is_more(s.test.operand) and not s.orelse and len(s.body) == 1:
                if isinstance(s.body[0], ast.Break):
                    ev.append(("exit-unless-more", s.lineno))
                    continue
                if is_raise_value_error(s.body[0]):
                    ev.append(("require-more", s.lineno))
                    continue
            if is_more(s.test) and not s.orelse and len(s.body) == 1 and is_raise_value_error(s.body[0]):
                ev.append(("forbid-more", s.lineno))
                continue
            if is_more(s.test) and len(s.body) == 1 and isinstance(s.body[0], ast.Continue) and not s.orelse:
                # `if more: continue` followed by break is the same loop exit
                branch.unknown.append((s.lineno, "if %s" % ast.unparse(s.test)[:60]))
                continue
            branch.unknown.append((s.lineno, "if %s" % ast.unparse(s.test)[:60]))
            continue
        if isinstance(s, ast.Expr) and isinstance(s.value, ast.Call):
            ch = attr_chain(s.value.func)
            if ch and ch[:2] == ["self", "parser"] and len(ch) == 3:
                args = []
                for a in s.value.args:
                    args.append(env.get(a.id, a.id) if isinstance(a, ast.Name) else "?" + ast.unparse(a))
                kw = {k.arg: ast.unparse(k.value) for k in s.value.keywords}
                ev.append(("build", ch[2], args, kw, s.lineno))
                continue
        if isinstance(s, (ast.Continue, ast.Pass)):
            continue
        if isinstance(s, ast.Break):
            ev.append(("break", s.lineno))
            continue
        branch.unknown.append((s.lineno, type(s).__name__))


def lexer_branches(ctx, rule):
    fn = ctx.fn("SVGLexicalParser.parse", rule)
    loops = [s for s in fn.body if isinstance(s, ast.While)]
    ctx.need(len(loops) == 1, rule, "lexer parse: main loop not found")
    main = loops[0]
    # cmd = self._command(); if cmd is None: return ; elif cmd == ...
    cmd_var = None
    for s in main.body:
        if isinstance(s, ast.Assign) and isinstance(s.value, ast.Call) and ast.unparse(s.value.func) == "self._command":
            cmd_var = s.targets[0].id
    ctx.need(cmd_var is not None, rule, "lexer parse: command read not found")
    chains = [s for s in main.body if isinstance(s, ast.If)]
    ctx.need(len(chains) >= 1, rule, "lexer parse: dispatch chain not found")
    branches = {}
    dup = []
    end_returns = False
    for ch in chains:
        for test, body in if_chain(ch):
            if test is None:
                continue
            if none_test(test) == cmd_var:
                end_returns = len(body) == 1 and isinstance(body[0], ast.Return)
                continue
            keys = eq_keys(test, lambda n: isinstance(n, ast.Name) and n.id == cmd_var, ctx.m)
            ctx.need(keys is not None, rule, "lexer parse: branch test not on the command: %s" % ast.unparse(test))
            for k in keys:
                if k in branches:
                    dup.append(k)
                    continue
                b = Branch(k, body, test.lineno)
                summarise(b, body)
                # the z branch computes relative from the letter case
                branches[k] = b
    return fn, cmd_var, branches, dup, end_returns


def token_patterns(ctx, rule):
    """Token classes of the three tokenizers, from the folded module constants."""
    m = ctx.m
    out = {}
    for name in ("svg_parse", "num_parse", "flag_parse"):
        v = m.consts.get(name)
        ctx.need(isinstance(v, list) and all(isinstance(p, tuple) and len(p) == 2 for p in v), rule, "%s not a folded token table" % name)
        out[name] = v
    return out


def prefix_implies(later_pat, earlier_pat):
    """A match of `later` at a position implies a match of `earlier` at that position."""
    a = rx.Lang(later_pat)
    b = rx.Lang("(?:%s)(?:.|\\n)*" % earlier_pat)
    return rx.included(a, b)


def reader_scenarios(ctx, rule):
    """_coord / _rcoord followed for every combination of missing operands (partial evaluation, nothing executed).
    -> {'coord': {(x_missing, y_missing): outcome}, 'rcoord': {(coord_missing, no_current_point): outcome}}
    outcome: ('none',) | ('raise', name) | ('pair', [RF, RF]) | ('same',) (the absolute pair unchanged) | ('?', text)"""
    from .algebra import RF, atom
    from .pe import PE, K, Obj, Raised

    out = {"coord": {}, "rcoord": {}}
    fn = ctx.fn("SVGLexicalParser._coord", rule)
    body = [x for x in fn.body if not (isinstance(x, ast.Expr) and isinstance(x.value, ast.Constant))]
    for xm in (False, True):
        for ym in (False, True):
            calls = []

            def hook(pe, call, xm=xm, ym=ym, calls=calls):
                if attr_chain(call.func) == ["self", "_number"] and not call.args:
                    calls.append(call)
                    i = len(calls)
                    missing = xm if i == 1 else ym
                    return K(None) if missing else atom("N%d" % i)
                return None

            pe = PE(ctx.m, rule, "_coord", call_hook=hook)
            try:
                res = pe.run(body)
            except Raised as e:
                out["coord"][(xm, ym)] = ("raise", e.name)
                continue
            if res is None or res.value is None or (isinstance(res.value, ast.Constant) and res.value.value is None):
                out["coord"][(xm, ym)] = ("none",)
                continue
            v = pe.ev(res.value)
            if isinstance(v, K) and v.v is None:
                out["coord"][(xm, ym)] = ("none",)
            elif isinstance(v, K) and isinstance(v.v, list) and len(v.v) == 2 and all(isinstance(c, RF) for c in v.v):
                out["coord"][(xm, ym)] = ("pair", v.v)
            else:
                out["coord"][(xm, ym)] = ("?", ast.unparse(res.value))
    fn = ctx.fn("SVGLexicalParser._rcoord", rule)
    body = [x for x in fn.body if not (isinstance(x, ast.Expr) and isinstance(x.value, ast.Constant))]
    for cm in (False, True):
        for nocur in (False, True):
            def hook(pe, call, cm=cm):
                if attr_chain(call.func) == ["self", "_coord"] and not call.args:
                    return K(None) if cm else K([atom("C0"), atom("C1")])
                return None

            pe = PE(ctx.m, rule, "_rcoord", call_hook=hook)
            pe.attrs["self.parser.current_point"] = K(None) if nocur else K(Obj("CUR"))
            try:
                res = pe.run(body)
            except Raised as e:
                out["rcoord"][(cm, nocur)] = ("raise", e.name)
                continue
            if res is None or res.value is None or (isinstance(res.value, ast.Constant) and res.value.value is None):
                out["rcoord"][(cm, nocur)] = ("none",)
                continue
            v = pe.ev(res.value)
            if isinstance(v, K) and v.v is None:
                out["rcoord"][(cm, nocur)] = ("none",)
            elif isinstance(v, K) and isinstance(v.v, list) and len(v.v) == 2 and all(isinstance(c, RF) for c in v.v):
                same = v.v[0] == atom("C0") and v.v[1] == atom("C1")
                out["rcoord"][(cm, nocur)] = ("same",) if same else ("pair", v.v)
            else:
                out["rcoord"][(cm, nocur)] = ("?", ast.unparse(res.value))
    return out
