"""Summaries of the path-data lexer (SVGLexicalParser.parse): one per command-letter branch.

Shared by C01 (grammar conformance), C09 (totality) and C17 (continuation).
"""
import ast

from . import rx
from .model import AnalysisError, attr_chain, call_name, eq_keys, if_chain

READERS = {"_coord": "coord", "_rcoord": "rcoord", "_number": "number", "_flag": "flag"}


class Branch:
    def __init__(self, letter, body, line):
        self.letter = letter
        self.body = body
        self.line = line
        self.events = []  # ordered
        self.loops = []  # kinds of loops met: 'while-true' / 'while-more'
        self.unknown = []

    # convenience views
    def reads(self):
        return [(e[1], e[2]) for e in self.events if e[0] == "read"]

    def builds(self):
        return [e for e in self.events if e[0] == "build"]


def reader_of(call):
    """self._coord() -> 'coord'"""
    if isinstance(call, ast.Call) and isinstance(call.func, ast.Attribute) and isinstance(call.func.value, ast.Name) \
            and call.func.value.id == "self" and call.func.attr in READERS and not call.args:
        return READERS[call.func.attr]
    return None


def is_more(node):
    return isinstance(node, ast.Call) and isinstance(node.func, ast.Attribute) and node.func.attr == "_more" \
        and isinstance(node.func.value, ast.Name) and node.func.value.id == "self"


def is_raise_value_error(stmt):
    if not isinstance(stmt, ast.Raise) or stmt.exc is None:
        return False
    e = stmt.exc.func if isinstance(stmt.exc, ast.Call) else stmt.exc
    return isinstance(e, ast.Name) and e.id == "ValueError"


def none_test(test):
    """`X is None` -> 'X'"""
    if isinstance(test, ast.Compare) and len(test.ops) == 1 and isinstance(test.ops[0], ast.Is) and isinstance(test.comparators[0], ast.Constant) \
            and test.comparators[0].value is None and isinstance(test.left, ast.Name):
        return test.left.id
    return None


def summarise(branch, stmts, in_loop=None):
    ev = branch.events
    for s in stmts:
        if isinstance(s, ast.While):
            if isinstance(s.test, ast.Constant) and s.test.value is True:
                kind = "while-true"
            elif is_more(s.test):
                kind = "while-more"
            else:
                branch.unknown.append((s.lineno, "loop test %s" % ast.unparse(s.test)))
                kind = "while-?"
            branch.loops.append(kind)
            ev.append(("loop", kind, s.lineno))
            summarise(branch, s.body, kind)
            ev.append(("endloop", kind, s.lineno))
            continue
        if isinstance(s, ast.Assign) and len(s.targets) == 1:
            t, v = s.targets[0], s.value
            if isinstance(t, ast.Name) and reader_of(v):
                ev.append(("read", t.id, reader_of(v), s.lineno))
                continue
            if isinstance(t, ast.Tuple) and isinstance(v, ast.Tuple) and len(t.elts) == len(v.elts) and all(reader_of(c) for c in v.elts) \
                    and all(isinstance(n, ast.Name) for n in t.elts):
                for n, c in zip(t.elts, v.elts):
                    ev.append(("read", n.id, reader_of(c), s.lineno))
                continue
            if ast.unparse(t) == "self.inline_close" and isinstance(v, ast.Constant) and v.value is None:
                ev.append(("reset-close", s.lineno))
                continue
            branch.unknown.append((s.lineno, "assignment %s" % ast.unparse(s)[:60]))
            continue
        if isinstance(s, ast.If):
            x = none_test(s.test)
            if x is not None and not s.orelse:
                b = s.body
                if len(b) == 1 and is_raise_value_error(b[0]):
                    ev.append(("check", x, "raise", s.lineno))
                    continue
                if len(b) == 2 and isinstance(b[0], ast.Assign) and isinstance(b[0].targets[0], ast.Name) and b[0].targets[0].id == x \
                        and ast.unparse(b[0].value) == "self.inline_close" and isinstance(b[1], ast.If) \
                        and len(b[1].body) == 1 and is_raise_value_error(b[1].body[0]) and not b[1].orelse:
                    inner = b[1].test
                    disj = inner.values if isinstance(inner, ast.BoolOp) and isinstance(inner.op, ast.Or) else [inner]
                    if any(none_test(d) == x for d in disj):
                        # other disjuncts (`or sweep is None`) are only evaluated when x was missing: they prove nothing in general
                        ev.append(("check", x, "close-or-raise", s.lineno))
                        continue
                if len(b) == 1 and isinstance(b[0], ast.Raise):
                    ev.append(("check-wrong-exception", x, ast.unparse(b[0]), s.lineno))
                    continue
            if isinstance(s.test, ast.UnaryOp) and isinstance(s.test.op, ast.Not) and is_more(s.test.operand) and not s.orelse and len(s.body) == 1:
                if isinstance(s.body[0], ast.Break):
                    ev.append(("exit-unless-more", s.lineno))
                    continue
                if is_raise_value_error(s.body[0]):
                    ev.append(("require-more", s.lineno))
                    continue
            if is_more(s.test) and not s.orelse and len(s.body) == 1 and is_raise_value_error(s.body[0]):
                ev.append(("forbid-more", s.lineno))
                continue
            branch.unknown.append((s.lineno, "if %s" % ast.unparse(s.test)[:60]))
            continue
        if isinstance(s, ast.Expr) and isinstance(s.value, ast.Call):
            ch = attr_chain(s.value.func)
            if ch and ch[:2] == ["self", "parser"] and len(ch) == 3:
                args = []
                for a in s.value.args:
                    args.append(a.id if isinstance(a, ast.Name) else "?" + ast.unparse(a))
                kw = {k.arg: ast.unparse(k.value) for k in s.value.keywords}
                ev.append(("build", ch[2], args, kw, s.lineno))
                continue
        if isinstance(s, (ast.Continue, ast.Pass)):
            continue
        if isinstance(s, ast.Break):
            ev.append(("break", s.lineno))
            continue
        branch.unknown.append((s.lineno, type(s).__name__))


def lexer_branches(ctx, rule):
    fn = ctx.fn("SVGLexicalParser.parse", rule)
    loops = [s for s in fn.body if isinstance(s, ast.While)]
    ctx.need(len(loops) == 1, rule, "lexer parse: main loop not found")
    main = loops[0]
    # cmd = self._command(); if cmd is None: return ; elif cmd == ...
    cmd_var = None
    for s in main.body:
        if isinstance(s, ast.Assign) and isinstance(s.value, ast.Call) and ast.unparse(s.value.func) == "self._command":
            cmd_var = s.targets[0].id
    ctx.need(cmd_var is not None, rule, "lexer parse: command read not found")
    chains = [s for s in main.body if isinstance(s, ast.If)]
    ctx.need(len(chains) >= 1, rule, "lexer parse: dispatch chain not found")
    branches = {}
    dup = []
    end_returns = False
    for ch in chains:
        for test, body in if_chain(ch):
            if test is None:
                continue
            if none_test(test) == cmd_var:
                end_returns = len(body) == 1 and isinstance(body[0], ast.Return)
                continue
            keys = eq_keys(test, lambda n: isinstance(n, ast.Name) and n.id == cmd_var, ctx.m)
            ctx.need(keys is not None, rule, "lexer parse: branch test not on the command: %s" % ast.unparse(test))
            for k in keys:
                if k in branches:
                    dup.append(k)
                    continue
                b = Branch(k, body, test.lineno)
                summarise(b, body)
                # the z branch computes relative from the letter case
                branches[k] = b
    return fn, cmd_var, branches, dup, end_returns


def token_patterns(ctx, rule):
    """Token classes of the three tokenizers, from the folded module constants."""
    m = ctx.m
    out = {}
    for name in ("svg_parse", "num_parse", "flag_parse"):
        v = m.consts.get(name)
        ctx.need(isinstance(v, list) and all(isinstance(p, tuple) and len(p) == 2 for p in v), rule, "%s not a folded token table" % name)
        out[name] = v
    return out


def prefix_implies(later_pat, earlier_pat):
    """A match of `later` at a position implies a match of `earlier` at that position."""
    a = rx.Lang(later_pat)
    b = rx.Lang("(?:%s)(?:.|\\n)*" % earlier_pat)
    return rx.included(a, b)
