"""Helper inlining: undo `extract method` so that rules see one function where the maintainers wrote two.

Every rule is anchored on the functions of the pinned tree (spec/pinned_functions.txt lists their qualified names).  A private
helper that is NOT in that list was introduced later; when it is simple enough (no loops containing returns, no try containing
returns, no generators, no varargs, not recursive) each call of it is replaced by its body with the parameters bound, which is
the compiler's inlining transformation and changes no behaviour.  Helpers that are not simple stay as calls; rules that meet
such a call report the idiom as undecided instead of judging it.
The table only selects WHAT to inline; no verdict depends on it.
"""
import ast
import copy
import os

VERIF = os.path.dirname(os.path.dirname(os.path.abspath(__file__)))
PINNED = os.path.join(VERIF, "spec", "pinned_functions.txt")


def pinned_table():
    """qualified function name -> set of local names it bound on the pinned tree"""
    try:
        out = {}
        with open(PINNED) as f:
            for l in f:
                if not l.strip() or l.startswith("#"):
                    continue
                q, _, rest = l.rstrip("\n").partition("\t")
                out[q.strip()] = set(rest.split())
        return out
    except OSError:
        return None


def pinned_functions():
    t = pinned_table()
    return None if t is None else set(t)


def function_table(tree):
    funcs = {}
    classes = {}
    for n in tree.body:
        if isinstance(n, ast.FunctionDef):
            funcs[n.name] = n
        elif isinstance(n, ast.ClassDef):
            bases = [b.id if isinstance(b, ast.Name) else getattr(b, "attr", None) for b in n.bases]
            classes[n.name] = (n, bases)
            for m in n.body:
                if isinstance(m, ast.FunctionDef):
                    q = "%s.%s" % (n.name, m.name)
                    if q in funcs:
                        # a property's getter and setter share a name: keep both (the passes that rewrite every function must see both)
                        k = 2
                        while "%s#%d" % (q, k) in funcs:
                            k += 1
                        q = "%s#%d" % (q, k)
                    funcs[q] = m
        elif isinstance(n, ast.Try):
            for m in n.body:
                if isinstance(m, ast.FunctionDef):
                    funcs[m.name] = m
    return funcs, classes


def _deco(fn):
    out = []
    for d in fn.decorator_list:
        out.append(d.id if isinstance(d, ast.Name) else ast.unparse(d))
    return out


def _always_exits(stmts):
    if not stmts:
        return False
    last = stmts[-1]
    if isinstance(last, (ast.Return, ast.Raise)):
        return True
    if isinstance(last, ast.If):
        return _always_exits(last.body) and _always_exits(last.orelse)
    return False


def single_exit(stmts):
    """Rewrite `if c: ...return` followed by more statements into if/else so that every return is in tail position.
    Returns the new statement list or None when a return sits inside a loop/try/with (not expressible)."""
    out = []
    for i, s in enumerate(stmts):
        if isinstance(s, ast.If):
            body = single_exit(s.body)
            orelse = single_exit(s.orelse)
            if body is None or orelse is None:
                return None
            rest = stmts[i + 1:]
            if rest and (_has_return(body) or _has_return(orelse)):
                if _always_exits(body) and not _always_exits(orelse):
                    tail = single_exit(orelse + rest)
                    if tail is None:
                        return None
                    out.append(ast.copy_location(ast.If(test=s.test, body=body, orelse=tail), s))
                    return out
                if _always_exits(orelse) and orelse and not _always_exits(body):
                    tail = single_exit(body + rest)
                    if tail is None:
                        return None
                    out.append(ast.copy_location(ast.If(test=s.test, body=tail, orelse=orelse), s))
                    return out
                if _always_exits(body) and _always_exits(orelse):
                    out.append(ast.copy_location(ast.If(test=s.test, body=body, orelse=orelse), s))
                    return out
                return None  # a return on some path of a branch that otherwise falls through
            out.append(ast.copy_location(ast.If(test=s.test, body=body, orelse=orelse), s))
            continue
        if isinstance(s, (ast.For, ast.While, ast.Try, ast.With)):
            if _has_return([s]):
                return None
            out.append(s)
            continue
        if isinstance(s, ast.Return):
            out.append(s)
            return out  # anything after is dead
        out.append(s)
    return out


def _has_return(stmts):
    for s in stmts:
        for n in ast.walk(s):
            if isinstance(n, ast.Return):
                return True
    return False


def _tail_only(stmts):
    """every Return is the last statement of its block, reachable only through if/else tails"""
    for i, s in enumerate(stmts):
        last = i == len(stmts) - 1
        if isinstance(s, ast.Return):
            if not last:
                return False
        elif isinstance(s, ast.If):
            if last:
                if not (_tail_only(s.body) and _tail_only(s.orelse)):
                    return False
            elif _has_return([s]):
                return False
        elif _has_return([s]):
            return False
    return True


class _Subst(ast.NodeTransformer):
    def __init__(self, mapping, rename):
        self.mapping = mapping  # param name -> expression node
        self.rename = rename  # local name -> new name

    def visit_Name(self, node):
        if node.id in self.mapping and isinstance(node.ctx, ast.Load):
            return ast.copy_location(copy.deepcopy(self.mapping[node.id]), node)
        if node.id in self.rename:
            return ast.copy_location(ast.Name(id=self.rename[node.id], ctx=node.ctx), node)
        return node


def _pure(node):
    if isinstance(node, (ast.Name, ast.Constant)):
        return True
    if isinstance(node, ast.Attribute):
        return _pure(node.value)
    if isinstance(node, ast.UnaryOp) and isinstance(node.operand, ast.Constant):
        return True
    return False


class Inliner:
    def __init__(self, tree, pinned):
        self.tree = tree
        self.funcs, self.classes = function_table(tree)
        self.pinned = pinned
        self.counter = 0
        self.inlined = []  # (caller qual, helper qual, line)
        self.kept = []  # helpers that could not be inlined
        self.helpers = {}
        for q, fn in self.funcs.items():
            if q.split("#")[0] in pinned:
                continue
            name = q.split(".")[-1]
            if not name.startswith("_") or (name.startswith("__") and name.endswith("__")):
                continue
            body = self.prepare(fn)
            if body is None:
                self.kept.append(q)
                continue
            self.helpers[q] = (fn, body)

    def prepare(self, fn):
        deco = _deco(fn)
        if any(d not in ("staticmethod",) for d in deco):
            return None
        a = fn.args
        if a.vararg or a.kwarg or a.kwonlyargs or a.posonlyargs:
            return None
        for n in ast.walk(fn):
            if isinstance(n, (ast.Yield, ast.YieldFrom, ast.Global, ast.Nonlocal, ast.Lambda, ast.Await)):
                return None
            if isinstance(n, (ast.FunctionDef, ast.ClassDef)) and n is not fn:
                return None
            if isinstance(n, ast.Call) and isinstance(n.func, (ast.Name, ast.Attribute)):
                nm = n.func.id if isinstance(n.func, ast.Name) else n.func.attr
                if nm == fn.name:
                    return None  # recursive
        body = [s for s in fn.body if not (isinstance(s, ast.Expr) and isinstance(s.value, ast.Constant) and isinstance(s.value.value, str))]
        body = self.predicate_form(fn, body)
        body = single_exit(body)
        if body is None or not _tail_only(body):
            return None
        return body

    def predicate_form(self, fn, body):
        """`if c: return True` / `return False` (either polarity, with or without else) is the predicate c.  Where every call
        of the helper stands in a truth-test position the helper is `return c` for the analysis (the result is only ever asked
        for its truth value)."""
        def const(st, v):
            return isinstance(st, ast.Return) and isinstance(st.value, ast.Constant) and st.value.value is v

        test = pos = None
        if len(body) == 2 and isinstance(body[0], ast.If) and len(body[0].body) == 1 and not body[0].orelse:
            first, second = body[0].body[0], body[1]
        elif len(body) == 1 and isinstance(body[0], ast.If) and len(body[0].body) == 1 and len(body[0].orelse) == 1:
            first, second = body[0].body[0], body[0].orelse[0]
        else:
            return body
        if const(first, True) and const(second, False):
            pos = True
        elif const(first, False) and const(second, True):
            pos = False
        else:
            return body
        test = body[0].test
        # every reference to the helper is the callee of a call in a truth-test position
        calls = []
        if not hasattr(self, "_parents"):
            self._parents = {}
            for n in ast.walk(self.tree):
                for c in ast.iter_child_nodes(n):
                    self._parents[id(c)] = n
        par = self._parents
        for n in ast.walk(self.tree):
            if isinstance(n, (ast.Name, ast.Attribute)) and (n.id if isinstance(n, ast.Name) else n.attr) == fn.name:
                up = par.get(id(n))
                if not (isinstance(up, ast.Call) and up.func is n):
                    return body
                calls.append(up)
        for c in calls:
            node = c
            up = par.get(id(node))
            while isinstance(up, (ast.BoolOp,)) or (isinstance(up, ast.UnaryOp) and isinstance(up.op, ast.Not)):
                node, up = up, par.get(id(up))
            if not (isinstance(up, (ast.If, ast.While, ast.IfExp)) and up.test is node):
                return body
        value = test if pos else ast.UnaryOp(op=ast.Not(), operand=test)
        return [ast.copy_location(ast.Return(value=value), body[0])]

    # ------------------------------------------------------------- resolution
    def mro(self, cname, seen=None):
        seen = seen or []
        if cname in seen or cname not in self.classes:
            return seen
        seen.append(cname)
        for b in self.classes[cname][1]:
            self.mro(b, seen)
        return seen

    def resolve(self, call, cls):
        """-> (helper qual, receiver expr or None) when call targets an inlinable helper"""
        f = call.func
        if isinstance(f, ast.Name):
            q = f.id
            return (q, None) if q in self.helpers else None
        if isinstance(f, ast.Attribute) and isinstance(f.value, ast.Name):
            base = f.value.id
            if base in ("self", "cls") and cls is not None:
                for c in self.mro(cls):
                    q = "%s.%s" % (c, f.attr)
                    if q in self.funcs:
                        return (q, f.value) if q in self.helpers else None
                return None
            if base in self.classes:
                for c in self.mro(base):
                    q = "%s.%s" % (c, f.attr)
                    if q in self.funcs:
                        return (q, None) if q in self.helpers else None
        return None

    # --------------------------------------------------------------- inlining
    def expand(self, call, cls, caller_names, mode, target):
        """Statements replacing a call in context mode ('assign' with target, 'return', 'expr'); None when not applicable."""
        r = self.resolve(call, cls)
        if r is None:
            return None
        q, recv = r
        fn, body = self.helpers[q]
        params = [a.arg for a in fn.args.args]
        static = "staticmethod" in _deco(fn) or "." not in q
        args = list(call.args)
        if not static:
            if recv is not None:
                args = [recv] + args
            # Cls._h(self, ...) passes the receiver explicitly
        if any(isinstance(a, ast.Starred) for a in args) or any(k.arg is None for k in call.keywords):
            return None
        bound = {}
        for p, a in zip(params, args):
            bound[p] = a
        if len(args) > len(params):
            return None
        for k in call.keywords:
            if k.arg not in params or k.arg in bound:
                return None
            bound[k.arg] = k.value
        defaults = fn.args.defaults
        for p, d in zip(params[len(params) - len(defaults):], defaults):
            bound.setdefault(p, d)
        if set(bound) != set(params):
            return None
        self.counter += 1
        k = self.counter
        assigned = set()
        uses = {}
        for s in body:
            for n in ast.walk(s):
                if isinstance(n, ast.Name):
                    if isinstance(n.ctx, ast.Store):
                        assigned.add(n.id)
                    else:
                        uses[n.id] = uses.get(n.id, 0) + 1
        pre = []
        mapping = {}
        rename = {}
        for p in params:
            a = bound[p]
            if p in assigned or not (_pure(a) or uses.get(p, 0) <= 1):
                tmp = p if (p not in caller_names and p not in assigned) else "%s__%d" % (p, k)
                if p in assigned and p in caller_names:
                    tmp = "%s__%d" % (p, k)
                pre.append(ast.copy_location(ast.Assign(targets=[ast.Name(id=tmp, ctx=ast.Store())], value=copy.deepcopy(a), lineno=call.lineno), call))
                if tmp != p:
                    rename[p] = tmp
            else:
                mapping[p] = a
        for nme in assigned:
            if nme in params:
                continue
            if nme in caller_names:
                rename[nme] = "%s__%d" % (nme, k)
        sub = _Subst(mapping, rename)
        new_body = [sub.visit(copy.deepcopy(s)) for s in body]
        out = pre + self.retarget(new_body, mode, target)
        for s in out:
            ast.fix_missing_locations(s)
        self.inlined.append((q, call.lineno))
        return out

    def retarget(self, stmts, mode, target):
        out = []
        for i, s in enumerate(stmts):
            if isinstance(s, ast.Return):
                v = s.value if s.value is not None else ast.Constant(value=None)
                if mode == "return":
                    out.append(s)
                elif mode == "assign":
                    out.append(ast.copy_location(ast.Assign(targets=[copy.deepcopy(target)], value=v, lineno=s.lineno), s))
                else:
                    if any(isinstance(n, ast.Call) for n in ast.walk(v)):
                        out.append(ast.copy_location(ast.Expr(value=v), s))
                    elif not out:
                        out.append(ast.copy_location(ast.Pass(), s))
            elif isinstance(s, ast.If) and i == len(stmts) - 1 and _has_return([s]):
                body = self.retarget(s.body, mode, target) or [ast.copy_location(ast.Pass(), s)]
                orelse = self.retarget(s.orelse, mode, target)
                if mode == "assign":
                    # a branch that falls off the end returns None
                    if not _always_exits(s.body):
                        body = body + [ast.copy_location(ast.Assign(targets=[copy.deepcopy(target)], value=ast.Constant(value=None), lineno=s.lineno), s)]
                    if not _always_exits(s.orelse):
                        orelse = orelse + [ast.copy_location(ast.Assign(targets=[copy.deepcopy(target)], value=ast.Constant(value=None), lineno=s.lineno), s)]
                out.append(ast.copy_location(ast.If(test=s.test, body=body, orelse=orelse), s))
            else:
                out.append(s)
        if mode == "assign" and not _always_exits(stmts) and not (stmts and isinstance(stmts[-1], ast.If) and _has_return([stmts[-1]])):
            out.append(ast.Assign(targets=[copy.deepcopy(target)], value=ast.Constant(value=None), lineno=getattr(stmts[-1], "lineno", 0) if stmts else 0))
        return out

    def rewrite_block(self, stmts, cls, caller_names, depth=0):
        out = []
        changed = False
        for s in stmts:
            rep = None
            if isinstance(s, ast.Expr) and isinstance(s.value, ast.Call):
                rep = self.expand(s.value, cls, caller_names, "expr", None)
            elif isinstance(s, ast.Return) and isinstance(s.value, ast.Call):
                rep = self.expand(s.value, cls, caller_names, "return", None)
            elif isinstance(s, ast.Assign) and len(s.targets) == 1 and isinstance(s.value, ast.Call) and isinstance(s.targets[0], (ast.Name, ast.Attribute, ast.Subscript, ast.Tuple)):
                rep = self.expand(s.value, cls, caller_names, "assign", s.targets[0])
            if rep is None and isinstance(s, (ast.Assign, ast.AugAssign, ast.Return, ast.Expr, ast.If)):
                # hoist a helper call that is a strict sub-expression evaluated unconditionally
                host = s.test if isinstance(s, ast.If) else s.value
                if host is not None:
                    hoisted = self.hoist(host, cls, caller_names)
                    if hoisted is not None:
                        pre, newexpr = hoisted
                        if isinstance(s, ast.If):
                            s.test = newexpr
                        else:
                            s.value = newexpr
                        out.extend(pre)
                        changed = True
            if rep is not None:
                changed = True
                if depth < 3:
                    rep, _ = self.rewrite_block(rep, cls, caller_names, depth + 1)
                out.extend(rep)
                continue
            for field in ("body", "orelse", "finalbody"):
                b = getattr(s, field, None)
                if isinstance(b, list) and b and isinstance(b[0], ast.stmt):
                    nb, ch = self.rewrite_block(b, cls, caller_names, depth)
                    if ch:
                        setattr(s, field, nb)
                        changed = True
            if isinstance(s, ast.Try):
                for h in s.handlers:
                    nb, ch = self.rewrite_block(h.body, cls, caller_names, depth)
                    if ch:
                        h.body = nb
                        changed = True
            out.append(s)
        return out, changed

    def hoist(self, expr, cls, caller_names):
        """first helper call inside expr that is evaluated unconditionally -> (pre statements, expr with the call replaced by a temp)"""
        found = []

        def visit(n, cond):
            if found:
                return
            if isinstance(n, ast.Call) and n is not expr and not cond and self.resolve(n, cls) is not None:
                found.append(n)
                return
            if isinstance(n, (ast.Lambda, ast.ListComp, ast.SetComp, ast.DictComp, ast.GeneratorExp)):
                return
            if isinstance(n, ast.BoolOp):
                for i, v in enumerate(n.values):
                    visit(v, cond or i > 0)
                return
            if isinstance(n, ast.IfExp):
                visit(n.test, cond)
                visit(n.body, True)
                visit(n.orelse, True)
                return
            for c in ast.iter_child_nodes(n):
                visit(c, cond)

        visit(expr, False)
        if not found:
            return None
        call = found[0]
        self.counter += 1
        tmp = "inl__%d" % self.counter
        pre = self.expand(call, cls, caller_names, "assign", ast.Name(id=tmp, ctx=ast.Store()))
        if pre is None:
            return None

        class R(ast.NodeTransformer):
            def visit_Call(self_, node):
                if node is call:
                    return ast.copy_location(ast.Name(id=tmp, ctx=ast.Load()), node)
                return self_.generic_visit(node)

        return pre, R().visit(expr)

    def inline_expressions(self, fn, cls):
        """Calls of helpers whose whole body is `return <expression>` are replaced in place (any position, also conditional ones)."""
        inl = self
        changed = [False]

        class T(ast.NodeTransformer):
            def visit_Call(self_, node):
                self_.generic_visit(node)
                r = inl.resolve(node, cls)
                if r is None:
                    return node
                q, recv = r
                hfn, body = inl.helpers[q]
                if not (len(body) == 1 and isinstance(body[0], ast.Return) and body[0].value is not None):
                    return node
                params = [a.arg for a in hfn.args.args]
                static = "staticmethod" in _deco(hfn) or "." not in q
                args = list(node.args)
                if not static and recv is not None:
                    args = [recv] + args
                if len(args) != len(params) or node.keywords or any(isinstance(a, ast.Starred) for a in args):
                    return node
                uses = {}
                for n in ast.walk(body[0].value):
                    if isinstance(n, ast.Name):
                        uses[n.id] = uses.get(n.id, 0) + 1
                if any(isinstance(n, (ast.Lambda, ast.ListComp, ast.GeneratorExp, ast.SetComp, ast.DictComp)) for n in ast.walk(body[0].value)):
                    return node
                for p_, a in zip(params, args):
                    if not (_pure(a) or uses.get(p_, 0) <= 1):
                        return node
                sub = _Subst(dict(zip(params, args)), {})
                new = sub.visit(copy.deepcopy(body[0].value))
                changed[0] = True
                inl.inlined.append((q, node.lineno))
                return ast.copy_location(new, node)

        T().visit(fn)
        return changed[0]

    def run(self):
        if not self.helpers:
            return
        for q, fn in list(self.funcs.items()):
            if q in self.helpers:
                continue
            self.inline_expressions(fn, q.split(".")[0] if "." in q else None)
        for q, fn in list(self.funcs.items()):
            if q in self.helpers:
                continue
            cls = q.split(".")[0] if "." in q else None
            caller_names = {n.id for n in ast.walk(fn) if isinstance(n, ast.Name)} | {a.arg for a in fn.args.args}
            for _ in range(3):
                nb, ch = self.rewrite_block(fn.body, cls, caller_names)
                if not ch:
                    break
                fn.body = nb
                caller_names = {n.id for n in ast.walk(fn) if isinstance(n, ast.Name)} | {a.arg for a in fn.args.args}
            _fold_inlined_result_aliases(fn)
            # nested functions (closures such as the writer's subxml or semiparse)
        # a helper whose every use was inlined is dead code now: drop its definition so that the tree has the shape it had before the extraction
        self.removed = []
        for q, (fn, _) in list(self.helpers.items()):
            name = q.split(".")[-1]
            refs = 0
            for n in ast.walk(self.tree):
                if n is fn:
                    continue
                if (isinstance(n, ast.Attribute) and n.attr == name) or (isinstance(n, ast.Name) and n.id == name):
                    inside = False
                    for m in ast.walk(fn):
                        if m is n:
                            inside = True
                            break
                    if not inside:
                        refs += 1
            if refs == 0:
                holder = self.classes[q.split(".")[0]][0].body if "." in q else self.tree.body
                if fn in holder and len(holder) > 1:
                    holder.remove(fn)
                    self.removed.append(q)
        ast.fix_missing_locations(self.tree)


def _fold_inlined_result_aliases(fn):
    """An inlined helper that builds its result in a local leaves `L__k = ...; ...; T = L__k` behind when the caller's
    target T has the helper-local's own name (or any other name).  When T is not mentioned between the first binding of
    L__k and the alias statement, and L__k is not mentioned after it, L__k simply IS T: rename and drop the alias."""
    import re as _re

    changed = True
    while changed:
        changed = False
        for node in ast.walk(fn):
            for field in ("body", "orelse", "finalbody"):
                block = getattr(node, field, None)
                if not isinstance(block, list):
                    continue
                for i, st in enumerate(block):
                    # inl__k = X  (the helper returned one of its locals, which inlining turned into the caller's X): use X
                    if isinstance(st, ast.Assign) and len(st.targets) == 1 and isinstance(st.targets[0], ast.Name) and _re.search(r"__\d+$", st.targets[0].id) \
                            and isinstance(st.value, ast.Name) and not _re.search(r"__\d+$", st.value.id):
                        tmp, src = st.targets[0].id, st.value.id
                        stores = [n for n in ast.walk(fn) if isinstance(n, ast.Name) and n.id == tmp and isinstance(n.ctx, ast.Store)]
                        rest = block[i + 1:]
                        src_rebound = any(isinstance(n, ast.Name) and n.id == src and isinstance(n.ctx, (ast.Store, ast.Del)) for b in rest for n in ast.walk(b))
                        outside = [n for n in ast.walk(fn) if isinstance(n, ast.Name) and n.id == tmp and n is not st.targets[0] and not any(n is m for b in rest for m in ast.walk(b))]
                        if len(stores) == 1 and not src_rebound and not outside:
                            for b in rest:
                                for n in ast.walk(b):
                                    if isinstance(n, ast.Name) and n.id == tmp:
                                        n.id = src
                            del block[i]
                            changed = True
                            break
                    # T1, T2 = (L1__k, L2__k): the helper returned a tuple of its locals
                    if isinstance(st, ast.Assign) and len(st.targets) == 1 and isinstance(st.targets[0], ast.Tuple) and isinstance(st.value, ast.Tuple) \
                            and len(st.targets[0].elts) == len(st.value.elts) and all(isinstance(t_, ast.Name) for t_ in st.targets[0].elts) \
                            and all(isinstance(v_, ast.Name) and _re.search(r"__\d+$", v_.id) for v_ in st.value.elts):
                        pairs = [(v_.id, t_.id) for t_, v_ in zip(st.targets[0].elts, st.value.elts)]
                        firsts = [next((j for j, b in enumerate(block[:i]) if any(isinstance(n, ast.Name) and n.id == tmp_ for n in ast.walk(b))), None) for tmp_, _ in pairs]
                        if all(f is not None for f in firsts) and len({p_[0] for p_ in pairs}) == len(pairs):
                            between = block[min(firsts):i]
                            tgts = {p_[1] for p_ in pairs}
                            tmps = {p_[0] for p_ in pairs}
                            clash = any(isinstance(n, ast.Name) and n.id in tgts for b in between for n in ast.walk(b))
                            elsewhere = [n for n in ast.walk(fn) if isinstance(n, ast.Name) and n.id in tmps and not any(n is m for b in between + [st] for m in ast.walk(b))]
                            if not clash and not elsewhere:
                                ren = dict(pairs)
                                for b in between:
                                    for n in ast.walk(b):
                                        if isinstance(n, ast.Name) and n.id in ren:
                                            n.id = ren[n.id]
                                del block[i]
                                changed = True
                                break
                    if not (isinstance(st, ast.Assign) and len(st.targets) == 1 and isinstance(st.targets[0], ast.Name) and isinstance(st.value, ast.Name)
                            and _re.search(r"__\d+$", st.value.id)):
                        continue
                    tmp, tgt = st.value.id, st.targets[0].id
                    first = next((j for j, b in enumerate(block[:i]) if any(isinstance(n, ast.Name) and n.id == tmp for n in ast.walk(b))), None)
                    if first is None:
                        continue
                    between = block[first:i]
                    if any(isinstance(n, ast.Name) and n.id == tgt for b in between for n in ast.walk(b)):
                        continue
                    elsewhere = [n for n in ast.walk(fn) if isinstance(n, ast.Name) and n.id == tmp and not any(n is m for b in between + [st] for m in ast.walk(b))]
                    if elsewhere:
                        continue
                    for b in between:
                        for n in ast.walk(b):
                            if isinstance(n, ast.Name) and n.id == tmp:
                                n.id = tgt
                    del block[i]
                    changed = True
                    break
                if changed:
                    break
            if changed:
                break


class _Unroller(ast.NodeTransformer):
    """for x in (A, B, C): body  ->  body[x:=A]; body[x:=B]; body[x:=C]   (literal or module-level constant tuples only)"""

    def __init__(self, tables):
        self.tables = tables
        self.count = 0

    def _elements(self, it):
        if isinstance(it, ast.Call) and isinstance(it.func, ast.Name) and it.func.id == "enumerate" and len(it.args) == 1 and not it.keywords:
            # enumerate over a constant table: rows (index, element)
            inner = self._elements(it.args[0])
            if inner is None:
                return None
            return [ast.Tuple(elts=[ast.Constant(value=k), e], ctx=ast.Load()) for k, e in enumerate(inner)]
        if isinstance(it, ast.Name) and it.id in getattr(self, "local_tables", {}):
            it = self.local_tables[it.id]
        if isinstance(it, ast.Name) and it.id in self.tables:
            it = self.tables[it.id]
        if isinstance(it, (ast.Tuple, ast.List)) and 1 <= len(it.elts) <= 16:
            return it.elts
        return None

    def _zip_prefix(self, node):
        """for a, d in zip((A, B, C), xs): body  ->  try: body[a:=A, d:=xs[0]]; body[a:=B, d:=xs[1]]; ... except IndexError: pass
        zip stops at the shorter operand, so exactly the leading len(xs) rounds run - as the subscripts do until the first one
        that is out of range.  Only when xs is a list bound once in the enclosing function (findall/split/list display; checked by
        the caller through self.lists) and the body is a run of setattr/assignment statements that apply a builtin converter to
        d, so that nothing else in it can raise IndexError."""
        it = node.iter
        if not (isinstance(it, ast.Call) and isinstance(it.func, ast.Name) and it.func.id == "zip" and len(it.args) == 2 and not it.keywords):
            return None
        const, xs = it.args
        elts = self._elements(const)
        if elts is None or not isinstance(xs, ast.Name) or xs.id not in self.lists:
            return None
        if not (isinstance(node.target, ast.Tuple) and len(node.target.elts) == 2 and all(isinstance(t, ast.Name) for t in node.target.elts)) or node.orelse:
            return None
        if not all(isinstance(e, ast.Constant) for e in elts):
            return None
        a, d = (t.id for t in node.target.elts)
        for st in node.body:
            ok = (isinstance(st, ast.Expr) and isinstance(st.value, ast.Call) and isinstance(st.value.func, ast.Name) and st.value.func.id == "setattr") or \
                 (isinstance(st, ast.Assign) and len(st.targets) == 1 and isinstance(st.targets[0], (ast.Attribute, ast.Name)))
            if not ok:
                return None
            for n in ast.walk(st):
                if isinstance(n, (ast.Subscript, ast.Lambda, ast.Starred)):
                    return None
                if isinstance(n, ast.Call) and not (isinstance(n.func, ast.Name) and n.func.id in ("setattr", "float", "int", "str", "abs")):
                    return None
                if isinstance(n, ast.Name) and n.id in (a, d, xs.id) and isinstance(n.ctx, (ast.Store, ast.Del)):
                    return None
        body = []
        for i, e in enumerate(elts):
            sub = _Subst({a: e, d: ast.Subscript(value=ast.Name(id=xs.id, ctx=ast.Load()), slice=ast.Constant(value=i), ctx=ast.Load())}, {})
            for st in node.body:
                body.append(sub.visit(copy.deepcopy(st)))
        tr = ast.Try(body=body, handlers=[ast.ExceptHandler(type=ast.Name(id="IndexError", ctx=ast.Load()), name=None, body=[ast.Pass()])], orelse=[], finalbody=[])
        self.count += 1
        return [ast.copy_location(tr, node)]

    def visit_FunctionDef(self, node):
        # lists: locals bound exactly once, to something that is a list
        saved = getattr(self, "lists", set())
        binds = {}
        for n in ast.walk(node):
            if isinstance(n, ast.Name) and isinstance(n.ctx, (ast.Store, ast.Del)):
                binds[n.id] = binds.get(n.id, 0) + 1
        lists = set()
        for n in ast.walk(node):
            if isinstance(n, ast.Assign) and len(n.targets) == 1 and isinstance(n.targets[0], ast.Name) and binds.get(n.targets[0].id) == 1:
                v = n.value
                if isinstance(v, (ast.List, ast.ListComp)) or (isinstance(v, ast.Call) and ((isinstance(v.func, ast.Attribute) and v.func.attr in ("findall", "split")) or
                                                                                          (isinstance(v.func, ast.Name) and v.func.id in ("list", "sorted")))):
                    lists.add(n.targets[0].id)
        self.lists = lists - {a.arg for a in node.args.args + node.args.kwonlyargs}
        # local constant tables: a name bound once to a tuple display of constants / of tuples of constants
        saved_tables = getattr(self, "local_tables", {})
        lt = {}
        const_row = lambda e: isinstance(e, ast.Constant) or (isinstance(e, ast.Tuple) and all(isinstance(x, (ast.Constant, ast.Name)) for x in e.elts))
        for n in ast.walk(node):
            if isinstance(n, ast.Assign) and len(n.targets) == 1 and isinstance(n.targets[0], ast.Name) and binds.get(n.targets[0].id) == 1 \
                    and isinstance(n.value, ast.Tuple) and n.value.elts and all(const_row(e) for e in n.value.elts):
                lt[n.targets[0].id] = n.value
        self.local_tables = lt
        self.generic_visit(node)
        self.lists = saved
        self.local_tables = saved_tables
        return node

    def visit_For(self, node):
        self.generic_visit(node)
        z = self._zip_prefix(node) if hasattr(self, "lists") else None
        if z is not None:
            return z
        elts = self._elements(node.iter)
        if elts is None or node.orelse:
            return node
        simple = lambda e: isinstance(e, (ast.Constant, ast.Name)) or (isinstance(e, ast.Attribute) and simple(e.value))
        if isinstance(node.target, ast.Name):
            if not all(simple(e) for e in elts):
                return node
            targets = [node.target.id]
            rows = [[e] for e in elts]
        elif isinstance(node.target, ast.Tuple) and all(isinstance(t, ast.Name) for t in node.target.elts):
            if not all(isinstance(e, (ast.Tuple, ast.List)) and len(e.elts) == len(node.target.elts) and all(simple(x) for x in e.elts) for e in elts):
                return node
            targets = [t.id for t in node.target.elts]
            rows = [list(e.elts) for e in elts]
        else:
            return node
        for n in ast.walk(ast.Module(body=node.body, type_ignores=[])):
            if isinstance(n, (ast.Break, ast.Continue)):
                # only those belonging to this loop matter; be conservative
                return node
            if isinstance(n, ast.Name) and n.id in targets and isinstance(n.ctx, (ast.Store, ast.Del)):
                return node
            if isinstance(n, (ast.FunctionDef, ast.Lambda)):
                return node
        out = []
        for row in rows:
            sub = _Subst(dict(zip(targets, row)), {})
            for st in node.body:
                out.append(sub.visit(copy.deepcopy(st)))
        self.count += 1
        return out


def unroll_constant_loops(tree):
    tables = {}
    for n in tree.body:
        if isinstance(n, ast.Assign) and len(n.targets) == 1 and isinstance(n.targets[0], ast.Name) and isinstance(n.value, (ast.Tuple, ast.List)):
            if all(isinstance(e, (ast.Constant, ast.Name)) for e in n.value.elts):
                tables[n.targets[0].id] = n.value
    pinned_tables = None
    u = _Unroller(tables)
    u.visit(tree)
    ast.fix_missing_locations(tree)
    return u.count


class _AttrFold(ast.NodeTransformer):
    """getattr(x, "name") -> x.name ; setattr(x, "name", v) as a statement -> x.name = v   (constant attribute names only)"""

    def __init__(self):
        self.count = 0
        self.count_folded_len = False

    @staticmethod
    def _ident(node):
        return isinstance(node, ast.Constant) and isinstance(node.value, str) and node.value.isidentifier()

    def visit_Call(self, node):
        self.generic_visit(node)
        if isinstance(node.func, ast.Name) and node.func.id == "len" and len(node.args) == 1 and not node.keywords and isinstance(node.args[0], ast.Constant) \
                and isinstance(node.args[0].value, (str, bytes)):
            self.count += 1
            return ast.copy_location(ast.Constant(value=len(node.args[0].value)), node)
        if isinstance(node.func, ast.Name) and node.func.id == "getattr" and len(node.args) == 2 and not node.keywords and self._ident(node.args[1]) and _pure(node.args[0]):
            self.count += 1
            return ast.copy_location(ast.Attribute(value=node.args[0], attr=node.args[1].value, ctx=ast.Load()), node)
        return node

    def visit_UnaryOp(self, node):
        self.generic_visit(node)
        if isinstance(node.op, ast.USub) and isinstance(node.operand, ast.Constant) and isinstance(node.operand.value, (int, float)) and not isinstance(node.operand.value, bool) \
                and self.count_folded_len:
            return ast.copy_location(ast.Constant(value=-node.operand.value), node)
        return node

    def visit_Expr(self, node):
        self.generic_visit(node)
        c = node.value
        if isinstance(c, ast.Call) and isinstance(c.func, ast.Name) and c.func.id == "setattr" and len(c.args) == 3 and not c.keywords and self._ident(c.args[1]) and _pure(c.args[0]):
            self.count += 1
            return ast.copy_location(ast.Assign(targets=[ast.Attribute(value=c.args[0], attr=c.args[1].value, ctx=ast.Store())], value=c.args[2], lineno=node.lineno), node)
        return node


def index_loops_to_iteration(tree):
    """`for i in range(len(L)): ... L[i] ...` -> `for x in L: ... x ...` and the descending form
    `for i in range(len(L) - 1, -1, -1)` -> `for x in reversed(L)`, when i is used only to read L[i] and L is a local name that
    the body mentions in no other way (so its length cannot change under the loop).  `n = len(L)` bound once just for the range
    is seen through.  Undoes `direct iteration -> index loop`."""
    count = 0
    for fn in [n for n in ast.walk(tree) if isinstance(n, (ast.FunctionDef, ast.AsyncFunctionDef))]:
        lens = {}
        stores = {}
        for n in ast.walk(fn):
            if isinstance(n, ast.Name) and isinstance(n.ctx, ast.Store):
                stores[n.id] = stores.get(n.id, 0) + 1
        for st in ast.walk(fn):
            if isinstance(st, ast.Assign) and len(st.targets) == 1 and isinstance(st.targets[0], ast.Name) and isinstance(st.value, ast.Call) and isinstance(st.value.func, ast.Name) \
                    and st.value.func.id == "len" and len(st.value.args) == 1 and isinstance(st.value.args[0], ast.Name) and stores.get(st.targets[0].id) == 1:
                lens[st.targets[0].id] = st.value.args[0].id

        def length_of(n):
            if isinstance(n, ast.Call) and isinstance(n.func, ast.Name) and n.func.id == "len" and len(n.args) == 1 and isinstance(n.args[0], ast.Name):
                return n.args[0].id
            if isinstance(n, ast.Name) and n.id in lens:
                return lens[n.id]
            return None

        for lp in [n for n in ast.walk(fn) if isinstance(n, ast.For)]:
            if not (isinstance(lp.target, ast.Name) and isinstance(lp.iter, ast.Call) and isinstance(lp.iter.func, ast.Name) and lp.iter.func.id == "range" and not lp.orelse):
                continue
            a = lp.iter.args
            L = None
            rev = False
            if len(a) == 1:
                L = length_of(a[0])
            elif len(a) == 2 and isinstance(a[0], ast.Constant) and a[0].value == 0:
                L = length_of(a[1])
            elif len(a) == 3 and isinstance(a[0], ast.BinOp) and isinstance(a[0].op, ast.Sub) and isinstance(a[0].right, ast.Constant) and a[0].right.value == 1 \
                    and all(isinstance(x, ast.UnaryOp) and isinstance(x.op, ast.USub) and isinstance(x.operand, ast.Constant) and x.operand.value == 1 or (isinstance(x, ast.Constant) and x.value == -1) for x in a[1:]):
                L = length_of(a[0].left)
                rev = True
            if L is None or stores.get(L, 0) > 1:
                continue
            i = lp.target.id
            ok = True
            uses = []
            body = ast.Module(body=lp.body, type_ignores=[])
            parents = {}
            for n in ast.walk(body):
                for c in ast.iter_child_nodes(n):
                    parents[id(c)] = n
            for n in ast.walk(body):
                if isinstance(n, ast.Name) and n.id == i:
                    p_ = parents.get(id(n))
                    if isinstance(n.ctx, ast.Load) and isinstance(p_, ast.Subscript) and p_.slice is n and isinstance(p_.value, ast.Name) and p_.value.id == L and isinstance(p_.ctx, ast.Load):
                        uses.append(p_)
                    else:
                        ok = False
                elif isinstance(n, ast.Name) and n.id == L:
                    p_ = parents.get(id(n))
                    if not (isinstance(p_, ast.Subscript) and p_.value is n and isinstance(p_.slice, ast.Name) and p_.slice.id == i and isinstance(p_.ctx, ast.Load)):
                        ok = False
            if not ok or not uses:
                continue
            item = "%s__item" % L
            for u in uses:
                par = parents.get(id(u))
                new = ast.copy_location(ast.Name(id=item, ctx=ast.Load()), u)
                for field, val in ast.iter_fields(par):
                    if val is u:
                        setattr(par, field, new)
                    elif isinstance(val, list):
                        for k, x in enumerate(val):
                            if x is u:
                                val[k] = new
            lp.target = ast.copy_location(ast.Name(id=item, ctx=ast.Store()), lp.target)
            src = ast.Name(id=L, ctx=ast.Load())
            lp.iter = ast.copy_location(ast.Call(func=ast.Name(id="reversed", ctx=ast.Load()), args=[src], keywords=[]) if rev else src, lp.iter)
            count += 1
    ast.fix_missing_locations(tree)
    return count


class _RangeComp(ast.NodeTransformer):
    """[f(i) for i in range(3)] -> [f(0), f(1), f(2)]  (single generator, no condition, small literal count; the elements are
    evaluated in the same order).  Undoes `three repeated statements -> comprehension over range`."""

    def __init__(self):
        self.count = 0

    def visit_ListComp(self, node):
        self.generic_visit(node)
        if len(node.generators) != 1:
            return node
        g = node.generators[0]
        if g.ifs or g.is_async or not isinstance(g.target, ast.Name):
            return node
        it = g.iter
        if isinstance(it, (ast.Tuple, ast.List)) and 0 < len(it.elts) <= 8:
            # [f(c) for c in (A, B, C)] -> [f(A), f(B), f(C)] for plain names / attribute chains / constants (reading them again
            # in each element is what the comprehension does too)
            simple = lambda e: isinstance(e, (ast.Constant, ast.Name)) or (isinstance(e, ast.Attribute) and simple(e.value))
            if all(simple(e) for e in it.elts) and not any(isinstance(n, ast.Name) and n.id == g.target.id and isinstance(n.ctx, ast.Store) for n in ast.walk(node.elt)) \
                    and not any(isinstance(n, (ast.Lambda, ast.ListComp, ast.GeneratorExp, ast.SetComp, ast.DictComp)) for n in ast.walk(node.elt)):
                elts = [_Subst({g.target.id: e}, {}).visit(copy.deepcopy(node.elt)) for e in it.elts]
                self.count += 1
                return ast.copy_location(ast.List(elts=elts, ctx=ast.Load()), node)
            return node
        if not (isinstance(it, ast.Call) and isinstance(it.func, ast.Name) and it.func.id == "range" and len(it.args) in (1, 2) and not it.keywords
                and all(isinstance(a, ast.Constant) and isinstance(a.value, int) and not isinstance(a.value, bool) for a in it.args)):
            return node
        lo, hi = (0, it.args[0].value) if len(it.args) == 1 else (it.args[0].value, it.args[1].value)
        if not (0 < hi - lo <= 8):
            return node
        if any(isinstance(n, ast.Name) and n.id == g.target.id and isinstance(n.ctx, ast.Store) for n in ast.walk(node.elt)):
            return node
        elts = [_Subst({g.target.id: ast.Constant(value=k)}, {}).visit(copy.deepcopy(node.elt)) for k in range(lo, hi)]
        self.count += 1
        return ast.copy_location(ast.List(elts=elts, ctx=ast.Load()), node)


def scalar_replace_small_lists(tree):
    """L = [e0, e1, e2]; for i, x in enumerate(L): ... L[i] = v ...; a, b, c = L
       ->  L__0 = e0; L__1 = e1; L__2 = e2; (the loop body once per element, i := k, x bound to L__k, L[i] = v as L__k = v);
           a, b, c = (L__0, L__1, L__2)
    Scalar replacement of a fixed-size list that never escapes: every mention of L is the display binding it, the iterable of an
    enumerate loop over it, a subscript by that loop's index inside the loop, a constant subscript, or an unpacking of the same
    length.  Undoes `three repeated blocks -> a loop over a list of the three values`."""
    count = 0
    funcs, _ = function_table(tree)
    for q, fn in funcs.items():
        for owner in ast.walk(fn):
            for field in ("body", "orelse", "finalbody"):
                block = getattr(owner, field, None)
                if not isinstance(block, list):
                    continue
                i = 0
                while i < len(block):
                    st = block[i]
                    i += 1
                    if not (isinstance(st, ast.Assign) and len(st.targets) == 1 and isinstance(st.targets[0], ast.Name) and isinstance(st.value, ast.List) and 1 <= len(st.value.elts) <= 8):
                        continue
                    L = st.targets[0].id
                    n = len(st.value.elts)
                    in_block = {id(m) for b in block for m in ast.walk(b)}
                    every = [m for m in ast.walk(fn) if isinstance(m, ast.Name) and m.id == L and m is not st.targets[0]]
                    mentions = [m for m in every if id(m) in in_block]
                    # the same name may be used the same way in a sibling branch: those mentions belong to that branch's own
                    # display binding (each is rewritten when its turn comes)
                    other_defs = [d for d in ast.walk(fn) if isinstance(d, ast.Assign) and d is not st and len(d.targets) == 1 and isinstance(d.targets[0], ast.Name)
                                  and d.targets[0].id == L and isinstance(d.value, ast.List) and id(d) not in in_block]
                    outside = [m for m in every if id(m) not in in_block and not any(m is d.targets[0] for d in other_defs)]
                    if any(not any(d.lineno <= m.lineno for d in other_defs) for m in outside):
                        continue
                    stores = [m for m in mentions if isinstance(m.ctx, (ast.Store, ast.Del))]
                    if stores or not mentions:
                        continue
                    # classify every mention by its parent
                    parents = {}
                    for p_ in ast.walk(fn):
                        for c_ in ast.iter_child_nodes(p_):
                            parents[id(c_)] = p_
                    loops, unpacks, consts, in_loop = [], [], [], []
                    ok = True
                    for m in mentions:
                        p_ = parents.get(id(m))
                        if isinstance(p_, ast.Call) and isinstance(p_.func, ast.Name) and p_.func.id == "enumerate" and len(p_.args) == 1 and p_.args[0] is m:
                            lp = parents.get(id(p_))
                            if isinstance(lp, ast.For) and lp.iter is p_ and not lp.orelse and isinstance(lp.target, ast.Tuple) and len(lp.target.elts) == 2 \
                                    and all(isinstance(e, ast.Name) for e in lp.target.elts) and any(lp is b for b in block):
                                loops.append(lp)
                                continue
                            ok = False
                        elif isinstance(p_, ast.Subscript) and p_.value is m:
                            if isinstance(p_.slice, ast.Constant) and isinstance(p_.slice.value, int) and -n <= p_.slice.value < n:
                                consts.append(p_)
                            elif isinstance(p_.slice, ast.Name):
                                in_loop.append(p_)
                            else:
                                ok = False
                        elif isinstance(p_, ast.Assign) and p_.value is m and len(p_.targets) == 1 and isinstance(p_.targets[0], (ast.Tuple, ast.List)) and len(p_.targets[0].elts) == n:
                            unpacks.append(p_)
                        else:
                            ok = False
                    if not ok or len(loops) > 1:
                        continue
                    if in_loop and not loops:
                        continue
                    if loops:
                        lp = loops[0]
                        iv, xv = lp.target.elts[0].id, lp.target.elts[1].id
                        inside = {id(x) for x in ast.walk(lp)}
                        if any(id(s_) not in inside or s_.slice.id != iv for s_ in in_loop):
                            continue
                        if any(isinstance(x, (ast.Break, ast.Continue, ast.Return, ast.FunctionDef, ast.Lambda)) for b in lp.body for x in ast.walk(b)):
                            continue
                        if any(isinstance(x, ast.Name) and x.id == iv and isinstance(x.ctx, ast.Store) for b in lp.body for x in ast.walk(b)):
                            continue
                    name = lambda k: "%s__%d" % (L, k % n)
                    # rewrite
                    new_block = []
                    for b in block:
                        if b is st:
                            for k, e in enumerate(st.value.elts):
                                new_block.append(ast.copy_location(ast.Assign(targets=[ast.Name(id=name(k), ctx=ast.Store())], value=e, lineno=st.lineno), st))
                        elif loops and b is loops[0]:
                            lp = loops[0]
                            for k in range(n):
                                new_block.append(ast.copy_location(ast.Assign(targets=[ast.Name(id=xv, ctx=ast.Store())], value=ast.Name(id=name(k), ctx=ast.Load()), lineno=lp.lineno), lp))
                                for body_st in lp.body:
                                    cp = copy.deepcopy(body_st)

                                    class R(ast.NodeTransformer):
                                        def visit_Subscript(self, nd):
                                            if isinstance(nd.value, ast.Name) and nd.value.id == L and isinstance(nd.slice, ast.Name) and nd.slice.id == iv:
                                                return ast.copy_location(ast.Name(id=name(k), ctx=nd.ctx), nd)
                                            return self.generic_visit(nd)

                                        def visit_Name(self, nd):
                                            if nd.id == iv and isinstance(nd.ctx, ast.Load):
                                                return ast.copy_location(ast.Constant(value=k), nd)
                                            return nd

                                    new_block.append(R().visit(cp))
                        else:
                            new_block.append(b)
                    block[:] = new_block
                    for u in unpacks:
                        u.value = ast.Tuple(elts=[ast.Name(id=name(k), ctx=ast.Load()) for k in range(n)], ctx=ast.Load())
                    for c_ in consts:
                        par = parents.get(id(c_))
                        repl = ast.Name(id=name(c_.slice.value), ctx=c_.ctx)
                        for fld, val in ast.iter_fields(par):
                            if val is c_:
                                setattr(par, fld, repl)
                            elif isinstance(val, list):
                                for kk, x in enumerate(val):
                                    if x is c_:
                                        val[kk] = repl
                    count += 1
                    i = 0  # the block changed: start over
    if count:
        ast.fix_missing_locations(tree)
    return count


class _NotFold(ast.NodeTransformer):
    """`not a is b` -> `a is not b`, `not a is not b` -> `a is b`, `not a in b` -> `a not in b`, `not a not in b` -> `a in b`
    (exact equivalences: identity and membership have no user-definable negation)"""

    FLIP = {ast.Is: ast.IsNot, ast.IsNot: ast.Is, ast.In: ast.NotIn, ast.NotIn: ast.In}

    def __init__(self):
        self.count = 0

    def visit_UnaryOp(self, node):
        self.generic_visit(node)
        if isinstance(node.op, ast.Not) and isinstance(node.operand, ast.Compare) and len(node.operand.ops) == 1 and type(node.operand.ops[0]) in self.FLIP:
            self.count += 1
            c = node.operand
            return ast.copy_location(ast.Compare(left=c.left, ops=[self.FLIP[type(c.ops[0])]()], comparators=c.comparators), node)
        return node


    def visit_Compare(self, node):
        # `local == CONSTANT_NAME` -> `CONSTANT_NAME == local` (the spelling of the reference tree; == and != between a local and
        # a module-level string constant are symmetric)
        self.generic_visit(node)
        if len(node.ops) == 1 and isinstance(node.ops[0], (ast.Eq, ast.NotEq)) and isinstance(node.left, ast.Name) and isinstance(node.comparators[0], ast.Name):
            l, r = node.left.id, node.comparators[0].id
            if r.isupper() and "_" in r and not l.isupper() and r in getattr(self, "module_strings", ()):
                self.count += 1
                return ast.copy_location(ast.Compare(left=node.comparators[0], ops=node.ops, comparators=[node.left]), node)
        return node


def _side_effect_free(expr):
    for n in ast.walk(expr):
        if isinstance(n, (ast.Call, ast.Await, ast.Yield, ast.YieldFrom, ast.NamedExpr, ast.Lambda, ast.ListComp, ast.SetComp, ast.DictComp, ast.GeneratorExp)):
            return False
    return True


def inline_new_temporaries(tree, table):
    """Forward-substitute explanatory temporaries that did not exist on the pinned tree: a local bound once to a call-free
    expression, used exactly once, later in the same statement list (or a statement nested in it), with none of the names it reads
    re-bound in between.  This is copy propagation; it undoes `introduce explanatory variable`."""
    funcs, _ = function_table(tree)
    count = 0
    for q, fn in funcs.items():
        known = table.get(q.split("#")[0])
        if known is None:
            continue  # a new function: nothing to compare with
        stores = {}
        loads = {}
        for n in ast.walk(fn):
            if isinstance(n, ast.Name):
                (stores if isinstance(n.ctx, ast.Store) else loads).setdefault(n.id, []).append(n)
        for name, st in list(stores.items()):
            if name in known or "__" in name or len(st) != 1 or len(loads.get(name, ())) != 1:
                continue
            done = _substitute_once(fn, name)
            count += 1 if done else 0
    if count:
        ast.fix_missing_locations(tree)
    return count


def _factory_call(expr):
    """Class(args) / Class.method(args) with arguments that are arithmetic over plain names and constants"""
    if not isinstance(expr, ast.Call) or expr.keywords:
        return False
    f = expr.func
    head = f.id if isinstance(f, ast.Name) else f.value.id if isinstance(f, ast.Attribute) and isinstance(f.value, ast.Name) else None
    if head is None or not head[:1].isupper():
        return False

    def arith(e):
        if isinstance(e, (ast.Constant, ast.Name)):
            return True
        if isinstance(e, ast.UnaryOp):
            return arith(e.operand)
        if isinstance(e, ast.BinOp):
            return arith(e.left) and arith(e.right)
        return False

    return all(arith(a) for a in expr.args)


def _substitute_once(fn, name):
    # find the statement list holding `name = expr`
    for node in ast.walk(fn):
        for field in ("body", "orelse", "finalbody"):
            block = getattr(node, field, None)
            if not isinstance(block, list):
                continue
            for i, st in enumerate(block):
                if isinstance(st, ast.Assign) and len(st.targets) == 1 and isinstance(st.targets[0], ast.Name) and st.targets[0].id == name:
                    expr = st.value
                    # `t = <anything>` immediately followed by `x = t`: a pure renaming of the target, always safe
                    if i + 1 < len(block):
                        nxt = block[i + 1]
                        if isinstance(nxt, ast.Assign) and isinstance(nxt.value, ast.Name) and nxt.value.id == name and not any(
                                isinstance(n, ast.Name) and n.id == name for t_ in nxt.targets for n in ast.walk(t_)):
                            nxt.value = expr
                            del block[i]
                            return True
                    # `t = Class.factory(<arithmetic over locals>)` immediately followed by `<target> op= t`: the factory reads only
                    # its arguments, so where it is evaluated relative to the load of the target does not matter
                    if i + 1 < len(block) and isinstance(block[i + 1], ast.AugAssign) and isinstance(block[i + 1].value, ast.Name) and block[i + 1].value.id == name \
                            and _factory_call(expr) and not any(isinstance(n, ast.Name) and n.id == name for n in ast.walk(block[i + 1].target)):
                        block[i + 1].value = expr
                        del block[i]
                        return True
                    if not _side_effect_free(expr):
                        return False
                    reads = {n.id for n in ast.walk(expr) if isinstance(n, ast.Name)}
                    attr_reads = any(isinstance(n, (ast.Attribute, ast.Subscript)) for n in ast.walk(expr))
                    for j in range(i + 1, len(block)):
                        later = block[j]
                        uses = [n for n in ast.walk(later) if isinstance(n, ast.Name) and n.id == name and isinstance(n.ctx, ast.Load)]
                        rebinding = any(isinstance(n, ast.Name) and n.id in reads and isinstance(n.ctx, (ast.Store, ast.Del)) for n in ast.walk(later))
                        if uses:
                            # the use must not sit inside a loop or a nested function of `later` (evaluated more than once / later)
                            if any(isinstance(n, (ast.For, ast.While, ast.FunctionDef, ast.Lambda, ast.ListComp, ast.GeneratorExp, ast.SetComp, ast.DictComp)) and
                                   any(u is m for m in ast.walk(n) for u in uses) for n in ast.walk(later) if n is not later or isinstance(later, (ast.For, ast.While))):
                                return False
                            # anything evaluated before the use inside `later` that could change what expr reads?  keep it simple:
                            # allow only when `later` is a simple statement or an If/Return whose test/value holds the use
                            holder = later.test if isinstance(later, (ast.If,)) else getattr(later, "value", None)
                            if holder is None or not any(u is m for m in ast.walk(holder) for u in uses):
                                return False
                            if attr_reads and any(isinstance(n, ast.Call) for n in ast.walk(holder)) and False:
                                return False

                            class R(ast.NodeTransformer):
                                def visit_Name(self, n):
                                    if n is uses[0]:
                                        return ast.copy_location(copy.deepcopy(expr), n)
                                    return n

                            if isinstance(later, ast.If):
                                later.test = R().visit(later.test)
                            else:
                                later.value = R().visit(later.value)
                            del block[i]
                            if not block:
                                block.append(ast.Pass())
                            return True
                        if rebinding:
                            return False
                        if attr_reads and any(isinstance(n, ast.Call) or (isinstance(n, (ast.Assign, ast.AugAssign)) and
                                                                          any(not isinstance(t_, ast.Name) for t_ in (n.targets if isinstance(n, ast.Assign) else [n.target])))
                                              for n in ast.walk(later)):
                            # attribute/subscript reads may be affected by intervening calls or by stores into objects
                            # (binding another local cannot change what an attribute read yields)
                            return False
                    return False
    return False


def append_loops_to_comprehensions(tree):
    """L = []; for x in IT: L.append(E)   ->   L = [E for x in IT]      (also with a single `if c:` around the append)"""
    count = 0
    for node in ast.walk(tree):
        for field in ("body", "orelse", "finalbody"):
            block = getattr(node, field, None)
            if not isinstance(block, list):
                continue
            i = 0
            while i + 1 < len(block):
                a, b = block[i], block[i + 1]
                ok = isinstance(a, ast.Assign) and len(a.targets) == 1 and isinstance(a.targets[0], ast.Name) \
                    and ((isinstance(a.value, ast.List) and not a.value.elts) or (isinstance(a.value, ast.Call) and isinstance(a.value.func, ast.Name) and a.value.func.id == "list" and not a.value.args)) \
                    and isinstance(b, ast.For) and not b.orelse and len(b.body) == 1
                if ok:
                    name = a.targets[0].id
                    inner = b.body[0]
                    conds = []
                    if isinstance(inner, ast.If) and not inner.orelse and len(inner.body) == 1:
                        conds = [inner.test]
                        inner = inner.body[0]
                    is_append = isinstance(inner, ast.Expr) and isinstance(inner.value, ast.Call) and isinstance(inner.value.func, ast.Attribute) and inner.value.func.attr == "append" \
                        and isinstance(inner.value.func.value, ast.Name) and inner.value.func.value.id == name and len(inner.value.args) == 1 and not inner.value.keywords
                    uses_self = is_append and any(isinstance(n, ast.Name) and n.id == name for n in ast.walk(inner.value.args[0])) or any(isinstance(n, ast.Name) and n.id == name for c in conds for n in ast.walk(c)) \
                        or any(isinstance(n, ast.Name) and n.id == name for n in ast.walk(b.iter))
                    if is_append and not uses_self:
                        comp = ast.ListComp(elt=inner.value.args[0], generators=[ast.comprehension(target=b.target, iter=b.iter, ifs=conds, is_async=0)])
                        block[i] = ast.copy_location(ast.Assign(targets=[ast.Name(id=name, ctx=ast.Store())], value=comp, lineno=a.lineno), a)
                        del block[i + 1]
                        count += 1
                        continue
                i += 1
    if count:
        ast.fix_missing_locations(tree)
    return count


def _attr_chain_expr(node):
    """pure attribute chain rooted at a plain name: node.x1, self._path"""
    n = node
    depth = 0
    while isinstance(n, ast.Attribute):
        n = n.value
        depth += 1
    return depth >= 1 and isinstance(n, ast.Name)


def propagate_new_aliases(tree, table):
    """`t = obj.attr` where t is a local that did not exist on the pinned tree: later reads of t in the same statement list (until t
    is re-bound or obj / obj.attr is stored) are replaced by obj.attr.  Undoes `value = getattr(node, name)` after loop unrolling."""
    funcs, _ = function_table(tree)
    count = 0
    for q, fn in funcs.items():
        known = table.get(q.split("#")[0])
        if known is None:
            continue
        for node in ast.walk(fn):
            for field in ("body", "orelse", "finalbody"):
                block = getattr(node, field, None)
                if not isinstance(block, list):
                    continue
                i = 0
                tally = {}
                for o in block:
                    if isinstance(o, ast.Assign) and len(o.targets) == 1 and isinstance(o.targets[0], ast.Name) and _attr_chain_expr(o.value):
                        tally[o.targets[0].id] = tally.get(o.targets[0].id, 0) + 1
                while i < len(block):
                    st = block[i]
                    repeated = isinstance(st, ast.Assign) and len(st.targets) == 1 and isinstance(st.targets[0], ast.Name) and tally.get(st.targets[0].id, 0) >= 2
                    if isinstance(st, ast.Assign) and len(st.targets) == 1 and isinstance(st.targets[0], ast.Name) and repeated and "__" not in st.targets[0].id and _attr_chain_expr(st.value):
                        name = st.targets[0].id
                        chain = st.value
                        root = chain
                        while isinstance(root, ast.Attribute):
                            root = root.value
                        chain_src = ast.unparse(chain)
                        j = i + 1
                        replaced_all = True
                        while j < len(block):
                            later = block[j]
                            rebinds = any(isinstance(n, ast.Name) and n.id in (name, root.id) and isinstance(n.ctx, (ast.Store, ast.Del)) for n in ast.walk(later))
                            stores_chain = any(isinstance(n, ast.Attribute) and isinstance(n.ctx, (ast.Store, ast.Del)) and ast.unparse(n) == chain_src for n in ast.walk(later))
                            if rebinds or stores_chain:
                                # uses inside this statement are ambiguous: stop before it
                                if any(isinstance(n, ast.Name) and n.id == name and isinstance(n.ctx, ast.Load) for n in ast.walk(later)) and not (
                                        isinstance(later, ast.Assign) and len(later.targets) == 1 and isinstance(later.targets[0], ast.Name) and later.targets[0].id == name
                                        and not any(isinstance(n, ast.Name) and n.id == name for n in ast.walk(later.value))):
                                    replaced_all = False
                                break

                            class R(ast.NodeTransformer):
                                def visit_Name(self, n):
                                    if n.id == name and isinstance(n.ctx, ast.Load):
                                        return ast.copy_location(copy.deepcopy(chain), n)
                                    return n

                            block[j] = R().visit(later)
                            j += 1
                        if replaced_all:
                            del block[i]
                            count += 1
                            continue
                    i += 1
    if count:
        ast.fix_missing_locations(tree)
    return count


def monotone_lines(tree):
    """After inlining, statements copied from a helper carry the helper's line numbers.  Rules order statements by line, so the
    numbers are made non-decreasing in program order inside every function (a statement that would go backwards takes the line of
    its predecessor; sub-expressions follow their statement)."""
    funcs, _ = function_table(tree)

    def fix(stmts, last):
        for st in stmts:
            orig = getattr(st, "lineno", last)
            if orig < last:
                delta = last - orig
                for n in ast.walk(st):
                    if hasattr(n, "lineno"):
                        n.lineno += delta
                    if getattr(n, "end_lineno", None) is not None:
                        n.end_lineno += delta
            last = max(last, getattr(st, "lineno", last))
            for field in ("body", "orelse", "finalbody"):
                b = getattr(st, field, None)
                if isinstance(b, list) and b and isinstance(b[0], ast.stmt):
                    last = fix(b, last)
            if isinstance(st, ast.Try):
                for h in st.handlers:
                    last = fix(h.body, last)
        return last

    for fn in funcs.values():
        fix(fn.body, fn.lineno)


def normalise(tree):
    pinned = pinned_functions()
    if pinned is None:
        return tree, {"inlined": [], "kept": [], "note": "no pinned function table: helper inlining disabled"}
    from .localnames import restore as restore_local_names
    renamed = restore_local_names(tree)
    n1 = unroll_constant_loops(tree)
    inl = Inliner(tree, pinned)
    inl.run()
    n2 = unroll_constant_loops(tree) if inl.inlined else 0
    af = _AttrFold()
    af.visit(tree)
    nf = _NotFold()
    nf.module_strings = {n.targets[0].id for n in tree.body if isinstance(n, ast.Assign) and len(n.targets) == 1 and isinstance(n.targets[0], ast.Name)
                         and isinstance(n.value, ast.Constant) and isinstance(n.value.value, str)}
    nf.visit(tree)
    idx = index_loops_to_iteration(tree)
    sroa = scalar_replace_small_lists(tree)
    rc = _RangeComp()
    rc.visit(tree)
    ast.fix_missing_locations(tree)
    ast.fix_missing_locations(tree)
    if inl.inlined:
        monotone_lines(tree)
    aliases = propagate_new_aliases(tree, pinned_table())
    comps = append_loops_to_comprehensions(tree)
    temps = inline_new_temporaries(tree, pinned_table())
    return tree, {"inlined": inl.inlined, "kept": inl.kept, "removed": getattr(inl, "removed", []), "unrolled": n1 + n2, "getattr_folded": af.count, "negations_folded": nf.count, "index_loops": idx, "small_lists_scalarised": sroa, "range_comprehensions": rc.count, "append_loops": comps, "aliases_propagated": aliases, "temporaries_inlined": temps,
                  "locals_renamed_back": ["%s: %s -> %s (%.2f)" % r for r in renamed]}


def unroll(tree, model_tables):
    return unroll_constant_loops(tree)


def expand_helpers(model, cls_name, stmts, depth=2, skip=lambda name: False):
    """Flow-insensitive call-site expansion: for rules that only COLLECT facts (which operations are called with which kinds of
    arguments), a call of a helper that is not itself one of the collected operations is followed by the helper's body with the
    arguments substituted for the parameters (bound methods passed as arguments included).  Returns the extra statements."""
    out = []
    if depth <= 0:
        return out
    for top in stmts:
        for c in ast.walk(top):
            if not isinstance(c, ast.Call):
                continue
            f = c.func
            target = None
            args = list(c.args)
            if isinstance(f, ast.Name) and f.id in model.functions:
                target = model.functions[f.id]
            elif isinstance(f, ast.Attribute) and isinstance(f.value, ast.Name):
                owner = cls_name if f.value.id in ("self", "cls") else (f.value.id if f.value.id in model.classes else None)
                if owner is not None and not skip(f.attr):
                    try:
                        target = model.func("%s.%s" % (owner, f.attr))
                    except Exception:
                        target = None
                    if target is not None and "staticmethod" not in getattr(target, "_deco", []) and f.value.id in ("self",):
                        args = [f.value] + args
            if target is None or skip(getattr(target, "name", "")):
                continue
            params = [a.arg for a in target.args.args]
            if len(args) > len(params) or any(isinstance(a, ast.Starred) for a in args):
                continue
            mapping = dict(zip(params, args))
            for k in c.keywords:
                if k.arg in params:
                    mapping[k.arg] = k.value
            from .model import fresh
            sub = _Subst({k: fresh(v) for k, v in mapping.items()}, {})
            body = [sub.visit(fresh(s)) for s in target.body if not (isinstance(s, ast.Expr) and isinstance(s.value, ast.Constant))]
            for s in body:
                ast.fix_missing_locations(s)
            out.extend(body)
            out.extend(expand_helpers(model, cls_name, body, depth - 1, skip))
    return out
