"""bin/check entry point: run the static rules of one property against /repo's current source."""
import importlib
import os
import sys
import time
import traceback

from .model import AnalysisError, Model
from .report import Ctx, finish


def run(prop, tier):
    t0 = time.time()
    try:
        mod = importlib.import_module("sva.rules.%s" % prop.lower())
    except ImportError:
        print("ANALYSIS-ERROR property=%s no rule module" % prop)
        return 2
    try:
        model = Model()
        ctx = Ctx(prop, tier, model)
        from .report import load_known
        known = {e["key"] for e in load_known() if e.get("property") == prop and e.get("status") == "known"}
        incomplete = None
        try:
            mod.run(ctx)
        except AnalysisError as e:
            # a violation that has already been established stands, whatever the rest of the analysis could not interpret;
            # without one the run is analysis-broken (exit 2) as before
            if not any(f.key not in known for f in ctx.findings):
                raise
            incomplete = str(e)
            ctx.note("analysis incomplete after the finding(s) below: %s" % incomplete)
            print("ANALYSIS-INCOMPLETE property=%s %s" % (prop, incomplete))
        floors = getattr(mod, "FLOORS", {})
        if not any(f.key not in known for f in ctx.findings):
            # a run that already reports an unlisted finding is a violation; the floors guard against vacuous PASSES only
            for rid, n in floors.items():
                ctx.floor(rid, ctx.rule_instances.get(rid, 0), n)
        extra = {}
        if tier == "thorough":
            # deeper rules of the property (derived identities, whole-class sweeps) ...
            if hasattr(mod, "thorough"):
                mod.thorough(ctx)
            # ... and the arming report: how many rule instances are shown to fire on scratch mutants
            from . import arming

            extra["arming"] = arming.report(ctx)
            extra["arming_note"] = ("variants are edits of scratch copies of the module under a temporary directory (removed afterwards); "
                                    "the report is informational and never changes this check's exit status")
        return finish(
            ctx,
            getattr(mod, "LEVEL_NOTE", ""),
            getattr(mod, "ASSUMPTIONS", []),
            t0,
            getattr(mod, "EXPLANATION", ""),
            exhaustive=getattr(mod, "EXHAUSTIVE", False),
            extra=extra,
        )
    except AnalysisError as e:
        print("ANALYSIS-ERROR property=%s %s" % (prop, e))
        return 2
    except Exception:
        traceback.print_exc()
        print("ANALYSIS-ERROR property=%s checker crashed (see traceback)" % prop)
        return 2


def main(argv):
    if len(argv) < 2:
        print("usage: check <id> [quick|thorough]")
        return 2
    prop = argv[1].upper()
    tier = argv[2] if len(argv) > 2 else os.environ.get("VERIF_TIER", "quick")
    if tier not in ("quick", "thorough"):
        tier = "quick"
    return run(prop, tier)


if __name__ == "__main__":
    sys.exit(main(sys.argv))
