"""C01 - path data is interpreted exactly as the SVG path grammar prescribes."""
import ast

from .. import builders as BLD
from .. import pathlex as PL
from .. import rx
from ..algebra import RF, Alg, Uninterpreted, atom
from ..model import AnalysisError, attr_chain, call_name, enclosing, parent, stmts_in

EXPLANATION = (
    "Static rules over the path lexer and the Path builder (no execution). R01.1 command table: each of the 20 command "
    "letters has a branch whose operand reads (kinds and order), builder callback, argument order, relative flag and "
    "implicit repetition equal SVG 2 section 9.3 (M: coordinate then implicit linetos; L,T: 1 coordinate; H,V: 1 number; "
    "C: 3; S,Q: 2; A: number number number flag flag coordinate; Z: none, operands forbidden); the COMMAND token class "
    "equals the handled letters; lower case reads relative coordinates and passes relative=True. R01.3: the relative "
    "reader adds the current point component-wise and falls back to absolute only without a current point. R01.4 state "
    "sources: every builder takes each segment's start from current_point, re-read per repetition; close targets come "
    "from z_point; current_point is the end of the last stored segment; z_point is the end of the last Move (reverse "
    "scan, first hit) else of the first segment; H/V keep the untouched coordinate of the current point. R01.5 smooth "
    "degree: the reflected control handed to the curve constructor is a reflection only under an isinstance guard of the "
    "same curve class (quadratic: control; cubic: control2), otherwise the current point. R01.6 connectivity: append "
    "links start to the previous end and a close to the last move. R01.7 token languages: FLOAT equals the CSS/SVG 2 "
    "number grammar (DFA equivalence), FLAG is 0|1, COMMAWSP is one or more of comma/XML white space, COMMAND is tried "
    "before SKIP. Not decided: that the resulting absolute coordinates are right for every string (values)."
    " R01.8 (segment-completing close): in every builder block `if <operand> in ('z', 'Z')` the segment that is"
    ' built keeps the operands read before, and the replaced operand and every later point are the close point'
    ' (one name bound to the accessor/helper that resolves the subpath start); a block without a constructor of'
    " its own must re-bind the operand and it must be the segment's last point."
)
TECHNIQUE = (
    "static analysis (no execution): lexer branch summaries by value tracking over the AST; builder callbacks followed per finite scenario (relative?, which operand is 'z', previous segment class) with segment-sequence extraction; token regexes compared as automata (language equivalence)"
)
ASSUMPTIONS = [
    "SVG 2 section 9.3 / CSS number grammar are the oracles (transcribed in this module).",
    "Python's re module matches alternatives left to right and quantifiers greedily (language facts are derived from pattern strings).",
]
EXHAUSTIVE = True
FLOORS = {"R01.1": 60, "R01.4": 20, "R01.5": 2, "R01.7": 5, "R01.8": 8}

SPEC = {
    "L": (["coord"], "line"),
    "T": (["coord"], "smooth_quad"),
    "H": (["number"], "horizontal"),
    "V": (["number"], "vertical"),
    "C": (["coord"] * 3, "cubic"),
    "S": (["coord"] * 2, "smooth_cubic"),
    "Q": (["coord"] * 2, "quad"),
    "A": (["number", "number", "number", "flag", "flag", "coord"], "arc"),
}
SEGCLASS = {"move": "Move", "line": "Line", "vertical": "Line", "horizontal": "Line", "smooth_quad": "QuadraticBezier", "quad": "QuadraticBezier",
            "smooth_cubic": "CubicBezier", "cubic": "CubicBezier", "arc": "Arc", "closed": "Close"}


def run(ctx):
    ctx.rule("R01.1", "command table: reads, builder, argument order, relative, repetition")
    ctx.rule("R01.3", "relative base")
    ctx.rule("R01.4", "interpreter state sources")
    ctx.rule("R01.5", "smooth reflection only from a curve of the same degree")
    ctx.rule("R01.6", "connectivity")
    ctx.rule("R01.7", "token languages")
    ctx.rule("R01.8", "a segment-completing z supplies the subpath start for every coordinate pair it replaces")
    completing_close(ctx)
    table(ctx)
    rcoord(ctx)
    state_sources(ctx)
    smooth_degree(ctx)
    connectivity(ctx)
    tokens(ctx)


# --------------------------------------------------------------------------- R01.8
def completing_close(ctx):
    """In a builder, `if <operand> in ("z", "Z"):` is the segment-completing close.  The segment it leads to is built from the
    operands read so far, and the replaced operand AND every point after it are the close point (one name, bound to the
    accessor / helper that resolves the subpath start).  The reference for the slot order is the builder's ordinary
    constructor call (the last one in the function)."""
    cls = ctx.m.cls("Path", "R01.8")
    seg_classes = {"Line", "QuadraticBezier", "CubicBezier", "Arc", "Move", "Close"}
    n = 0
    for bname in ("line", "quad", "smooth_quad", "cubic", "smooth_cubic", "arc"):
        fn = ctx.fn("Path.%s" % bname, "R01.8")
        ctors = [c for c in ast.walk(fn) if isinstance(c, ast.Call) and isinstance(c.func, ast.Name) and c.func.id in seg_classes]
        ctx.need(ctors, "R01.8", "Path.%s: segment constructor not found" % bname)
        main = max(ctors, key=lambda c: (c.lineno, c.col_offset))
        main_names = [a.id if isinstance(a, ast.Name) else None for a in main.args]
        for s in ast.walk(fn):
            if not (isinstance(s, ast.If) and isinstance(s.test, ast.Compare) and len(s.test.ops) == 1 and isinstance(s.test.ops[0], ast.In) and isinstance(s.test.left, ast.Name)):
                continue
            c = s.test.comparators[0]
            if not (isinstance(c, (ast.Tuple, ast.List, ast.Set)) and {x.value for x in c.elts if isinstance(x, ast.Constant)} == {"z", "Z"}):
                continue
            var = s.test.left.id
            if var not in main_names:
                continue
            k = main_names.index(var)
            res = [a for a in s.body if isinstance(a, ast.Assign) and len(a.targets) == 1 and isinstance(a.targets[0], ast.Name) and
                   ((isinstance(a.value, ast.Attribute) and isinstance(a.value.value, ast.Name) and a.value.value.id == "self" and a.value.attr in cls.getters) or
                    (isinstance(a.value, ast.Call) and isinstance(a.value.func, ast.Attribute) and isinstance(a.value.func.value, ast.Name) and a.value.func.value.id == "self"
                     and a.value.func.attr in cls.methods and not a.value.args))]
            ctx.need(len(res) == 1, "R01.8", "Path.%s[%s]: resolution of the close point not found" % (bname, var))
            z = res[0].targets[0].id
            own = [c_ for st in s.body for c_ in ast.walk(st) if isinstance(c_, ast.Call) and isinstance(c_.func, ast.Name) and c_.func.id in seg_classes]
            n += 1
            cons = "Path.%s[z in place of %s]" % (bname, var)
            # point slots: the positional arguments that are plain names in the ordinary call, up to the end point (an arc's
            # radii/rotation/flags between start and end are not points but are read before the end, so they stay)
            if own:
                call = own[0]
                got = [a.id if isinstance(a, ast.Name) else ast.unparse(a) for a in call.args]
                want = main_names[:k] + [z] * (len(main_names) - k)
                ok = call.func.id == main.func.id and got == want
                ctx.ob("R01.8", cons, ok, "builds %s(%s); wanted (%s)" % (call.func.id, ", ".join(map(str, got)), ", ".join(map(str, want))), call.lineno,
                       "the close point stands for the operand it replaces and for every later point of the segment; earlier operands are kept")
            else:
                # no segment of its own: the ordinary constructor below is reached with the operand re-bound to the close point;
                # that is only complete when the operand is the segment's last point
                ok = z == var and k == len(main_names) - 1 and not any(isinstance(x, (ast.Return, ast.Continue, ast.Break, ast.Raise)) for st in s.body for x in ast.walk(st))
                ctx.ob("R01.8", cons, ok, "%s = %s, slot %d of %d, falls through to %s(%s)" % (z, ast.unparse(res[0].value), k + 1, len(main_names), main.func.id, ", ".join(map(str, main_names))),
                       s.lineno, "the operand must be re-bound to the close point and be the last point of the segment")
    ctx.need(n >= 8, "R01.8", "fewer segment-completing close blocks than expected (%d)" % n)


# --------------------------------------------------------------------------- R01.1
def table(ctx):
    fn, cmd_var, branches, dup, end_returns = PL.lexer_branches(ctx, "R01.1")
    toks = PL.token_patterns(ctx, "R01.1")
    cmd_pat = dict(toks["svg_parse"]).get("COMMAND")
    ctx.need(cmd_pat is not None, "R01.1", "COMMAND token not found")
    letters = sorted(ch for ch in rx.ALPHABET if rx.Lang(cmd_pat).accepts(ch))
    want_letters = sorted("MmZzLlHhVvCcSsQqTtAa")
    ctx.ob("R01.1", "COMMAND token class", letters == want_letters, "".join(letters), 0, "the command token must be exactly the 20 path command letters")
    for k in dup:
        ctx.ob("R01.1", "SVGLexicalParser.parse[%s]#dup" % k, False, "", fn.lineno, "duplicate branch is shadowed")
    for letter in want_letters:
        cons = "SVGLexicalParser.parse[%s]" % letter
        b = branches.get(letter)
        if b is None:
            ctx.ob("R01.1", cons, False, "no branch", fn.lineno, "command letter has no handler")
            continue
        if b.unknown:
            raise AnalysisError("R01.1", "%s: idiom not recognised: %s" % (cons, b.unknown[:3]))
        up = letter.upper()
        rel = letter.islower()
        coord_reader = "rcoord" if rel else "coord"
        if up == "Z":
            builds = b.builds()
            forbids = any(e[0] == "forbid-more" for e in b.events)
            ok = len(builds) == 1 and builds[0][1] == "closed" and builds[0][2] == [] and not b.reads()
            relkw = builds[0][3].get("relative") if builds else None
            ctx.ob("R01.1", cons + ":closed", ok, str(builds), b.line, "close takes no operands and appends a close segment")
            ctx.ob("R01.1", cons + ":no operands may follow", forbids, "", b.line, "numbers directly after a close are an error")
            ctx.ob("R01.1", cons + ":relative", relkw in ("%s.islower()" % cmd_var, str(rel)), str(relkw), b.line, "case of the close command is recorded")
            resets = any(e[0] == "reset-close" for e in b.events)
            ctx.ob("R01.1", cons + ":inline close consumed", resets, "", b.line, "a pending segment-completing close is cleared once the close is processed")
            continue
        if up == "M":
            # first: require-more, read coord -> move ; then while-more: read coord -> line
            ev = [e for e in b.events if e[0] in ("read", "build", "loop", "endloop", "require-more")]
            shape = [(e[0], e[1] if e[0] != "read" else e[2]) for e in ev]
            want = [("require-more", None), ("read", coord_reader), ("build", "move"), ("loop", "while-more"), ("read", coord_reader), ("build", "line"), ("endloop", "while-more")]
            got = [(a, (bb if a != "require-more" else None)) for a, bb in [(s[0], s[1] if len(s) > 1 else None) for s in shape]]
            got = []
            for e in ev:
                if e[0] == "require-more":
                    got.append(("require-more", None))
                elif e[0] == "read":
                    got.append(("read", e[2]))
                elif e[0] == "build":
                    got.append(("build", e[1]))
                else:
                    got.append((e[0], e[1]))
            ctx.ob("R01.1", cons + ":shape", got == want, str(got), b.line,
                   "moveto: one coordinate pair to move, every further pair an implicit lineto")
            for e in b.builds():
                reads_before = [r[1] for r in b.events if r[0] == "read" and r[3] <= e[4]]
                ctx.ob("R01.1", cons + ":%s args" % e[1], len(e[2]) == 1 and reads_before and e[2][0] == reads_before[-1] and e[3].get("relative") == str(rel),
                       "%s %s" % (e[2], e[3]), e[4], "builder receives the coordinate just read and the command's relative flag")
            continue
        want_reads, want_builder = SPEC[up]
        want_reads = [coord_reader if r == "coord" else r for r in want_reads]
        loops = [e for e in b.events if e[0] == "loop"]
        builds = b.builds()
        reads = b.reads()
        ok_loop = len(loops) == 1 and b.events[0][0] == "loop" and b.events[-1][0] == "endloop"
        if ok_loop and loops[0][1] == "while-true":
            # the loop must continue exactly when another operand follows
            ok_loop = any(e[0] == "exit-unless-more" for e in b.events) and not any(e[0] == "break" for e in b.events)
        ctx.ob("R01.1", cons + ":repetition", ok_loop, "loops %s" % [l[1] for l in loops], b.line,
               "operands may repeat without repeating the letter: the whole read/build sequence must sit in one loop")
        ctx.ob("R01.1", cons + ":reads", [r for _, r in reads] == want_reads, "%s, specified %s" % ([r for _, r in reads], want_reads), b.line,
               "operand kinds/order differ from the path grammar")
        okb = len(builds) == 1 and builds[0][1] == want_builder
        ctx.ob("R01.1", cons + ":builder", okb, str([x[1] for x in builds]), b.line, "command drives the wrong segment builder")
        if okb:
            e = builds[0]
            ctx.ob("R01.1", cons + ":argument order", e[2] == [v for v, _ in reads], "%s vs reads %s" % (e[2], [v for v, _ in reads]), e[4],
                   "operands must reach the builder in the order they were read")
            ctx.ob("R01.1", cons + ":relative", e[3].get("relative") == str(rel) and set(e[3]) == {"relative"}, str(e[3]), e[4],
                   "lower-case commands are relative, upper-case absolute")
            # builds must come after all reads of the iteration
            last_read = max(r[3] for r in b.events if r[0] == "read")
            ctx.ob("R01.1", cons + ":build after reads", e[4] > last_read, "", e[4], "builder called before all operands were read")
    extra = sorted(set(branches) - set(want_letters))
    for k in extra:
        ctx.ob("R01.1", "SVGLexicalParser.parse[%s]#extra" % k, False, "", fn.lineno, "branch for a letter the tokenizer cannot produce")


# --------------------------------------------------------------------------- R01.3
def rcoord(ctx):
    fn = ctx.fn("SVGLexicalParser._rcoord", "R01.3")
    sc = PL.reader_scenarios(ctx, "R01.3")["rcoord"]
    ctx.ob("R01.3", "_rcoord[no current point]", sc.get((False, True)) == ("same",), str(sc.get((False, True))), fn.lineno,
           "a leading relative command is absolute: without a current point the offset is the position")
    got = sc.get((False, False))
    ok = got is not None and got[0] == "pair" and got[1][0] == atom("C0") + atom("CUR.x") and got[1][1] == atom("C1") + atom("CUR.y")
    ctx.ob("R01.3", "_rcoord[base]", ok, str(got), fn.lineno, "relative coordinates are offsets from the current point, component-wise")
    others = sorted({".".join(attr_chain(n)) for n in ast.walk(fn) if isinstance(n, ast.Attribute) and attr_chain(n) and attr_chain(n)[0] == "self" and len(attr_chain(n)) >= 3})
    ctx.ob("R01.3", "_rcoord[reads only the path's current point]", set(others) <= {"self.parser.current_point"}, str(others), fn.lineno, "the base of a relative coordinate is the current point and nothing else")


# --------------------------------------------------------------------------- R01.4
def state_sources(ctx):
    cls = ctx.m.cls("Path", "R01.4")
    # accessors
    cp = cls.getters.get("current_point")
    ctx.need(cp is not None, "R01.4", "Path.current_point not found")
    from ..flow import Aliases
    al = Aliases(cp)

    def leaves(e):
        if isinstance(e, ast.IfExp):
            return leaves(e.body) + leaves(e.orelse)
        return [e]

    vals = [v for r in ast.walk(cp) if isinstance(r, ast.Return) and r.value is not None for v in leaves(r.value)]
    nonnull = [v for v in vals if not (isinstance(v, ast.Constant) and v.value is None)]

    def is_last_end(v):
        if isinstance(v, ast.Call) and call_name(v) in ("Point", "copy") and len(v.args) == 1:
            v = v.args[0]
        return al.canon(v) == "self._segments[-1].end"

    ok = bool(nonnull) and all(is_last_end(v) for v in nonnull)
    others = [n for n in ast.walk(cp) if isinstance(n, ast.Attribute) and isinstance(n.value, ast.Name) and n.value.id == "self" and n.attr != "_segments"]
    ctx.ob("R01.4", "Path.current_point", ok and not others, "; ".join(ast.unparse(v) for v in nonnull)[:120], cp.lineno,
           "the current point is the end of the last stored segment (and nothing else)")
    zp = cls.getters.get("z_point")
    ctx.need(zp is not None, "R01.4", "Path.z_point not found")
    loops = [s for s in zp.body if isinstance(s, ast.For)]
    ok = False
    detail = ""
    if len(loops) == 1:
        it = ast.unparse(loops[0].iter)
        detail = it
        rev = it in ("reversed(self._segments)", "self._segments[::-1]")
        body = loops[0].body
        hit = [s for s in body if isinstance(s, ast.If) and "isinstance" in ast.unparse(s.test) and "Move" in ast.unparse(s.test)]
        first_hit = bool(hit) and any(isinstance(x, (ast.Break, ast.Return)) for x in hit[0].body) and any(
            isinstance(x, (ast.Assign, ast.Return)) and ".end" in ast.unparse(x.value) for x in hit[0].body if isinstance(x, (ast.Assign, ast.Return)) and x.value is not None)
        ok = rev and first_hit
    ctx.ob("R01.4", "Path.z_point[last move]", ok, detail, zp.lineno, "the close target is the end of the LAST move: scan backwards and stop at the first hit")
    fb = "self._segments[0].end" in ast.unparse(zp)
    ctx.ob("R01.4", "Path.z_point[no move]", fb, "", zp.lineno, "without a move the close target is the end of the first segment")
    # helper accessors that wrap z_point
    zwrap = {"z_point"}
    for name, f in cls.methods.items():
        if name.startswith("_") and any(ast.unparse(n) == "self.z_point" for n in ast.walk(f)) and len(f.args.args) == 1 and name not in ("_validate_close",):
            rets = [s for s in ast.walk(f) if isinstance(s, ast.Return) and s.value is not None]
            if rets and all(isinstance(r.value, ast.Name) for r in rets):
                zwrap.add(name)
    zacc = tuple(sorted(zwrap))
    for bname, segcls in SEGCLASS.items():
        if bname == "closed":
            continue
        fn = ctx.fn("Path.%s" % bname, "R01.4")
        base = BLD.summarise(ctx, "R01.4", bname, BLD.Scenario(), zaccessors=zacc)
        ctx.need([g for g in base.segs if g.kind == segcls], "R01.4", "Path.%s: %s(...) constructor call not found" % (bname, segcls))
        # the current point is read inside the repetition (a value read once before the loop is stale from the second group on)
        reads = [n for n in ast.walk(fn) if attr_chain(n) == ["self", "current_point"]]
        in_loop = base.loop is None or all(any(n is x for x in ast.walk(base.loop)) for n in reads)
        scen = [BLD.Scenario(rel=r, z=z, last=l) for r in (False, True) for z in [None] + sorted(base.ztests) for l in (None, segcls)]
        bad = []
        for sc in scen:
            sm = BLD.summarise(ctx, "R01.4", bname, sc, zaccessors=zacc)
            for g in sm.segs:
                if not g.args or g.args[0] != ("cur",):
                    bad.append("%r: %r" % (sc, g))
        ctx.ob("R01.4", "Path.%s[start of %s]" % (bname, segcls), not bad and in_loop and bool(reads), "; ".join(bad)[:200] or "starts at self.current_point in %d scenarios" % len(scen), fn.lineno,
               "each segment starts at the current point, re-read for every repetition")
        # z replacements come from z_point (directly or through a wrapper): with z in slot k the slot (and the ones after it) is the subpath start
        for z in sorted(base.ztests):
            sm = BLD.summarise(ctx, "R01.4", bname, BLD.Scenario(z=z), zaccessors=zacc)
            vals = [a for g in sm.segs for a in g.args[1:] if isinstance(a, tuple) and a and a[0] in ("op", "zpoint", "opaque")]
            ok = bool(sm.segs) and any(a[0] == "zpoint" for a in vals) and not any(a == ("op", z) for a in vals) and not any(a[0] == "opaque" for a in vals)
            ctx.ob("R01.4", "Path.%s[operand %d <- z]" % (bname, z), ok, repr(sm.segs)[:160], fn.lineno, "a segment-completing close resolves to the subpath start (z_point)")
    closed = ctx.fn("Path.closed", "R01.4")
    cc = [c for c in ast.walk(closed) if call_name(c) == "Close"]
    if cc:
        from ..flow import Aliases as _Al
        alc = _Al(closed)
        tgt = alc.canon(cc[0].args[1]) if len(cc[0].args) > 1 else ""
        ctx.ob("R01.4", "Path.closed[target]", tgt == "self.z_point", tgt, closed.lineno, "a close returns to the start of its own subpath")
        src_ = alc.canon(cc[0].args[0]) if cc[0].args else ""
        ctx.ob("R01.4", "Path.closed[start]", src_ == "self.current_point", src_, closed.lineno, "a close starts at the current point", sample=False)
    # H / V end point formulas
    cx, cy, V = atom("cur_x"), atom("cur_y"), atom("op0")
    for bname, own in (("horizontal", "x"), ("vertical", "y")):
        fn = ctx.fn("Path.%s" % bname, "R01.4")
        for is_rel in (False, True):
            sm = BLD.summarise(ctx, "R01.4", bname, BLD.Scenario(rel=is_rel), zaccessors=zacc)
            ctx.need(len(sm.segs) == 1 and sm.segs[0].kind == "Line" and len(sm.segs[0].args) >= 2, "R01.4", "Path.%s: one Line(...) per operand expected, found %s" % (bname, sm.segs))
            end = sm.segs[0].args[1]
            if own == "x":
                want = [cx + V if is_rel else V, cy]
            else:
                want = [cx, cy + V if is_rel else V]
            ok = isinstance(end, list) and len(end) == 2 and end[0] == want[0] and end[1] == want[1]
            ctx.ob("R01.4", "Path.%s[%s end]" % (bname, "relative" if is_rel else "absolute"), ok,
                   "Point(%s)" % (", ".join(str(e) for e in end) if isinstance(end, list) else end,), fn.lineno, "H/V change one coordinate and keep the other coordinate of the current point")
            kw = sm.segs[0].kw.get("relative")
            okf = isinstance(kw, RF) and (kw == atom("relative") or (kw.is_const() and bool(kw.constval()) == is_rel))
            ctx.ob("R01.4", "Path.%s[%s flag]" % (bname, "relative" if is_rel else "absolute"), okf, str(kw), fn.lineno, "")


def _ev_idx(node, var):
    class T(ast.NodeTransformer):
        def visit_Subscript(self, n):
            if isinstance(n.value, ast.Name) and n.value.id == var:
                return ast.Name("V", ast.Load())
            return n

    from ..model import fresh

    return Alg().ev(T().visit(fresh(node)))


def def_of(fn, arg, use):
    """The single assignment statement defining name `arg` that textually precedes `use` most closely."""
    if not isinstance(arg, ast.Name):
        return None
    best = None
    for s in ast.walk(fn):
        if isinstance(s, ast.Assign) and any(isinstance(t, ast.Name) and t.id == arg.id for t in s.targets) and s.lineno <= use.lineno:
            if best is None or s.lineno > best.lineno:
                best = s
    return best


# --------------------------------------------------------------------------- R01.5
def reflections(ctx, fn, cls_name, depth=0):
    """All reflection computations reachable from fn (through self.<property/method> reads): (classes guarding it, field reflected)."""
    out = []
    cls = ctx.m.cls(cls_name)
    for n in ast.walk(fn):
        if isinstance(n, ast.Call) and isinstance(n.func, ast.Attribute) and n.func.attr == "reflected_across":
            guards = set()
            p = n
            while p is not None and p is not fn:
                q = parent(p)
                if isinstance(q, ast.If) and any(p is s or any(p is x for x in ast.walk(s)) for s in q.body):
                    for c in ast.walk(q.test):
                        if isinstance(c, ast.Call) and isinstance(c.func, ast.Name) and c.func.id == "isinstance":
                            t = c.args[1]
                            for e in (t.elts if isinstance(t, ast.Tuple) else [t]):
                                guards.add(ast.unparse(e))
                p = q
            recv = n.func.value
            fld = None
            if isinstance(recv, ast.Attribute):
                fld = recv.attr
            elif isinstance(recv, ast.Name):
                d = def_of(fn, recv, n)
                if d is not None and isinstance(d.value, ast.Attribute):
                    fld = d.value.attr
            out.append((frozenset(guards), fld, n.lineno))
    if depth < 2:
        for n in ast.walk(fn):
            if isinstance(n, ast.Attribute) and isinstance(n.value, ast.Name) and n.value.id == "self":
                tgt = None
                if n.attr in cls.getters:
                    tgt = cls.getters[n.attr]
                elif n.attr in cls.methods and isinstance(parent(n), ast.Call) and n.attr.startswith("_"):
                    tgt = cls.methods[n.attr]
                if tgt is not None and tgt is not fn and n.attr not in ("current_point", "z_point"):
                    out.extend(reflections(ctx, tgt, cls_name, depth + 1))
    return out


def smooth_degree(ctx):
    kinds = [None, "Move", "Line", "Close", "Arc", "QuadraticBezier", "CubicBezier"]
    for bname, segcls, fld in (("smooth_quad", "QuadraticBezier", "control"), ("smooth_cubic", "CubicBezier", "control2")):
        fn = ctx.fn("Path.%s" % bname, "R01.5")
        bad = []
        own = False
        for last in kinds:
            sm = BLD.summarise(ctx, "R01.5", bname, BLD.Scenario(last=last))
            segs = [g for g in sm.segs if g.kind == segcls]
            ctx.need(segs and all(len(g.args) >= 2 for g in segs), "R01.5", "Path.%s: no %s appended after %s" % (bname, segcls, last))
            for g in segs:
                c1 = g.args[1]
                if last == segcls:
                    if c1 == ("reflect", fld):
                        own = True
                    elif isinstance(c1, tuple) and c1 and c1[0] == "reflect":
                        bad.append("reflects field %s, expected %s (line %d)" % (c1[1], fld, g.node.lineno))
                    else:
                        bad.append("no reflection after a %s: control is %s (line %d)" % (last, c1, g.node.lineno))
                else:
                    if isinstance(c1, tuple) and c1 and c1[0] == "reflect":
                        bad.append("reflects after a %s (line %d)" % (last, g.node.lineno))
                    elif c1 != ("cur",):
                        bad.append("after %s the control point is %s, not the current point (line %d)" % (last, c1, g.node.lineno))
        ctx.ob("R01.5", "Path.%s" % bname, not bad and own, "; ".join(sorted(set(bad))) or "reflection only after %s" % segcls, fn.lineno,
               "a smooth command reflects the previous control point only when the previous command is a curve of its own degree; "
               "otherwise the control point coincides with the current point")


# --------------------------------------------------------------------------- R01.6
def connectivity(ctx):
    from ..flow import Aliases, Taint

    ap = ctx.fn("Path.append", "R01.6")
    val = ap.args.args[1].arg
    grows = [c for c in ast.walk(ap) if isinstance(c, ast.Call) and isinstance(c.func, ast.Attribute) and c.func.attr == "append" and attr_chain(c.func.value) == ["self", "_segments"]
             and c.args and isinstance(c.args[0], ast.Name) and c.args[0].id == val]
    vcs = [c for c in ast.walk(ap) if isinstance(c, ast.Call) and attr_chain(c.func) == ["self", "_validate_connection"] and c.args]
    # the index handed to the validator is the position of the last OLD segment: len(self._segments) - 1 taken before the append
    idx_ok = False
    for c in vcs:
        t = Taint(ap, lambda n: isinstance(n, ast.Call) and call_name(n) == "len" and n.args and attr_chain(n.args[0]) == ["self", "_segments"], through_containers=False)
        idx_ok = idx_ok or t.derived(c.args[0])
    ctx.ob("R01.6", "Path.append[links start]", bool(grows) and bool(vcs) and idx_ok, "", ap.lineno, "an appended segment must be linked to the previous end")
    ok = any(isinstance(x, ast.If) and isinstance(x.test, ast.Call) and call_name(x.test) == "isinstance" and len(x.test.args) == 2 and isinstance(x.test.args[1], ast.Name) and x.test.args[1].id == "Close"
             and any(isinstance(c, ast.Call) and attr_chain(c.func) == ["self", "_validate_close"] for y in x.body for c in ast.walk(y)) for x in ast.walk(ap))
    ctx.ob("R01.6", "Path.append[links close]", ok, "", ap.lineno, "an appended close must be linked to the last move")
    vc = ctx.fn("Path._validate_connection", "R01.6")
    al = Aliases(vc)
    idx = vc.args.args[1].arg
    FIRST, SECOND = "self._segments[%s]" % idx, "self._segments[%s+1]" % idx
    stores = []
    for x in ast.walk(vc):
        if isinstance(x, ast.Assign) and isinstance(x.targets[0], ast.Attribute):
            stores.append((al.canon(x.targets[0]), al.canon(x.value)))
    want = ("%s.start" % SECOND, "Point(%s.end)" % FIRST)
    ctx.ob("R01.6", "Path._validate_connection", want in stores or ("%s.start" % SECOND, "copy(%s.end)" % FIRST) in stores, "; ".join("%s=%s" % p_ for p_ in stores)[:200], vc.lineno,
           "the later segment's start becomes (a copy of) the earlier segment's end")
    vcl = ctx.fn("Path._validate_close", "R01.6")
    loops = [x for x in ast.walk(vcl) if isinstance(x, ast.For)]
    ok = False
    if len(loops) == 1 and isinstance(loops[0].iter, ast.Call):
        it = loops[0].iter
        back = False
        if call_name(it) == "range" and len(it.args) == 3:
            step = it.args[2]
            back = isinstance(step, ast.UnaryOp) and isinstance(step.op, ast.USub) and isinstance(step.operand, ast.Constant) and step.operand.value == 1 \
                and isinstance(it.args[0], ast.Name) and it.args[0].id == vcl.args.args[1].arg
        if call_name(it) == "reversed":
            back = True
        hit = any(isinstance(c, ast.Call) and call_name(c) == "isinstance" and len(c.args) == 2 and isinstance(c.args[1], ast.Name) and c.args[1].id == "Move" for c in ast.walk(loops[0]))
        leaves = any(isinstance(n, (ast.Return, ast.Break)) for n in ast.walk(loops[0]))
        ok = back and hit and leaves
    ctx.ob("R01.6", "Path._validate_close", ok, "", vcl.lineno, "a close is linked to the nearest preceding move")
    for bname in SEGCLASS:
        fn = ctx.fn("Path.%s" % bname, "R01.6")
        ok = any(isinstance(c, ast.Call) and attr_chain(c.func) == ["self", "append"] for c in ast.walk(fn))
        ctx.ob("R01.6", "Path.%s[appends]" % bname, ok, "", fn.lineno, "every builder stores its segment through append (which validates connections)")


# --------------------------------------------------------------------------- R01.7
def tokens(ctx):
    toks = PL.token_patterns(ctx, "R01.7")
    num = dict(toks["num_parse"])
    svg = dict(toks["svg_parse"])
    flg = dict(toks["flag_parse"])
    ref_number = r"[+-]?([0-9]*\.)?[0-9]+([eE][+-]?[0-9]+)?"
    ok, w = rx.equivalent(rx.Lang(num["FLOAT"]), rx.Lang(ref_number))
    ctx.ob("R01.7", "FLOAT token language", ok, "distinguishing string %r" % w if not ok else "equivalent to the CSS number grammar", 0,
           "the number token must be exactly the SVG 2 / CSS number grammar (sign, leading dot, exponent)")
    ok, w = rx.equivalent(rx.Lang(flg["FLAG"]), rx.Lang("[01]"))
    ctx.ob("R01.7", "FLAG token language", ok, repr(w), 0, "a flag is one character")
    for table in ("svg_parse", "num_parse", "flag_parse"):
        pat = dict(toks[table])["SKIP"]
        ok, w = rx.equivalent(rx.Lang(pat), rx.Lang("[ ,\\t\\n\\x0c\\r]+"))
        ctx.ob("R01.7", "%s SKIP language" % table, ok, "distinguishing string %r" % w if not ok else "", 0, "separators are commas and XML white space only")
    ok, w = rx.equivalent(rx.Lang(num["CLOSE"]), rx.Lang("[Zz]"))
    ctx.ob("R01.7", "CLOSE token language", ok, repr(w), 0, "segment-completing close is z or Z")
    ctx.ob("R01.7", "token order", [n for n, _ in toks["svg_parse"]][0] == "COMMAND" and [n for n, _ in toks["num_parse"]][0] == "FLOAT" and [n for n, _ in toks["flag_parse"]][0] == "FLAG",
           str([[n for n, _ in toks[t]] for t in toks]), 0, "the meaningful token is tried before separators")
    # the compiled tokenizers are built from these tables
    for name, table in (("svg_re", "svg_parse"), ("num_re", "num_parse"), ("flag_re", "flag_parse")):
        pat = ctx.m.regexes.get(name)
        want = "|".join("(?P<%s>%s)" % p for p in toks[table])
        ctx.ob("R01.7", "%s built from %s" % (name, table), pat == want, "", 0, "tokenizer regex must be the alternation of its token table")
