"""C06 - basic shapes are interchangeable with their SVG 2 equivalent paths."""
import ast

from ..algebra import Alg, Uninterpreted, atom, const, opaque_name
from ..dispatch import Facts, walk
from ..model import AnalysisError, attr_chain, call_name, stmts_in

EXPLANATION = (
    "Static rules over the segments() decompositions and their plumbing (no execution). R06.1 decomposition tables: the "
    "tuple of constructor calls in Rect.segments (plain and rounded), SimpleLine.segments and _Polyshape.segments is compared "
    "with SVG 2 sections 10.2-10.7: segment kinds in order, every coordinate as an exact linear form in x, y, width, height, "
    "rx, ry, each start equal to the previous end, the closing segment returning to the first point, corner arcs carrying "
    "rx/ry, Close appended iff the class is Polygon; the round shapes start at parameter 0, take four quarter-turn arcs with "
    "the carried parameter and close. R06.2 corner decision table: _validate_rect over the four (rx given?, ry given?) cells "
    "(auto-completion copies the given one; rx resolves against width, ry against height), clamp to half the side, zero in "
    "either zeroes both. R06.3: every decomposition tests is_degenerate() before building and returns an empty sequence; the "
    "is_degenerate predicates are the zero-dimension/no-point tests. R06.4 save/restore: a decomposition that overwrites "
    "self.apply restores it on every exit. R06.5: transformed decompositions are obtained by multiplication (shared with "
    "C02.5). R06.6 plumbing: Shape.d, Path(shape) and Shape.__eq__ all go through segments(). Not decided: curved edges lying "
    "on the specified ellipse for all parameters (the axis-aligned Arc(rx=, ry=) constructor picks its centre by "
    "orientation tests); bbox/length equality."
)
ASSUMPTIONS = [
    "SVG 2 chapter 10 equivalent paths transcribed in this module are the oracle.",
    "The quarter-ellipse constructor Arc(start, end, rx=, ry=) and the parametrised Arc(start, end, center, rx=, ry=, rotation=, sweep=) are trusted to produce the arc through their end points (numeric clause).",
]
FLOORS = {"R06.1": 25, "R06.2": 7, "R06.3": 5, "R06.4": 1, "R06.6": 3}


def run(ctx):
    ctx.rule("R06.1", "decomposition tables vs SVG 2 chapter 10")
    ctx.rule("R06.2", "rect corner radius decision table")
    ctx.rule("R06.3", "degenerate shapes produce no segments")
    ctx.rule("R06.4", "save/restore of apply across decomposition")
    ctx.rule("R06.5", "transformed decomposition by multiplication")
    ctx.rule("R06.6", "interchangeability plumbing")
    rect_tables(ctx)
    line_and_poly(ctx)
    round_shape(ctx)
    corner_table(ctx)
    degenerate(ctx)
    save_restore(ctx)
    plumbing(ctx)


def pt(alg, node):
    if isinstance(node, ast.Constant) and node.value is None:
        return None
    v = alg.point_value(node)
    if v is None:
        raise AnalysisError("R06.1", "point expression not interpreted: %s" % ast.unparse(node))
    return v


def peq(a, b):
    return a is not None and b is not None and a[0] == b[0] and a[1] == b[1]


def rect_tables(ctx):
    fn = ctx.fn("Rect.segments", "R06.1")
    alg = Alg()
    for s in fn.body:
        if isinstance(s, ast.Assign) and isinstance(s.targets[0], ast.Name) and ast.unparse(s.value).startswith("self."):
            alg.env[s.targets[0].id] = atom(ast.unparse(s.value).split(".")[1].upper())
    X, Y, W, H, RX, RY = (atom(n) for n in ("X", "Y", "WIDTH", "HEIGHT", "RX", "RY"))
    tuples = [s for s in stmts_in(fn.body) if isinstance(s, ast.Assign) and ast.unparse(s.targets[0]) == "segments" and isinstance(s.value, ast.Tuple)]
    ctx.need(len(tuples) == 2, "R06.1", "Rect.segments: two decomposition tuples expected")
    plain = [t for t in tuples if len(t.value.elts) == 5]
    rounded = [t for t in tuples if len(t.value.elts) == 10]
    ctx.need(len(plain) == 1 and len(rounded) == 1, "R06.1", "Rect.segments: tuples of 5 and 10 segments expected")
    spec_plain = [("Move", None, [X, Y]), ("Line", [X, Y], [X + W, Y]), ("Line", [X + W, Y], [X + W, Y + H]), ("Line", [X + W, Y + H], [X, Y + H]), ("Close", [X, Y + H], [X, Y])]
    spec_round = [
        ("Move", None, [X + RX, Y]), ("Line", [X + RX, Y], [X + W - RX, Y]), ("Arc", [X + W - RX, Y], [X + W, Y + RY]),
        ("Line", [X + W, Y + RY], [X + W, Y + H - RY]), ("Arc", [X + W, Y + H - RY], [X + W - RX, Y + H]),
        ("Line", [X + W - RX, Y + H], [X + RX, Y + H]), ("Arc", [X + RX, Y + H], [X, Y + H - RY]),
        ("Line", [X, Y + H - RY], [X, Y + RY]), ("Arc", [X, Y + RY], [X + RX, Y]), ("Close", [X + RX, Y], [X + RX, Y]),
    ]
    for name, tup, spec in (("plain", plain[0], spec_plain), ("rounded", rounded[0], spec_round)):
        prev_end = None
        for i, (call, (kind, s0, e0)) in enumerate(zip(tup.value.elts, spec)):
            cons = "Rect.segments[%s #%d %s]" % (name, i, kind)
            okk = call_name(call) == kind
            a0 = pt(alg, call.args[0]) if call.args else None
            a1 = pt(alg, call.args[1]) if len(call.args) > 1 else None
            ok = okk and (s0 is None and a0 is None or peq(a0, s0)) and peq(a1, e0)
            ctx.ob("R06.1", cons, ok, ast.unparse(call)[:90], call.lineno, "segment kind or coordinates differ from the SVG 2 equivalent path of a rect")
            if prev_end is not None and a0 is not None:
                ctx.ob("R06.1", cons + ":connected", peq(a0, prev_end), "", call.lineno, "each segment starts where the previous one ended", sample=False)
            prev_end = a1
            if kind == "Arc":
                kw = {k.arg: ast.unparse(k.value) for k in call.keywords}
                ctx.ob("R06.1", cons + ":radii", kw.get("rx") == "rx" and kw.get("ry") == "ry", str(kw), call.lineno, "corner arcs use the rect's rx and ry", sample=False)
    # which table is used when
    guards = [s for s in fn.body if isinstance(s, ast.If) and any(t in [x for x in s.body] for t in plain)]
    ok = len(guards) == 1 and ast.unparse(guards[0].test).replace(" ", "") in ("rx==ry==0", "rx==0andry==0", "rx==0orry==0")
    ctx.ob("R06.1", "Rect.segments[table choice]", ok, ast.unparse(guards[0].test) if guards else "", fn.lineno, "square corners exactly when the (validated) radii are zero")


def line_and_poly(ctx):
    fn = ctx.fn("SimpleLine.segments", "R06.1")
    src = [ast.unparse(s).replace(" ", "") for s in fn.body if not (isinstance(s, ast.Expr) and isinstance(s.value, ast.Constant))]
    ok = "start=Point(self.x1,self.y1)" in src and "end=Point(self.x2,self.y2)" in src and src[-1] in ("returnMove(None,start),Line(start,end)", "return(Move(None,start),Line(start,end))")
    ctx.ob("R06.1", "SimpleLine.segments", ok, "; ".join(src)[:160], fn.lineno, "a line is M x1,y1 L x2,y2")
    fn = ctx.fn("_Polyshape.segments", "R06.1")
    src = ast.unparse(fn).replace(" ", "")
    ok = "segments=[Move(None,points[0])]" in src and "foriinrange(1,len(points)):" in src and "segments.append(Line(last,current))" in src and "last=current" in src and "last=points[0]" in src
    ctx.ob("R06.1", "_Polyshape.segments[move then linetos]", ok, "", fn.lineno, "a polyline/polygon is M p0 then L to every subsequent point, each line starting at the previous point")
    closes = [s for s in ast.walk(fn) if isinstance(s, ast.If) and "Close(" in ast.unparse(s)]
    ok = len(closes) == 1 and ast.unparse(closes[0].test) == "isinstance(self, Polygon)" and ast.unparse(closes[0].body[0]).replace(" ", "") == "segments.append(Close(last,points[0]))"
    ctx.ob("R06.1", "_Polyshape.segments[close iff polygon]", ok, ast.unparse(closes[0])[:90] if closes else "", fn.lineno, "only a polygon is closed, back to its first point")
    ctx.ob("R06.1", "Polyline is not a Polygon", "Polygon" not in ctx.m.mro("Polyline") and "Polyline" not in ctx.m.mro("Polygon"), "", 0, "")


def round_shape(ctx):
    fn = ctx.fn("_RoundShape.segments", "R06.1")
    src = ast.unparse(fn).replace(" ", "")
    ok = "steps=4" in src and "step_size=tau/steps" in src and "t_start=0" in src and "t_end=step_size" in src
    ctx.ob("R06.1", "_RoundShape.segments[four quarter turns from t=0]", ok, "", fn.lineno, "circle/ellipse: start at cx+rx,cy and take four quarter arcs in the positive direction")
    ok = "path.move(self.point_at_t(0))" in src
    ctx.ob("R06.1", "_RoundShape.segments[start point]", ok, "", fn.lineno, "the path starts at the point of parameter 0 (cx+rx, cy)")
    loop = [s for s in fn.body if isinstance(s, ast.For)]
    ctx.need(len(loop) == 1, "R06.1", "_RoundShape.segments: loop not found")
    arcs = [c for c in ast.walk(loop[0]) if call_name(c) == "Arc"]
    ok = len(arcs) == 1 and [ast.unparse(a).replace(" ", "") for a in arcs[0].args] == ["self.point_at_t(t_start)", "self.point_at_t(t_end)", "center"] \
        and {k.arg: ast.unparse(k.value) for k in arcs[0].keywords} == {"rx": "rx", "ry": "ry", "rotation": "self.rotation", "sweep": "step_size"}
    ctx.ob("R06.1", "_RoundShape.segments[arc operands]", ok, ast.unparse(arcs[0])[:120] if arcs else "", loop[0].lineno, "each arc runs between consecutive quarter points about the centre with the shape's radii")
    aft = [ast.unparse(s).replace(" ", "") for s in loop[0].body if isinstance(s, (ast.Assign, ast.AugAssign))
           and ast.unparse(s.targets[0] if isinstance(s, ast.Assign) else s.target) in ("t_start", "t_end")]
    ctx.ob("R06.1", "_RoundShape.segments[parameter carried]", aft == ["t_start=t_end", "t_end+=step_size"], "; ".join(aft), loop[0].lineno, "the next arc starts at the parameter where this one ended")
    ctx.ob("R06.1", "_RoundShape.segments[closed]", "path.closed()" in src and ast.unparse(loop[0].iter).replace(" ", "") == "range(steps)", "", fn.lineno, "four arcs, then a close")
    pat = ctx.fn("_RoundShape.point_at_t", "R06.1")
    a = Alg()
    seed = {"self.rotation": "TH", "self.implicit_rx": "A", "self.implicit_ry": "B", "center.x": "CX", "center.y": "CY"}
    for s in pat.body:
        if isinstance(s, ast.Assign) and isinstance(s.targets[0], ast.Name):
            sv = ast.unparse(s.value)
            if sv in seed:
                a.env[s.targets[0].id] = atom(seed[sv])
            else:
                try:
                    a.assign(s)
                except Uninterpreted:
                    pass
    ret = [s for s in pat.body if isinstance(s, ast.Return)][0]
    pv = a.point_value(ret.value)
    cth, sth = atom(opaque_name("cos", [atom("TH")])), atom(opaque_name("sin", [atom("TH")]))
    ct, st = atom(opaque_name("cos", [atom("t")])), atom(opaque_name("sin", [atom("t")]))
    want = [atom("CX") + atom("A") * ct * cth - atom("B") * st * sth, atom("CY") + atom("A") * ct * sth + atom("B") * st * cth]
    ctx.ob("R06.1", "_RoundShape.point_at_t[ellipse form]", pv is not None and peq(pv, want), "", pat.lineno, "points of the ellipse: c + rx cos t (cos th, sin th) + ry sin t (-sin th, cos th)")


def corner_table(ctx):
    fn = ctx.fn("Rect._validate_rect", "R06.2")

    def hook(alg, node):
        # Length(X).value(relative_length=R) -> resolve(X, R)
        if isinstance(node, ast.Call) and isinstance(node.func, ast.Attribute) and node.func.attr == "value" and isinstance(node.func.value, ast.Call) and call_name(node.func.value) == "Length":
            rl = [k.value for k in node.keywords if k.arg == "relative_length"]
            if len(rl) == 1:
                return atom(opaque_name("resolve", [alg.ev(node.func.value.args[0]), alg.ev(rl[0])]))
        return None

    body = [s for s in fn.body if not (isinstance(s, ast.Expr) and isinstance(s.value, ast.Constant))]
    RX0, RY0, W, H = atom("self.rx"), atom("self.ry"), atom("self.width"), atom("self.height")
    rW = atom(opaque_name("resolve", [RX0, W]))
    rH = atom(opaque_name("resolve", [RY0, H]))
    cells = {
        (True, True): (const(0), const(0)),
        (False, True): (rW, rW),
        (True, False): (rH, rH),
        (False, False): (rW, rH),
    }
    for (rx_none, ry_none), (erx, ery) in cells.items():
        for zero in (False, True):
            if zero and rx_none and ry_none:
                continue
            cons = "Rect._validate_rect[rx %s, ry %s%s]" % ("auto" if rx_none else "given", "auto" if ry_none else "given", ", one is zero" if zero else "")
            facts = Facts(nulls={"rx": rx_none, "ry": ry_none})
            both_auto = rx_none and ry_none
            facts.truth["rx == 0 or ry == 0"] = zero or both_auto
            alg = Alg(call_hook=hook)
            out = walk(body, facts, alg, ctx.m, "R06.2", cons)
            ctx.need(out.kind == "fall", "R06.2", "%s: unexpected exit" % cons)
            grx, gry = alg.atom_map.get("self.rx"), alg.atom_map.get("self.ry")
            ctx.need(grx is not None and gry is not None, "R06.2", "%s: radii not stored" % cons)
            if zero or both_auto:
                ok = grx.is_zero() and gry.is_zero()
                ctx.ob("R06.2", cons, ok, "rx=%s ry=%s" % (grx, gry), fn.lineno, "no radii given, or a zero radius in either direction, means square corners")
            else:
                wrx = atom(opaque_name("min", sorted([erx, W / const(2)], key=str)))
                wry = atom(opaque_name("min", sorted([ery, H / const(2)], key=str)))
                ok = grx == wrx and gry == wry
                ctx.ob("R06.2", cons, ok, "rx=%s ry=%s" % (grx, gry), fn.lineno,
                       "auto radii copy the given one; rx refers to the width and ry to the height; each is clamped to half its side")


def degenerate(ctx):
    for cname, empty in (("Rect", "()"), ("_RoundShape", "()"), ("_Polyshape", "[]")):
        fn = ctx.fn("%s.segments" % cname, "R06.3")
        g = [s for s in fn.body if isinstance(s, ast.If) and ast.unparse(s.test) == "self.is_degenerate()"]
        ok = len(g) == 1 and isinstance(g[0].body[-1], ast.Return) and ast.unparse(g[0].body[-1].value) in ("()", "[]", "tuple()", "list()")
        # before any segment constructor call
        first_ctor = min([c.lineno for c in ast.walk(fn) if call_name(c) in ("Move", "Line", "Arc", "Close")] + [10 ** 9])
        ok = ok and g[0].lineno < first_ctor
        ctx.ob("R06.3", "%s.segments[degenerate -> empty]" % cname, ok, "", fn.lineno, "a shape with a zero dimension or no points produces no segments")
    r = ctx.fn("Rect.is_degenerate", "R06.3")
    s = ast.unparse(r).replace(" ", "")
    ctx.ob("R06.3", "Rect.is_degenerate", "self.width==0" in s and "self.height==0" in s and " and " not in ast.unparse(r), "", r.lineno, "a rect is degenerate when either side is zero")
    r = ctx.fn("_RoundShape.is_degenerate", "R06.3")
    s = ast.unparse(r).replace(" ", "")
    ctx.ob("R06.3", "_RoundShape.is_degenerate", "returnrx==0orry==0" in s, "", r.lineno, "a circle/ellipse is degenerate when either radius is zero")
    r = ctx.fn("_Polyshape.is_degenerate", "R06.3")
    s = ast.unparse(r).replace(" ", "")
    ctx.ob("R06.3", "_Polyshape.is_degenerate", "returnlen(self.points)==0" in s, "", r.lineno, "a polyshape without points is degenerate")


def save_restore(ctx):
    n = 0
    for cname in ("Rect", "_RoundShape", "SimpleLine", "_Polyshape", "Path"):
        fn = ctx.fn("%s.segments" % cname, "R06.4")
        saves = [s for s in fn.body if isinstance(s, ast.Assign) and ast.unparse(s.value) == "self.apply" and isinstance(s.targets[0], ast.Name)]
        writes = [s for s in stmts_in(fn.body) if isinstance(s, ast.Assign) and ast.unparse(s.targets[0]) == "self.apply"]
        if not writes:
            continue
        n += 1
        ctx.need(len(saves) == 1, "R06.4", "%s.segments overwrites self.apply without saving it" % cname)
        saved = saves[0].targets[0].id
        first_write = min(w.lineno for w in writes if ast.unparse(w.value) != saved)
        # every return after the first overwrite must be preceded (in its own block or earlier at top level) by the restore
        bad = []
        for r in ast.walk(fn):
            if isinstance(r, ast.Return) and r.lineno > first_write:
                blk = None
                for node in ast.walk(fn):
                    for field in ("body", "orelse"):
                        b = getattr(node, field, None)
                        if isinstance(b, list) and r in b:
                            blk = b
                restored = any(isinstance(s, ast.Assign) and ast.unparse(s.targets[0]) == "self.apply" and ast.unparse(s.value) == saved and s.lineno < r.lineno for s in blk) \
                    or any(isinstance(s, ast.Assign) and ast.unparse(s.targets[0]) == "self.apply" and ast.unparse(s.value) == saved and first_write < s.lineno < r.lineno for s in fn.body)
                in_finally = any(isinstance(t, ast.Try) and any(isinstance(s, ast.Assign) and ast.unparse(s.targets[0]) == "self.apply" and ast.unparse(s.value) == saved for s in t.finalbody) for t in ast.walk(fn))
                if not (restored or in_finally):
                    bad.append("return line %d" % r.lineno)
        ctx.ob("R06.4", "%s.segments[apply restored on every exit]" % cname, not bad, "; ".join(bad), fn.lineno,
               "the decomposition leaves self.apply changed on this exit: the shape silently stops applying its transform (or starts to)")
    ctx.need(n >= 1, "R06.4", "no decomposition overwrites self.apply (rule has nothing to check)")


def plumbing(ctx):
    d = ctx.fn("Shape.d", "R06.6")
    s = ast.unparse(d).replace(" ", "")
    ctx.ob("R06.6", "Shape.d", "returnPath(self.segments(transformed=transformed)).d(relative=relative)" in s, "", d.lineno, "shape.d() is the path data of its decomposition")
    pi = ctx.fn("Path.__init__", "R06.6")
    s = ast.unparse(pi).replace(" ", "")
    ctx.ob("R06.6", "Path(shape)", "elifisinstance(s,Shape):" in s and "s.segments(transformed=False)" in s and "Shape.__init__(self,*args,**kwargs)" in s, "", pi.lineno,
           "Path(shape) takes the untransformed decomposition and copies transform and paint through the shape copy constructor")
    eq = ctx.fn("Shape.__eq__", "R06.6")
    s = ast.unparse(eq).replace(" ", "")
    ctx.ob("R06.6", "Shape.__eq__", "first=Path(first)" in s and "second=Path(second)" in s and "returnfirst==second" in s and "self.fill!=other.fill" in s, "", eq.lineno,
           "shapes compare equal through their path forms (and paint)")
    pe = ctx.fn("Path.__eq__", "R06.6")
    s = ast.unparse(pe).replace(" ", "")
    ctx.ob("R06.6", "Path.__eq__", "p=abs(self)" in s and "q=abs(other)" in s and "zip(q._segments,p._segments)" in s, "", pe.lineno, "paths compare in transformed (reified) form, segment by segment")
    from .c02 import transformed_decomposition
    # R06.5 shares the obligations of C02.5 under this property's id
    for cname in ("Rect", "_RoundShape", "SimpleLine", "_Polyshape"):
        fn = ctx.fn("%s.segments" % cname, "R06.5")
        src = ast.unparse(fn)
        scalar = sorted({n.attr for n in ast.walk(fn) if isinstance(n, ast.Attribute) and isinstance(n.value, ast.Name) and n.value.id == "self"
                         and (n.attr.startswith("implicit_") or n.attr == "rotation")})
        mult = any(isinstance(n, ast.BinOp) and isinstance(n.op, ast.Mult) and ast.unparse(n.right).endswith(".transform") for n in ast.walk(fn)) \
            or any(isinstance(n, ast.AugAssign) and isinstance(n.op, ast.Mult) and ast.unparse(n.value).endswith(".transform") for n in ast.walk(fn)) \
            or "transform.point_in_matrix_space" in src
        ctx.ob("R06.5", "%s.segments" % cname, mult and not scalar, "scalar quantities derived from the matrix: %s; applies matrix: %s" % (scalar, mult), fn.lineno,
               "a transformed decomposition rebuilt from radii/rotation read off the matrix is exact only for similarity-like matrices")
