"""C06 - basic shapes are interchangeable with their SVG 2 equivalent paths."""
import ast

from ..algebra import Alg, Uninterpreted, atom, const, opaque_name
from ..algebra import RF
from ..dispatch import Facts, walk
from ..flow import Taint, bindings, const_value, names
from ..model import AnalysisError, attr_chain, call_name, stmts_in
from ..segeval import Repeat, Seg, SegEval, boolean, same, show

EXPLANATION = (
    "Static rules over the segments() decompositions and their plumbing (no execution). R06.1 decomposition tables: the "
    "tuple of constructor calls in Rect.segments (plain and rounded), SimpleLine.segments and _Polyshape.segments is "
    "compared with SVG 2 sections 10.2-10.7: segment kinds in order, every coordinate as an exact linear form in x, y, "
    "width, height, rx, ry, each start equal to the previous end, the closing segment returning to the first point, corner "
    "arcs carrying rx/ry, Close appended iff the class is Polygon; the round shapes start at parameter 0, take four "
    "quarter-turn arcs with the carried parameter and close. R06.2 corner decision table: _validate_rect over the four (rx "
    "given?, ry given?) cells (auto-completion copies the given one; rx resolves against width, ry against height), clamp "
    "to half the side, zero in either zeroes both. R06.3 (scenario: a zero dimension; for the round shapes each radius on "
    "its own): every decomposition returns an empty sequence, whether it asks is_degenerate() or spells the radius test "
    "out; the is_degenerate predicates are the zero-dimension/no-point tests, joined by or. R06.4 save/restore: every field"
    " of the shape that a decomposition overwrites (self.apply) is saved first and restored on every exit, by statement "
    "order. R06.5: transformed decompositions are obtained by multiplication (shared with C02.5); in the scenarios "
    "(transformed?, identity transform?) every point operand of the polyshape - move, linetos and the polygon's close - "
    "reads the mapped point list exactly when a non-identity transformed form is asked for. R06.6 plumbing: Shape.d, "
    "Path(shape) and Shape.__eq__ all go through segments(). Not decided: curved edges lying on the specified ellipse for "
    "all parameters (the axis-aligned Arc(rx=, ry=) constructor picks its centre by orientation tests); bbox/length "
    "equality."
    " R06.7: abs(shape) - the 'transformed form' - is a copy that has been reified; the reify algebra of C02"
    ' therefore runs here as well. R06.2 is driven by per-radius zero facts: with both radii given, the cells'
    " 'rx is zero', 'ry is zero' and 'both' must each end with square corners."
    ' The finding key of the direction clause of R06.5 carries the criterion the code uses (determinant / sign'
    ' of a*d / other), so that the recorded known finding (sign of a*d) does not hide a different wrong'
    ' criterion.'
    " R06.8: C02's lazy-transform rules (X * M on a copy, abs() reifies a copy, each reify maps every stored"
    ' point, resets the matrix and calls both base reify methods, which rescale the stroke width and drop the'
    ' cached lengths) run here as well. R06.2 also requires the re-validation in Rect.render to be an'
    " unconditional statement: the constructor's clamp is skipped whenever a SIDE is still a length."
)
TECHNIQUE = (
    "static analysis (no execution): segment-sequence extraction from segments() (value numbering, constant loops unrolled, index loops summarised by induction) compared with the SVG 2 chapter 10 equivalent paths; corner decision table by dispatch extraction; save/restore path check"
)
ASSUMPTIONS = [
    "SVG 2 chapter 10 equivalent paths transcribed in this module are the oracle.",
    "The quarter-ellipse constructor Arc(start, end, rx=, ry=) and the parametrised Arc(start, end, center, rx=, ry=, rotation=, sweep=) are trusted to produce the arc through their end points (numeric clause).",
]
FLOORS = {"R06.1": 25, "R06.2": 7, "R06.3": 5, "R06.4": 1, "R06.6": 3, "R06.7": 10}


def run(ctx):
    ctx.rule("R06.1", "decomposition tables vs SVG 2 chapter 10")
    ctx.rule("R06.2", "rect corner radius decision table")
    ctx.rule("R06.3", "degenerate shapes produce no segments")
    ctx.rule("R06.4", "save/restore of apply across decomposition")
    ctx.rule("R06.5", "transformed decomposition by multiplication")
    ctx.rule("R06.6", "interchangeability plumbing")
    ctx.rule("R06.7", "abs(shape): reifying a rect or round shape folds the matrix into its attributes exactly (obligations shared with C02)")
    rect_tables(ctx)
    line_and_poly(ctx)
    round_shape(ctx)
    corner_table(ctx)
    degenerate(ctx)
    save_restore(ctx)
    clamp_after_render(ctx)
    direction_by_determinant(ctx)
    plumbing(ctx)
    transformed_selection(ctx)
    from . import c02

    c02.reify_algebra(ctx.renamed("R06.7"))
    ctx.rule("R06.8", "the transformed form: X * M works on a copy, abs() reifies a copy, reify applies the matrix to every stored point, resets it and drops the cached lengths (obligations shared with C02 R02.4)")
    c02.lazy(ctx.renamed("R06.8"))


SEG_KINDS = ("Move", "Line", "Arc", "Close", "QuadraticBezier", "CubicBezier")


def peq(a, b):
    return a is not None and b is not None and a[0] == b[0] and a[1] == b[1]


def has_call(node, attr):
    return any(isinstance(c, ast.Call) and isinstance(c.func, ast.Attribute) and c.func.attr == attr for c in ast.walk(node))


def common_leaf(node, degenerate=False, transformed=False, identity=True):
    """Valuation of the tests every decomposition shares: untransformed, strict, not degenerate."""
    if isinstance(node, ast.Call) and isinstance(node.func, ast.Attribute) and node.func.attr == "is_degenerate":
        return degenerate
    if isinstance(node, ast.Call) and isinstance(node.func, ast.Attribute) and node.func.attr == "is_identity":
        return identity
    if isinstance(node, ast.Name) and node.id == "transformed":
        return transformed
    if isinstance(node, ast.Attribute) and node.attr == "_strict":
        return True
    return None


DIMENSIONS = {"self.implicit_rx", "self.implicit_ry", "self.rx", "self.ry", "self.implicit_r"}


def shape_leaf(ctx, qual, degenerate=False, transformed=False, identity=True, only=None):
    """common_leaf, plus the spelled-out form of the degenerate test: `<radius> == 0` (directly or through a local bound once to
    the radius) is true exactly in the degenerate scenario."""
    from ..flow import bindings

    fn = ctx.fn(qual, "R06.1")
    local = {}
    for tg, v, n in bindings(fn):
        if isinstance(tg, ast.Name):
            local.setdefault(tg.id, []).append(v)

    def dim(n):
        if isinstance(n, ast.Name) and len(local.get(n.id, [])) == 1 and local[n.id][0] is not None:
            n = local[n.id][0]
        ch = attr_chain(n)
        return ".".join(ch) if ch and ".".join(ch) in DIMENSIONS else None

    def leaf(node):
        v = common_leaf(node, degenerate, transformed, identity)
        if v is not None:
            return v
        if isinstance(node, ast.Compare) and len(node.ops) == 1 and isinstance(node.ops[0], (ast.Eq, ast.NotEq)):
            l, r = node.left, node.comparators[0]
            for a, b in ((l, r), (r, l)):
                if isinstance(b, ast.Constant) and b.value == 0 and not isinstance(b.value, bool) and dim(a):
                    zero = degenerate and (only is None or dim(a).endswith(only))
                    return zero if isinstance(node.ops[0], ast.Eq) else not zero
        return None

    return leaf


def rect_leaf(holder, zero, degenerate=False, transformed=False, identity=True):
    RX, RY = atom("self.rx"), atom("self.ry")

    def leaf(node):
        v = common_leaf(node, degenerate, transformed, identity)
        if v is not None:
            return v
        if isinstance(node, ast.Compare):
            consts = [c for c in [node.left] + node.comparators if isinstance(c, ast.Constant) and c.value == 0]
            if consts and all(isinstance(o, (ast.Lt, ast.Gt, ast.LtE, ast.GtE)) for o in node.ops):
                return False  # negative-radius tests: validated radii are non-negative
            if consts and all(isinstance(o, ast.Eq) for o in node.ops):
                return zero
            if consts and all(isinstance(o, ast.NotEq) for o in node.ops):
                return not zero
        if isinstance(node, ast.Name) and "ev" in holder:
            e = holder["ev"].alg.env.get(node.id)
            if isinstance(e, RF) and (e == RX or e == RY):
                return not zero
        return None

    return leaf


def extract(ctx, qual, rule, leaf, **kw):
    fn = ctx.fn(qual, rule)
    ev = SegEval(ctx, rule, qual, SEG_KINDS, lambda t: boolean(t, leaf), **kw)
    out = ev.run(fn.body)
    return fn, ev, out


def result_sequence(ev, out, rule, qual):
    if out[0] != "return" or out[1] is None:
        raise AnalysisError(rule, "%s: does not return a sequence on this path" % qual)
    node = out[1]
    sv = ev.seq_value(node)
    if sv is not None:
        return sv
    if isinstance(node, ast.Call) and isinstance(node.func, ast.Attribute) and node.func.attr == "segments" and isinstance(node.func.value, ast.Name):
        v = ev.vals.get(node.func.value.id)
        if isinstance(v, tuple) and v and v[0] == "builder":
            return v[1]
    raise AnalysisError(rule, "%s: returned expression not interpreted: %s" % (qual, ast.unparse(node)[:80]))


def rect_tables(ctx):
    X, Y, W, H, RX, RY = (atom(n) for n in ("self.x", "self.y", "self.width", "self.height", "self.rx", "self.ry"))
    spec_plain = [("Move", None, [X, Y]), ("Line", [X, Y], [X + W, Y]), ("Line", [X + W, Y], [X + W, Y + H]), ("Line", [X + W, Y + H], [X, Y + H]), ("Close", [X, Y + H], [X, Y])]
    spec_round = [
        ("Move", None, [X + RX, Y]), ("Line", [X + RX, Y], [X + W - RX, Y]), ("Arc", [X + W - RX, Y], [X + W, Y + RY]),
        ("Line", [X + W, Y + RY], [X + W, Y + H - RY]), ("Arc", [X + W, Y + H - RY], [X + W - RX, Y + H]),
        ("Line", [X + W - RX, Y + H], [X + RX, Y + H]), ("Arc", [X + RX, Y + H], [X, Y + H - RY]),
        ("Line", [X, Y + H - RY], [X, Y + RY]), ("Arc", [X, Y + RY], [X + RX, Y]), ("Close", [X + RX, Y], [X + RX, Y]),
    ]
    for name, zero, spec in (("plain", True, spec_plain), ("rounded", False, spec_round)):
        holder = {}
        leaf = rect_leaf(holder, zero)
        fn = ctx.fn("Rect.segments", "R06.1")
        ev = SegEval(ctx, "R06.1", "Rect.segments[%s]" % name, SEG_KINDS, lambda t, leaf=leaf: boolean(t, leaf))
        holder["ev"] = ev
        out = ev.run(fn.body)
        seq = result_sequence(ev, out, "R06.1", "Rect.segments[%s]" % name)
        ctx.ob("R06.1", "Rect.segments[%s: %d segments]" % (name, len(spec)), len(seq) == len(spec) and all(isinstance(x, Seg) for x in seq), "%d segments" % len(seq), fn.lineno,
               "the SVG 2 equivalent path of a %s rect has %d segments" % (name, len(spec)))
        prev_end = None
        for i, (sg, (kind, s0, e0)) in enumerate(zip(seq, spec)):
            if not isinstance(sg, Seg):
                continue
            cons = "Rect.segments[%s #%d %s]" % (name, i, kind)
            a0 = sg.args[0] if sg.args else None
            a1 = sg.args[1] if len(sg.args) > 1 else None
            ok = sg.kind == kind and (s0 is None and a0 is None or peq(a0, s0)) and peq(a1, e0)
            ctx.ob("R06.1", cons, ok, repr(sg)[:120], sg.node.lineno, "segment kind or coordinates differ from the SVG 2 equivalent path of a rect")
            if prev_end is not None and a0 is not None:
                ctx.ob("R06.1", cons + ":connected", peq(a0, prev_end), "", sg.node.lineno, "each segment starts where the previous one ended", sample=False)
            prev_end = a1
            if kind == "Arc":
                ok = isinstance(sg.kw.get("rx"), RF) and sg.kw["rx"] == RX and isinstance(sg.kw.get("ry"), RF) and sg.kw["ry"] == RY
                ctx.ob("R06.1", cons + ":radii", ok, repr(sg.kw)[:100], sg.node.lineno, "corner arcs use the rect's rx and ry", sample=False)
    # which table is used when: the plain table must be the one selected when both (validated) radii are zero - decided above by construction:
    # the scenario `radii zero` produced the 5-segment table and `radii non-zero` the 10-segment one.


def line_and_poly(ctx):
    fn, ev, out = extract(ctx, "SimpleLine.segments", "R06.1", common_leaf)
    seq = result_sequence(ev, out, "R06.1", "SimpleLine.segments")
    p1 = [atom("self.x1"), atom("self.y1")]
    p2 = [atom("self.x2"), atom("self.y2")]
    ok = len(seq) == 2 and all(isinstance(x, Seg) for x in seq) and seq[0].kind == "Move" and seq[0].args[0] is None and same(seq[0].args[1], p1) \
        and seq[1].kind == "Line" and same(seq[1].args[0], p1) and same(seq[1].args[1], p2)
    ctx.ob("R06.1", "SimpleLine.segments", ok, repr(seq)[:160], fn.lineno, "a line is M x1,y1 L x2,y2")
    for polygon in (False, True):
        def leaf(node, polygon=polygon):
            v = common_leaf(node)
            if v is not None:
                return v
            if isinstance(node, ast.Call) and call_name(node) == "isinstance" and len(node.args) == 2 and isinstance(node.args[0], ast.Name) and node.args[0].id == "self" \
                    and isinstance(node.args[1], ast.Name) and node.args[1].id in ctx.m.classes:
                return node.args[1].id in ctx.m.mro("Polygon" if polygon else "Polyline")
            return None

        tag = "polygon" if polygon else "polyline"
        fn, ev, out = extract(ctx, "_Polyshape.segments", "R06.1", leaf, point_lists=("self.points",))
        seq = result_sequence(ev, out, "R06.1", "_Polyshape.segments[%s]" % tag)
        P = lambda i: ("elem", "self.points", i)
        reps = [x for x in seq if isinstance(x, Repeat)]
        ok = len(seq) >= 2 and isinstance(seq[0], Seg) and seq[0].kind == "Move" and seq[0].args[0] is None and same(seq[0].args[1], P(const(0))) and len(reps) == 1 and seq[1] is reps[0]
        hi = None
        if ok:
            r = reps[0]
            i = atom(r.var)
            hi = r.hi
            ok = r.lo == const(1) and r.hi == ev.len_atom("self.points") and len(r.items) == 1 and r.items[0].kind == "Line" \
                and same(r.items[0].args[0], P(i - const(1))) and same(r.items[0].args[1], P(i))
        if not polygon:
            ctx.ob("R06.1", "_Polyshape.segments[move then linetos]", ok, repr(seq)[:200], fn.lineno,
                   "a polyline/polygon is M p0 then L to every subsequent point, each line starting at the previous point")
            ctx.ob("R06.1", "_Polyshape.segments[polyline stays open]", len(seq) == 2, "%d parts" % len(seq), fn.lineno, "a polyline is not closed")
        else:
            okc = ok and len(seq) == 3 and isinstance(seq[2], Seg) and seq[2].kind == "Close" and same(seq[2].args[0], P(hi - const(1))) and same(seq[2].args[1], P(const(0)))
            ctx.ob("R06.1", "_Polyshape.segments[close iff polygon]", okc, repr(seq[2:])[:120], fn.lineno, "only a polygon is closed, from its last point back to its first point")
    ctx.ob("R06.1", "Polyline is not a Polygon", "Polygon" not in ctx.m.mro("Polyline") and "Polyline" not in ctx.m.mro("Polygon"), "", 0, "")


def round_shape(ctx):
    fn, ev, out = extract(ctx, "_RoundShape.segments", "R06.1", shape_leaf(ctx, "_RoundShape.segments"), point_calls=("point_at_t",))
    seq = result_sequence(ev, out, "R06.1", "_RoundShape.segments")
    q = const(2) * atom("pi") / const(4)
    PT = lambda t: ("call", "point_at_t", t)
    ok = bool(seq) and isinstance(seq[0], Seg) and seq[0].kind == "Move" and same(seq[0].args[1], PT(const(0)))
    ctx.ob("R06.1", "_RoundShape.segments[start point]", ok, repr(seq[:1])[:100], fn.lineno, "the path starts at the point of parameter 0 (cx+rx, cy)")
    arcs = [x for x in seq if isinstance(x, Seg) and x.kind == "Arc"]
    ok = len(arcs) == 4 and len(seq) == 6 and [getattr(x, "kind", None) for x in seq] == ["Move", "Arc", "Arc", "Arc", "Arc", "Close"]
    ctx.ob("R06.1", "_RoundShape.segments[four quarter turns from t=0]", ok, str([getattr(x, "kind", "?") for x in seq]), fn.lineno,
           "circle/ellipse: start at cx+rx,cy, take four quarter arcs in the positive direction, close")
    carried = all(same(a.args[0], PT(q * const(k))) and same(a.args[1], PT(q * const(k + 1))) for k, a in enumerate(arcs)) and len(arcs) == 4
    ctx.ob("R06.1", "_RoundShape.segments[parameter carried]", carried, "; ".join("%s->%s" % (show(a.args[0]), show(a.args[1])) for a in arcs)[:200], fn.lineno,
           "arc k runs from parameter k quarter turns to k+1 quarter turns")
    okk = True
    for a in arcs:
        okk = okk and len(a.args) >= 3 and isinstance(a.args[2], RF) and a.args[2] == atom("self.implicit_center") \
            and all(isinstance(a.kw.get(k), RF) for k in ("rx", "ry", "rotation", "sweep")) \
            and a.kw["rx"] == atom("self.implicit_rx") and a.kw["ry"] == atom("self.implicit_ry") and a.kw["rotation"] == atom("self.rotation") and a.kw["sweep"] == q
    ctx.ob("R06.1", "_RoundShape.segments[arc operands]", okk and bool(arcs), repr(arcs[:1])[:160], fn.lineno, "each arc runs about the centre with the shape's radii and rotation, a quarter turn each")
    ctx.ob("R06.1", "_RoundShape.segments[closed]", bool(seq) and isinstance(seq[-1], Seg) and seq[-1].kind == "Close", "", fn.lineno, "four arcs, then a close")
    pat = ctx.fn("_RoundShape.point_at_t", "R06.1")
    a = Alg()
    seed = {"self.rotation": "TH", "self.implicit_rx": "A", "self.implicit_ry": "B", "self.implicit_center.x": "CX", "self.implicit_center.y": "CY"}
    for k, v in seed.items():
        a.atom_map[k] = v
    for st in stmts_in(pat.body):
        if isinstance(st, ast.Assign) and isinstance(st.targets[0], ast.Name):
            ch = attr_chain(st.value)
            if ch == ["self", "implicit_center"]:
                a.env[st.targets[0].id] = "self.implicit_center"
                continue
            try:
                a.assign(st)
            except Uninterpreted:
                pass
    rets = [st for st in ast.walk(pat) if isinstance(st, ast.Return)]
    ctx.need(len(rets) == 1, "R06.1", "_RoundShape.point_at_t: single return expected")
    tpar = pat.args.args[1].arg
    pv = a.point_value(rets[0].value)
    cth, sth = atom(opaque_name("cos", [atom("TH")])), atom(opaque_name("sin", [atom("TH")]))
    ct, st_ = atom(opaque_name("cos", [atom(tpar)])), atom(opaque_name("sin", [atom(tpar)]))
    want = [atom("CX") + atom("A") * ct * cth - atom("B") * st_ * sth, atom("CY") + atom("A") * ct * sth + atom("B") * st_ * cth]
    ctx.ob("R06.1", "_RoundShape.point_at_t[ellipse form]", pv is not None and peq(pv, want), "", pat.lineno, "points of the ellipse: c + rx cos t (cos th, sin th) + ry sin t (-sin th, cos th)")


def corner_table(ctx):
    fn = ctx.fn("Rect._validate_rect", "R06.2")

    def hook(alg, node):
        # Length(X).value(relative_length=R) -> resolve(X, R)
        if isinstance(node, ast.Call) and isinstance(node.func, ast.Attribute) and node.func.attr == "value" and isinstance(node.func.value, ast.Call) and call_name(node.func.value) == "Length":
            rl = [k.value for k in node.keywords if k.arg == "relative_length"]
            if len(rl) == 1:
                return atom(opaque_name("resolve", [alg.ev(node.func.value.args[0]), alg.ev(rl[0])]))
        return None

    body = [s for s in fn.body if not (isinstance(s, ast.Expr) and isinstance(s.value, ast.Constant))]
    RX0, RY0, W, H = atom("self.rx"), atom("self.ry"), atom("self.width"), atom("self.height")
    rW = atom(opaque_name("resolve", [RX0, W]))
    rH = atom(opaque_name("resolve", [RY0, H]))
    cells = {
        (True, True): (const(0), const(0)),
        (False, True): (rW, rW),
        (True, False): (rH, rH),
        (False, False): (rW, rH),
    }
    for (rx_none, ry_none), (erx, ery) in cells.items():
        both_auto = rx_none and ry_none
        # which of the two resolved radii is zero when the clamp is reached: none; with both given, either one or both; with
        # one given, the copy makes them equal, so both
        scen = [(False, None)]
        if not both_auto:
            scen += [(True, z) for z in ((("rx",), ("ry",), ("rx", "ry")) if not rx_none and not ry_none else (("rx", "ry"),))]
        for zero, which in scen:
            cons = "Rect._validate_rect[rx %s, ry %s%s]" % ("auto" if rx_none else "given", "auto" if ry_none else "given",
                                                             "" if not zero else (", one is zero" if which == ("rx", "ry") and (rx_none or ry_none) else ", zero: %s" % "+".join(which)))
            facts = Facts(nulls={"rx": rx_none, "ry": ry_none})
            facts.zeros = {"rx": both_auto or (zero and "rx" in which), "ry": both_auto or (zero and "ry" in which)}
            alg = Alg(call_hook=hook)
            out = walk(body, facts, alg, ctx.m, "R06.2", cons)
            ctx.need(out.kind == "fall", "R06.2", "%s: unexpected exit" % cons)
            grx, gry = alg.atom_map.get("self.rx"), alg.atom_map.get("self.ry")
            ctx.need(grx is not None and gry is not None, "R06.2", "%s: radii not stored" % cons)
            if zero or both_auto:
                ok = grx.is_zero() and gry.is_zero()
                ctx.ob("R06.2", cons, ok, "rx=%s ry=%s" % (grx, gry), fn.lineno, "no radii given, or a zero radius in either direction, means square corners")
            else:
                wrx = atom(opaque_name("min", sorted([erx, W / const(2)], key=str)))
                wry = atom(opaque_name("min", sorted([ery, H / const(2)], key=str)))
                ok = grx == wrx and gry == wry
                ctx.ob("R06.2", cons, ok, "rx=%s ry=%s" % (grx, gry), fn.lineno,
                       "auto radii copy the given one; rx refers to the width and ry to the height; each is clamped to half its side")


def zero_tests(ctx, fn, expr):
    """attr chains tested for zero / emptiness at disjunctive positions of a predicate (locals with one definition looked through)"""
    defs = {}
    for t, v, n in bindings(fn):
        if isinstance(t, ast.Name):
            defs.setdefault(t.id, []).append(v)

    def res(n):
        if isinstance(n, ast.Name) and len(defs.get(n.id, ())) == 1:
            return res(defs[n.id][0])
        return n

    out = set()
    conj = False

    def visit(e):
        nonlocal conj
        e = res(e)
        if isinstance(e, ast.BoolOp) and isinstance(e.op, ast.Or):
            for v in e.values:
                visit(v)
            return
        if isinstance(e, ast.BoolOp):
            conj = True
            return
        if isinstance(e, ast.Compare) and len(e.ops) == 1 and isinstance(e.ops[0], ast.Eq):
            l, r = res(e.left), res(e.comparators[0])
            for a, b in ((l, r), (r, l)):
                if isinstance(b, ast.Constant) and b.value == 0 and not isinstance(b.value, bool):
                    if isinstance(a, ast.Call) and call_name(a) == "len" and a.args:
                        a = res(a.args[0])
                    ch = attr_chain(a)
                    if ch:
                        out.add(".".join(ch))
            return
        if isinstance(e, ast.UnaryOp) and isinstance(e.op, ast.Not):
            ch = attr_chain(res(e.operand))
            if ch:
                out.add(".".join(ch))

    visit(expr)
    return out, conj


def degenerate(ctx):
    for cname, kw, only in (("Rect", {}, None), ("_RoundShape", {"point_calls": ("point_at_t",)}, "rx"), ("_RoundShape", {"point_calls": ("point_at_t",)}, "ry"),
                            ("_Polyshape", {"point_lists": ("self.points",)}, None)):
        qual = "%s.segments" % cname
        leaf = rect_leaf({}, False, degenerate=True) if cname == "Rect" else shape_leaf(ctx, qual, degenerate=True, only=only)
        fn, ev, out = extract(ctx, qual, "R06.3", leaf, **kw)
        ok = out[0] == "return" and out[1] is not None and ev.seq_value(out[1]) == []
        ctx.ob("R06.3", "%s.segments[degenerate%s -> empty]" % (cname, ": %s zero" % only if only else ""), ok, ast.unparse(out[1])[:60] if out[1] is not None else out[0], fn.lineno,
               "a shape with a zero dimension or no points produces no segments")
    for cname, want, msg in (("Rect", {"self.width", "self.height"}, "a rect is degenerate when either side is zero"),
                             ("_RoundShape", {"self.implicit_rx", "self.implicit_ry"}, "a circle/ellipse is degenerate when either radius is zero"),
                             ("_Polyshape", {"self.points"}, "a polyshape without points is degenerate")):
        r = ctx.fn("%s.is_degenerate" % cname, "R06.3")
        rets = [x for x in ast.walk(r) if isinstance(x, ast.Return)]
        ctx.need(len(rets) == 1 and rets[0].value is not None, "R06.3", "%s.is_degenerate: single return expected" % cname)
        got, conj = zero_tests(ctx, r, rets[0].value)
        alt = {"self.rx", "self.ry"} if cname == "_RoundShape" else want
        ctx.ob("R06.3", "%s.is_degenerate" % cname, (want <= got or alt <= got) and not conj, "zero tests (disjunctive): %s" % sorted(got), r.lineno, msg)


def direction_by_determinant(ctx):
    """A transformed circle/ellipse is traversed the other way round exactly when the matrix reverses orientation, i.e. when its
    determinant is negative.  The product of the two diagonal entries has that sign only while the off-diagonal entries are
    zero: matrix(0 1 1 0 0 0) is a reflection with a = d = 0."""
    fn = ctx.fn("_RoundShape.segments", "R06.5")
    flips = [st for st in stmts_in(fn.body) if isinstance(st, ast.If) and any(isinstance(a, ast.Assign) and isinstance(a.value, ast.UnaryOp) and isinstance(a.value.op, ast.USub) for a in st.body)]
    ctx.need(len(flips) == 1, "R06.5", "_RoundShape.segments: direction flip not found")
    t = flips[0].test
    src = ast.unparse(t)
    uses_det = "determinant" in {n.attr for n in ast.walk(t) if isinstance(n, ast.Attribute)} or \
        any(isinstance(b, ast.BinOp) and isinstance(b.op, ast.Sub) and isinstance(b.left, ast.BinOp) and isinstance(b.right, ast.BinOp) for b in ast.walk(t))
    diag_only = {"value_scale_x", "value_scale_y"} <= {n.attr for n in ast.walk(t) if isinstance(n, ast.Attribute)} and not uses_det
    # which criterion is used (part of the finding key: the recorded finding is the product form only)
    defs = {tg.id: v for tg, v, n_ in bindings(fn) if isinstance(tg, ast.Name)}

    def res(e, depth=0):
        return res(defs[e.id], depth + 1) if isinstance(e, ast.Name) and e.id in defs and depth < 3 else e

    def diag(e):
        e = res(e)
        while isinstance(e, ast.Call) and isinstance(e.func, ast.Name) and e.func.id == "float" and e.args:
            e = res(e.args[0])
        if isinstance(e, ast.Call) and isinstance(e.func, ast.Attribute) and e.func.attr in ("value_scale_x", "value_scale_y"):
            return e.func.attr
        if isinstance(e, ast.Attribute) and e.attr in ("a", "d"):
            return {"a": "value_scale_x", "d": "value_scale_y"}[e.attr]
        return None

    crit = "other"
    if uses_det:
        crit = "determinant"
    else:
        prods = [c for c in ast.walk(t) if isinstance(c, ast.Compare) and len(c.ops) == 1 and isinstance(c.ops[0], ast.Lt) and isinstance(c.comparators[0], ast.Constant) and c.comparators[0].value == 0
                 and isinstance(res(c.left), ast.BinOp) and isinstance(res(c.left).op, ast.Mult) and {diag(res(c.left).left), diag(res(c.left).right)} == {"value_scale_x", "value_scale_y"}]
        others = [c for c in ast.walk(t) if isinstance(c, ast.Compare) and c not in prods and any(diag(x) for x in [c.left] + c.comparators)]
        if prods and not others:
            crit = "sign of a*d"
    ctx.ob("R06.5", "_RoundShape.segments[direction reversed iff the determinant is negative]", uses_det and not diag_only, src[:100], flips[0].lineno,
           "the sign of a*d is the sign of the determinant only without rotation/shear: under matrix(0 1 1 0 0 0) or scale(-1,1) rotate(90) the ellipse is traversed the wrong way round"
           " (criterion used: %s; `a < 0 or d < 0` is also true for a half turn, which preserves orientation)" % crit, detail="" if crit == "determinant" else crit)


def clamp_after_render(ctx):
    """_validate_rect clamps rx/ry to half the sides inside `try: ... except ValueError: pass`: with a unit or percentage still
    unresolved the comparison raises and the clamp is skipped.  Rect.render is where those lengths get their values; the clamp
    has to happen (again) after that, or a rect whose radius or side carries a unit is never clamped."""
    vr = ctx.fn("Rect._validate_rect", "R06.2")
    skipped = any(isinstance(t, ast.Try) and any(isinstance(c, ast.Call) and call_name(c) == "min" for st in t.body for c in ast.walk(st))
                  and any(all(isinstance(x, ast.Pass) for x in h.body) for h in t.handlers) for t in ast.walk(vr))
    rn = ctx.fn("Rect.render", "R06.2")
    order = {id(st): k for k, st in enumerate(stmts_in(rn.body))}
    _res = Taint(rn, lambda n_: isinstance(n_, ast.Call) and isinstance(n_.func, ast.Attribute) and n_.func.attr == "value", through_containers=False)
    resolves = [st for st in stmts_in(rn.body) if isinstance(st, ast.Assign) and _res.derived(st.value)]
    ctx.need(bool(resolves), "R06.2", "Rect.render: length resolution not found")
    again = [st for st in stmts_in(rn.body) if isinstance(st, ast.Expr) and isinstance(st.value, ast.Call) and attr_chain(st.value.func) == ["self", "_validate_rect"]]
    clamps = [st for st in stmts_in(rn.body) if any(isinstance(c, ast.Call) and call_name(c) == "min" for c in ast.walk(st))]
    after = [st for st in again + clamps if order[id(st)] > max(order[id(r)] for r in resolves)]
    ctx.ob("R06.2", "Rect.render[radii clamped once the lengths are resolved]", (not skipped) or bool(after),
           "clamp in _validate_rect is skipped on ValueError: %s; clamp after resolution in render: %s" % (skipped, bool(after)), rn.lineno,
           "<rect width=\"40\" height=\"40\" rx=\"1in\"/> keeps rx = 96: the clamp to half the side ran before the unit was resolved and was skipped")
    # ... whichever of the six lengths it was that had to be resolved: the skipped clamp is as much a matter of the SIDES being
    # unresolved (width="1in" rx="80") as of the radii, so the repetition must not depend on what was resolved
    if skipped and after:
        top = [st for st in after if any(st is x for x in rn.body)]
        ctx.ob("R06.2", "Rect.render[the clamp is repeated on every path]", bool(top), "unconditional statements of render among %d clamp(s) after the resolution: %d" % (len(after), len(top)), after[0].lineno,
               "<rect width=\"1in\" height=\"0.5in\" rx=\"80\"/>: the constructor could not clamp (the sides were lengths) and render re-validates only when a radius was a length")


def save_restore(ctx, rule="R06.4"):
    """segments() may flip a field of the shape while it builds the decomposition (self.apply selects the transformed form);
    every field it writes is saved first and restored on every exit."""
    n = 0
    for cname in ("Rect", "_RoundShape", "SimpleLine", "_Polyshape", "Path"):
        fn = ctx.fn("%s.segments" % cname, rule)
        order = {id(s): k for k, s in enumerate(stmts_in(fn.body))}
        fields = sorted({ast.unparse(t) for s in stmts_in(fn.body) if isinstance(s, (ast.Assign, ast.AugAssign)) for t in (s.targets if isinstance(s, ast.Assign) else [s.target])
                         if isinstance(t, ast.Attribute) and isinstance(t.value, ast.Name) and t.value.id == "self"})
        for field in fields:
            n += 1
            cons = "%s.segments[%s restored on every exit]" % (cname, field.replace("self.", ""))
            saves = [s for s in fn.body if isinstance(s, ast.Assign) and ast.unparse(s.value) == field and isinstance(s.targets[0], ast.Name)]
            writes = [s for s in stmts_in(fn.body) if isinstance(s, (ast.Assign, ast.AugAssign)) and any(ast.unparse(t) == field for t in (s.targets if isinstance(s, ast.Assign) else [s.target]))]
            if len(saves) != 1:
                ctx.ob(rule, cons, False, "overwritten without being saved first", writes[0].lineno, "the decomposition changes a field of the shape it reads")
                continue
            saved = saves[0].targets[0].id
            is_restore = lambda s: isinstance(s, ast.Assign) and ast.unparse(s.targets[0]) == field and ast.unparse(s.value) == saved
            changing = [w for w in writes if not is_restore(w)]
            if not changing:
                continue
            first_write = min(order[id(w)] for w in changing)
            ctx.need(order[id(saves[0])] < first_write, rule, "%s.segments: %s saved after it is overwritten" % (cname, field))
            in_finally = any(isinstance(t, ast.Try) and any(is_restore(s) for s in t.finalbody) for t in ast.walk(fn))
            bad = []
            for r in stmts_in(fn.body):
                if isinstance(r, ast.Return) and order[id(r)] > first_write:
                    blk = None
                    for node in ast.walk(fn):
                        for fld in ("body", "orelse"):
                            b = getattr(node, fld, None)
                            if isinstance(b, list) and r in b:
                                blk = b
                    restored = any(is_restore(s) and order[id(s)] < order[id(r)] for s in blk) \
                        or any(is_restore(s) and first_write < order[id(s)] < order[id(r)] for s in fn.body)
                    if not (restored or in_finally):
                        bad.append("return line %d" % r.lineno)
            ctx.ob(rule, cons, not bad, "; ".join(bad), fn.lineno,
                   "the decomposition leaves %s changed on this exit: the shape silently stops applying its transform (or starts to)" % field)
    ctx.need(n >= 1, rule, "no decomposition overwrites a field of its shape (rule has nothing to check)")


def plumbing(ctx):
    d = ctx.fn("Shape.d", "R06.6")
    tpar = [a.arg for a in d.args.args]
    segcalls = [c for c in ast.walk(d) if isinstance(c, ast.Call) and attr_chain(c.func) == ["self", "segments"]]
    passes_t = bool(segcalls) and all(any(isinstance(v, ast.Name) and v.id == "transformed" for v in list(c.args) + [k.value for k in c.keywords]) for c in segcalls)
    t1 = Taint(d, lambda n: any(n is c for c in segcalls), through_containers=False)
    paths = [c for c in ast.walk(d) if isinstance(c, ast.Call) and call_name(c) == "Path" and c.args and t1.derived(c.args[0])]
    t2 = Taint(d, lambda n: any(n is c for c in paths), through_containers=False)
    dcalls = [c for c in ast.walk(d) if isinstance(c, ast.Call) and isinstance(c.func, ast.Attribute) and c.func.attr == "d" and t2.derived(c.func.value)
              and any(isinstance(v, ast.Name) and v.id == "relative" for v in list(c.args) + [k.value for k in c.keywords])]
    t3 = Taint(d, lambda n: any(n is c for c in dcalls), through_containers=False)
    rets = [r for r in ast.walk(d) if isinstance(r, ast.Return) and r.value is not None]
    ok = "transformed" in tpar and passes_t and bool(dcalls) and bool(rets) and all(t3.derived(r.value) for r in rets)
    ctx.ob("R06.6", "Shape.d", ok, "", d.lineno, "shape.d() is the path data of its decomposition")
    pi = ctx.fn("Path.__init__", "R06.6")
    ok = False
    for br in ast.walk(pi):
        if isinstance(br, ast.If) and isinstance(br.test, ast.Call) and call_name(br.test) == "isinstance" and len(br.test.args) == 2 \
                and isinstance(br.test.args[0], ast.Name) and isinstance(br.test.args[1], ast.Name) and br.test.args[1].id == "Shape":
            subj = br.test.args[0].id
            sc = [c for s_ in br.body for c in ast.walk(s_) if isinstance(c, ast.Call) and isinstance(c.func, ast.Attribute) and c.func.attr == "segments"
                  and isinstance(c.func.value, ast.Name) and c.func.value.id == subj]
            untransformed = bool(sc) and all(any(const_value(ctx.m, v, "?") is False for v in list(c.args) + [k.value for k in c.keywords]) for c in sc)
            init = [c for c in ast.walk(pi) if isinstance(c, ast.Call) and attr_chain(c.func) == ["Shape", "__init__"] and any(isinstance(a, ast.Starred) for a in c.args)]
            ok = ok or (untransformed and bool(init))
    ctx.ob("R06.6", "Path(shape)", ok, "", pi.lineno, "Path(shape) takes the untransformed decomposition and copies transform and paint through the shape copy constructor")
    eq = ctx.fn("Shape.__eq__", "R06.6")
    other = eq.args.args[1].arg
    tp = {}
    for who in ("self", other):
        tp[who] = Taint(eq, lambda n, who=who: isinstance(n, ast.Call) and call_name(n) == "Path" and n.args and who in names(n.args[0]), seeds=(), through_containers=False)
        # the operand itself may flow through a local before Path() is applied
        pre = Taint(eq, lambda n, who=who: isinstance(n, ast.Name) and n.id == who, through_containers=False)
        tp[who] = Taint(eq, lambda n, pre=pre: isinstance(n, ast.Call) and call_name(n) == "Path" and n.args and pre.derived(n.args[0]), through_containers=False)
    cmp_ = [r.value for r in ast.walk(eq) if isinstance(r, ast.Return) and isinstance(r.value, ast.Compare) and len(r.value.ops) == 1 and isinstance(r.value.ops[0], ast.Eq)]
    okc = any((tp["self"].derived(c.left) and tp[other].derived(c.comparators[0])) or (tp[other].derived(c.left) and tp["self"].derived(c.comparators[0])) for c in cmp_)
    paint = any(isinstance(c, ast.Compare) and {".".join(attr_chain(x) or []) for x in [c.left] + c.comparators} == {"self.fill", other + ".fill"} for c in ast.walk(eq))
    ctx.ob("R06.6", "Shape.__eq__", okc and paint, "path comparison %s, paint comparison %s" % (okc, paint), eq.lineno, "shapes compare equal through their path forms (and paint)")
    pe = ctx.fn("Path.__eq__", "R06.6")
    other = pe.args.args[1].arg
    ta = Taint(pe, lambda n: isinstance(n, ast.Call) and call_name(n) == "abs" and n.args and isinstance(n.args[0], ast.Name) and n.args[0].id == "self", through_containers=False)
    tb = Taint(pe, lambda n: isinstance(n, ast.Call) and call_name(n) == "abs" and n.args and isinstance(n.args[0], ast.Name) and n.args[0].id == other, through_containers=False)
    zips = [c for c in ast.walk(pe) if isinstance(c, ast.Call) and call_name(c) == "zip" and len(c.args) == 2]
    ok = any((ta.derived(z.args[0]) and tb.derived(z.args[1])) or (tb.derived(z.args[0]) and ta.derived(z.args[1])) for z in zips)
    direct = [c for c in ast.walk(pe) if isinstance(c, ast.Compare) and len(c.ops) == 1 and isinstance(c.ops[0], (ast.Eq, ast.NotEq))
              and ((ta.derived(c.left) and tb.derived(c.comparators[0])) or (tb.derived(c.left) and ta.derived(c.comparators[0])))]
    ctx.ob("R06.6", "Path.__eq__", ok or bool(direct), "", pe.lineno, "paths compare in transformed (reified) form, segment by segment")
    from .c02 import transformed_decomposition
    # R06.5 shares the obligations of C02.5 under this property's id
    for cname in ("Rect", "_RoundShape", "SimpleLine", "_Polyshape"):
        fn = ctx.fn("%s.segments" % cname, "R06.5")
        scalar = sorted({n.attr for n in ast.walk(fn) if isinstance(n, ast.Attribute) and isinstance(n.value, ast.Name) and n.value.id == "self"
                         and (n.attr.startswith("implicit_") or n.attr == "rotation")})
        def is_tr(n):
            ch = attr_chain(n)
            return bool(ch) and ch[-1] == "transform"

        mult = any(isinstance(n, ast.BinOp) and isinstance(n.op, ast.Mult) and is_tr(n.right) for n in ast.walk(fn)) \
            or any(isinstance(n, ast.AugAssign) and isinstance(n.op, ast.Mult) and is_tr(n.value) for n in ast.walk(fn)) \
            or any(isinstance(n, ast.Attribute) and n.attr == "point_in_matrix_space" and is_tr(n.value) for n in ast.walk(fn))
        ctx.ob("R06.5", "%s.segments" % cname, mult and not scalar, "scalar quantities derived from the matrix: %s; applies matrix: %s" % (scalar, mult), fn.lineno,
               "a transformed decomposition rebuilt from radii/rotation read off the matrix is exact only for similarity-like matrices")


def transformed_selection(ctx):
    """When is the matrix applied?  transformed and not identity -> the image of the untransformed decomposition; otherwise the decomposition itself."""
    from ..segeval import Mapped

    for tr, ident in ((True, False), (True, True), (False, False)):
        tag = "transformed=%s, identity transform=%s" % (tr, ident)
        holder = {}
        fn = ctx.fn("Rect.segments", "R06.5")
        ev = SegEval(ctx, "R06.5", "Rect.segments[%s]" % tag, SEG_KINDS, lambda t, lf=rect_leaf(holder, True, transformed=tr, identity=ident): boolean(t, lf))
        holder["ev"] = ev
        seq = result_sequence(ev, ev.run(fn.body), "R06.5", "Rect.segments[%s]" % tag)
        mapped = len(seq) == 1 and isinstance(seq[0], Mapped) and seq[0].what.replace(" ", "") == "self.transform" and len(seq[0].inner) == 5
        plain = len(seq) == 5 and all(isinstance(x, Seg) for x in seq)
        want_mapped = tr and not ident
        ctx.ob("R06.5", "Rect.segments[%s]" % tag, mapped if want_mapped else plain, "image of the decomposition" if mapped else "plain decomposition" if plain else "neither", fn.lineno,
               "the matrix is applied exactly when a transformed decomposition is requested (and the transform is not the identity)")
        # a polygon (the isinstance test answers yes): move, linetos and the close all read one point list
        fn, ev, out = extract(ctx, "_Polyshape.segments", "R06.5", lambda n, tr=tr, ident=ident: common_leaf(n, transformed=tr, identity=ident)
                              if not (isinstance(n, ast.Call) and call_name(n) == "isinstance") else True, point_lists=("self.points",))
        seq = result_sequence(ev, out, "R06.5", "_Polyshape.segments[%s]" % tag)
        bases = []

        def collect(items):
            for x in items:
                if isinstance(x, Repeat):
                    collect(x.items)
                elif isinstance(x, Seg):
                    for a in x.args:
                        if isinstance(a, tuple) and len(a) == 3 and a[0] == "elem":
                            bases.append((a[1], x.kind, x.node.lineno))
                        elif a is not None:
                            bases.append((show(a), x.kind, x.node.lineno))

        collect(seq)
        is_img = lambda b: isinstance(b, str) and b.startswith("map(") and "self.transform" in b and b.endswith("self.points)")
        okb = bool(bases) and all((is_img(b) if want_mapped else b == "self.points") for b, _, _ in bases)
        wrong = sorted({"%s reads %s (line %d)" % (k, b, ln) for b, k, ln in bases if not (is_img(b) if want_mapped else b == "self.points")})
        ctx.ob("R06.5", "_Polyshape.segments[%s]" % tag, okb, "; ".join(wrong) or "all %d point operands read %s" % (len(bases), bases[0][0] if bases else "?"), fn.lineno,
               "the matrix is applied exactly when a transformed decomposition is requested (and the transform is not the identity), and to every point of the decomposition", sample=False)
