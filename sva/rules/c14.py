"""C14 - fill, stroke and stroke width follow the SVG/CSS cascade and inheritance."""
import ast

from ..algebra import Alg, Uninterpreted, atom, const, opaque_name
from ..model import AnalysisError, attr_chain, call_name, stmts_in

EXPLANATION = (
    "Static rules over the style assembly in SVG.parse and the paint handling of GraphicObject (no execution). R14.1 "
    "specificity order: the statements that append rule text to the style accumulator are read in program order (loops "
    "unrolled twice), each classified by the selector key it looks up (*, type, .class, type.class, #id, inline style) and "
    "weighted by CSS 2.1 section 6.4.3; because the fold that follows assigns unconditionally (last wins) the sequence must be "
    "non-decreasing; presentation attributes are the base the fold overrides. R14.2 stylesheet reading: comments are removed "
    "before rules are matched, selector lists are split on commas, repeated selectors accumulate in source order. R14.3 "
    "defaults and inheritance: initial fill black / stroke none / the caller's color, stroke width default 1, children start "
    "from a copy of the parent's values. R14.4 currentColor resolves from the element's own color before the inherited one, "
    "for fill and stroke alike. R14.5: fill/stroke opacity are folded into the colour's alpha through the opacity setter; the "
    "effective stroke width is width x sqrt(|det|) of the accumulated transform, or of the viewport transform alone under "
    "non-scaling-stroke; a percentage stroke width resolves against sqrt((w^2 + h^2)/2). Not decided: the cascade outcome on "
    "generated documents; source order between different selectors of equal specificity (rules are stored per selector)."
)
ASSUMPTIONS = [
    "CSS 2.1 section 6.4.3 specificity: universal 0, type 1, class 10, type.class 11, id 100; the inline style attribute outranks all selectors.",
    "Only the selector forms the module supports are considered (no combinators, pseudo-classes or !important).",
]
FLOORS = {"R14.1": 6, "R14.2": 3, "R14.3": 4, "R14.4": 2, "R14.5": 5}

WEIGHT = {"*": 0, "type": 1, ".class": 10, "type.class": 11, "#id": 100, "inline": 1000}


def run(ctx):
    ctx.rule("R14.1", "specificity order of style assembly under a last-wins fold")
    ctx.rule("R14.2", "stylesheet reading")
    ctx.rule("R14.3", "defaults and inheritance")
    ctx.rule("R14.4", "currentColor source order")
    ctx.rule("R14.5", "opacity folding and stroke-width scaling")
    fn = ctx.fn("SVG.parse", "R14.1")
    specificity(ctx, fn)
    stylesheet(ctx, fn)
    defaults(ctx, fn)
    current_color(ctx, fn)
    paint(ctx)


def classify_key(node, fmt_of):
    """Selector kind of the key expression used to index the style table."""
    if isinstance(node, ast.Constant) and node.value == "*":
        return "*"
    if isinstance(node, ast.Name):
        if node.id == "tag":
            return "type"
        f = fmt_of.get(node.id)
        return f
    return None


def fmt_kind(value):
    """'#%s' % x -> '#id' ; '.%s' -> '.class' ; '%s.%s' -> 'type.class'"""
    if isinstance(value, ast.BinOp) and isinstance(value.op, ast.Mod) and isinstance(value.left, ast.Constant) and isinstance(value.left.value, str):
        f = value.left.value
        return {"#%s": "#id", ".%s": ".class", "%s.%s": "type.class"}.get(f)
    if isinstance(value, ast.JoinedStr):
        lits = "".join(v.value if isinstance(v, ast.Constant) else "%s" for v in value.values)
        return {"#%s": "#id", ".%s": ".class", "%s.%s": "type.class"}.get(lits)
    if isinstance(value, ast.BinOp) and isinstance(value.op, ast.Add):
        src = ast.unparse(value)
        if src.startswith("'#' +"):
            return "#id"
        if src.startswith("'.' +"):
            return ".class"
    return None


def sequence(stmts, fmt_of, acc, table):
    """Ordered list of (kind, line) for `acc += table[K]` statements; loops unrolled twice."""
    out = []
    for s in stmts:
        if isinstance(s, ast.Assign) and isinstance(s.targets[0], ast.Name):
            k = fmt_kind(s.value)
            if k:
                fmt_of[s.targets[0].id] = k
            continue
        if isinstance(s, ast.AugAssign) and isinstance(s.op, ast.Add) and isinstance(s.target, ast.Name) and s.target.id == acc:
            v = s.value
            if isinstance(v, ast.Subscript) and isinstance(v.value, ast.Name) and v.value.id == table:
                k = classify_key(v.slice, fmt_of)
                out.append((k, s.lineno))
            elif isinstance(v, ast.Subscript) and ast.unparse(v.value) == "attributes" and ast.unparse(v.slice) in ("SVG_ATTR_STYLE", "'style'"):
                out.append(("inline", s.lineno))
            elif isinstance(v, ast.Constant) and v.value == ";":
                pass
            else:
                out.append((None, s.lineno))
            continue
        if isinstance(s, ast.If):
            out += sequence(s.body, fmt_of, acc, table)
            out += sequence(s.orelse, fmt_of, acc, table)
            continue
        if isinstance(s, ast.For):
            once = sequence(s.body, fmt_of, acc, table)
            out += once + once
            continue
    return out


def specificity(ctx, fn):
    # the region: from `style = ""` to the fold loop `for equate in style.split(";")`
    start = fold = None
    body = None
    for node in ast.walk(fn):
        for field in ("body", "orelse"):
            b = getattr(node, field, None)
            if isinstance(b, list):
                for i, s in enumerate(b):
                    if isinstance(s, ast.Assign) and isinstance(s.targets[0], ast.Name) and isinstance(s.value, ast.Constant) and s.value.value == "" \
                            and any(isinstance(x, ast.For) and "%s.split" % s.targets[0].id in ast.unparse(x.iter) for x in b[i:]):
                        body, start = b, i
    ctx.need(body is not None, "R14.1", "style accumulator not found")
    acc = body[start].targets[0].id
    for j in range(start, len(body)):
        if isinstance(body[j], ast.For) and "%s.split" % acc in ast.unparse(body[j].iter):
            fold = j
    ctx.need(fold is not None, "R14.1", "fold loop not found")
    table = "styles"
    seq = sequence(body[start + 1:fold], {}, acc, table)
    ctx.need(len(seq) >= 6 and all(k is not None for k, _ in seq), "R14.1", "style assembly statements not classified: %s" % seq)
    kinds_present = {k for k, _ in seq}
    for k in WEIGHT:
        ctx.ob("R14.1", "style assembly[%s selector applied]" % k, k in kinds_present, str(sorted(kinds_present)), body[start].lineno, "selector kind is never consulted")
    prev = None
    for k, line in seq:
        if prev is not None:
            ok = WEIGHT[prev[0]] <= WEIGHT[k]
            ctx.ob("R14.1", "style assembly[%s then %s]" % (prev[0], k), ok, "line %d (weight %d) precedes line %d (weight %d)" % (prev[1], WEIGHT[prev[0]], line, WEIGHT[k]), line,
                   "with a last-wins fold a lower-specificity rule appended later overrides a higher-specificity one")
        prev = (k, line)
    # the fold assigns unconditionally: last wins; it writes into the attribute dictionary built from the element's attributes
    f = body[fold]
    asg = [s for s in ast.walk(f) if isinstance(s, ast.Assign) and isinstance(s.targets[0], ast.Subscript) and ast.unparse(s.targets[0].value) == "attributes"]
    guarded = any(isinstance(getattr(a, "_parent", None), ast.If) and "not in attributes" in ast.unparse(a._parent.test) for a in asg)
    ctx.ob("R14.1", "style fold[last wins, over presentation attributes]", len(asg) == 1 and not guarded, "", f.lineno,
           "declarations are applied left to right, each overriding earlier ones and the presentation attribute")
    base = any(isinstance(s, ast.Assign) and ast.unparse(s.targets[0]) == "attributes" and ast.unparse(s.value) == "dict(elem.attrib)" and s.lineno < body[start].lineno for s in ast.walk(fn))
    ctx.ob("R14.1", "style fold[base = presentation attributes]", base, "", body[start].lineno, "presentation attributes have the lowest priority")
    ok = "split(';')" in ast.unparse(f.iter) and any("split(':')" in ast.unparse(s) for s in ast.walk(f)) and any(".strip()" in ast.unparse(s) for s in ast.walk(f))
    ctx.ob("R14.1", "style fold[declaration syntax]", ok, "", f.lineno, "declarations are separated by ';', property and value by ':', white space trimmed")


def stylesheet(ctx, fn):
    br = None
    for s in ast.walk(fn):
        if isinstance(s, ast.If) and ast.unparse(s.test) in ("SVG_TAG_STYLE == tag", "tag == SVG_TAG_STYLE") and any("REGEX_CSS_STYLE" in ast.unparse(x) for x in s.body):
            br = s
    ctx.need(br is not None, "R14.2", "style element branch not found")
    lines = {}
    for s in stmts_in(br.body):
        src = ast.unparse(s)
        if isinstance(s, ast.Assign) and "REGEX_CSS_COMMENT" in src and "re.sub" in src:
            lines["strip"] = s.lineno
        if isinstance(s, ast.Assign) and "REGEX_CSS_STYLE" in src:
            lines["match"] = s.lineno
    ctx.ob("R14.2", "stylesheet[comments stripped before matching]", "strip" in lines and "match" in lines and lines["strip"] < lines["match"], str(lines), br.lineno,
           "a comment containing braces or selectors must not be read as a rule")
    src = ast.unparse(br)
    ctx.ob("R14.2", "stylesheet[selector lists]", "key.split(',')" in src and ".strip()" in src, "", br.lineno, "a comma list applies the declarations to every selector in it")
    ok = "if sel not in styles" in src and "styles[sel] = value" in src and "styles[sel] += value" in src
    ctx.ob("R14.2", "stylesheet[repeated selectors accumulate in order]", ok, "", br.lineno, "a later rule for the same selector is appended after the earlier one (and so wins)")
    ok = "endswith(';')" in src and "styles[sel] += ';'" in src
    ctx.ob("R14.2", "stylesheet[separator between accumulated blocks]", ok, "", br.lineno, "blocks are joined with a declaration separator")


def defaults(ctx, fn):
    init = None
    for s in fn.body:
        if isinstance(s, ast.Assign) and isinstance(s.value, ast.Dict) and ast.unparse(s.targets[0]) == "values":
            init = s
    ctx.need(init is not None, "R14.3", "initial values not found")
    d = {ast.unparse(k): ast.unparse(v) for k, v in zip(init.value.keys, init.value.values)}
    ctx.ob("R14.3", "initial values[fill black]", d.get("SVG_ATTR_FILL") == "'black'", str(d), init.lineno, "the initial fill is black")
    ctx.ob("R14.3", "initial values[stroke none]", d.get("SVG_ATTR_STROKE") == "'none'", str(d), init.lineno, "the initial stroke is none")
    ctx.ob("R14.3", "initial values[color from caller]", d.get("SVG_ATTR_COLOR") == "color", str(d), init.lineno, "currentColor outside the document is the caller's colour")
    src = ast.unparse(fn)
    ctx.ob("R14.3", "inheritance[children start from a copy of the parent's values]", "current_values = values\n" in src and "values = {}\n" in src and "values.update(current_values)" in src, "", fn.lineno,
           "a property the element does not set is inherited; siblings must not see each other's values")
    ctx.ob("R14.3", "inheritance[element's own values override inherited]", "values.update(attributes)" in src, "", fn.lineno, "")
    g = ctx.fn("GraphicObject.property_by_values", "R14.3")
    gs = ast.unparse(g)
    ctx.ob("R14.3", "stroke width default 1", "values.get('stroke_width', 1.0)" in gs and "values.get(SVG_ATTR_STROKE_WIDTH, self.stroke_width)" in gs, "", g.lineno, "the initial stroke width is 1")


def current_color(ctx, fn):
    blocks = {}
    for s in ast.walk(fn):
        if isinstance(s, ast.If) and "SVG_VALUE_CURRENT_COLOR" in ast.unparse(s.test):
            for prop in ("SVG_ATTR_FILL", "SVG_ATTR_STROKE"):
                if "attributes[%s] == SVG_VALUE_CURRENT_COLOR" % prop in ast.unparse(s.test):
                    blocks[prop] = s
    for prop in ("SVG_ATTR_FILL", "SVG_ATTR_STROKE"):
        b = blocks.get(prop)
        ok = False
        if b is not None and len(b.body) == 1 and isinstance(b.body[0], ast.If):
            i = b.body[0]
            ok = ast.unparse(i.test) == "SVG_ATTR_COLOR in attributes" and ast.unparse(i.body[0]) == "attributes[%s] = attributes[SVG_ATTR_COLOR]" % prop \
                and i.orelse and ast.unparse(i.orelse[0]) == "attributes[%s] = values[SVG_ATTR_COLOR]" % prop
        ctx.ob("R14.4", "currentColor[%s]" % prop, ok, "", b.lineno if b is not None else fn.lineno,
               "currentColor is the element's own color property if it sets one, otherwise the inherited one")


def paint(ctx):
    g = ctx.fn("GraphicObject.property_by_values", "R14.5")
    src = ast.unparse(g)
    for kind in ("stroke", "fill"):
        ok = "self.%s.opacity = float(%s_opacity)" % (kind, kind) in src and "%s_opacity = values.get(SVG_ATTR_%s_OPACITY, %s_opacity)" % (kind, kind.upper(), kind) in src \
            and "self.%s = Color(%s) if %s is not None else None" % (kind, kind, kind) in src
        ctx.ob("R14.5", "GraphicObject.property_by_values[%s opacity folded]" % kind, ok, "", g.lineno, "%s-opacity multiplies into the colour's alpha channel" % kind)
    op = ctx.m.cls("Color").setters.get("opacity")
    s = ast.unparse(op)
    ctx.ob("R14.5", "Color.opacity setter", "round(opacity * 255.0)" in s and "self.alpha = a" in s, "", op.lineno, "opacity sets alpha = round(255 x opacity)")
    isw = ctx.m.cls("GraphicObject").getters.get("implicit_stroke_width")
    ctx.need(isw is not None, "R14.5", "implicit_stroke_width not found")
    rets = [r for r in ast.walk(isw) if isinstance(r, ast.Return) and isinstance(r.value, ast.BinOp)]
    ok = False
    detail = ""
    if rets:
        a = Alg()
        for st in stmts_in(isw.body):
            if isinstance(st, ast.Assign) and isinstance(st.targets[0], ast.Name) and st.targets[0].id in ("width", "det"):
                try:
                    a.assign(st)
                except Uninterpreted:
                    pass
        got = a.ev(rets[0].value)
        want = atom("self.stroke_width") * atom(opaque_name("sqrt", [atom(opaque_name("abs", [atom("transform.determinant")]))]))
        detail = str(got)
        ok = got == want
    ctx.ob("R14.5", "implicit_stroke_width[width x sqrt|det|]", ok, detail, isw.lineno, "the stroke scales with the square root of the absolute determinant of the transform")
    s = ast.unparse(isw)
    ok = "SVG_ATTR_VECTOR_EFFECT in self.values" in s and "SVG_VALUE_NON_SCALING_STROKE in self.values[SVG_ATTR_VECTOR_EFFECT]" in s and "transform = Matrix(self.values.get('viewport_transform', ''))" in s \
        and "transform = self.transform" in s
    ctx.ob("R14.5", "implicit_stroke_width[non-scaling-stroke uses the viewport transform]", ok, "", isw.lineno, "under vector-effect: non-scaling-stroke only the viewport transform scales the stroke")
    r = ctx.fn("GraphicObject.reify", "R14.5")
    ctx.ob("R14.5", "GraphicObject.reify", "self.stroke_width = self.implicit_stroke_width" in ast.unparse(r), "", r.lineno, "reifying applies the effective stroke width")
    rn = ctx.fn("GraphicObject.render", "R14.5")
    call = [c for c in ast.walk(rn) if isinstance(c, ast.Call) and isinstance(c.func, ast.Attribute) and c.func.attr == "value" and "stroke_width" in ast.unparse(c.func.value)]
    ctx.need(len(call) == 1, "R14.5", "GraphicObject.render: stroke width resolution not found")
    rl = [k.value for k in call[0].keywords if k.arg == "relative_length"]
    ok = False
    detail = ""
    if rl:
        got = Alg().ev(rl[0])
        w, h = atom("width"), atom("height")
        want = atom(opaque_name("sqrt", [(w * w + h * h) / const(2)]))
        alt = atom(opaque_name("sqrt", [w * w + h * h])) / atom(opaque_name("sqrt", [const(2)]))
        detail = str(got)
        ok = got == want or got == alt
    ctx.ob("R14.5", "GraphicObject.render[percentage stroke width]", ok, detail, rn.lineno,
           "a percentage stroke width refers to the normalised diagonal sqrt((w^2 + h^2)/2) of the viewport (SVG 1.1 section 7.10)")
