"""C14 - fill, stroke and stroke width follow the SVG/CSS cascade and inheritance."""
import ast

from ..algebra import Alg, Uninterpreted, atom, const, opaque_name
from ..flow import Taint, bindings, const_value, is_const, method_calls, names, regex_calls, root_name
from ..model import AnalysisError, attr_chain, call_name, eq_keys, stmts_in

EXPLANATION = (
    "Static rules over the style assembly in SVG.parse and the paint handling of GraphicObject (no execution). R14.1 "
    "specificity order: the statements that append rule text to the style accumulator are read in program order (loops "
    "unrolled twice; a loop over a literal list of selector spellings is followed element by element), each classified by "
    "the selector key it looks up (*, type, .class, type.class, #id, inline style) and weighted by CSS 2.1 section 6.4.3; "
    "because the fold that follows assigns unconditionally (last wins) the sequence must be non-decreasing; presentation "
    "attributes are the base the fold overrides. R14.2 stylesheet reading: comments are removed before rules are matched, "
    "selector lists are split on commas, repeated selectors accumulate in source order. R14.3 defaults and inheritance: "
    "initial fill black / stroke none / the caller's color, stroke width default 1, children start from a copy of the "
    "parent's values. R14.4 currentColor resolves from the element's own color before the inherited one, for fill and "
    "stroke alike. R14.5: fill/stroke opacity are folded into the colour's alpha through the opacity setter; the effective "
    "stroke width is width x sqrt(|det|) of the accumulated transform, or of the viewport transform alone under non-"
    "scaling-stroke; a percentage stroke width resolves against sqrt((w^2 + h^2)/2). Not decided: the cascade outcome on "
    "generated documents; source order between different selectors of equal specificity (rules are stored per selector)."
    ' R14.2 decides the language of the comment-stripping pattern as an automaton (compile flags honoured):'
    ' /**/, a comment holding a rule, a comment over two lines, a rule commented out on lines of its own are'
    ' all matched; the empty text is not; a // comment stops at the line end; and the block body is lazy or'
    ' cannot contain */.'
    " R14.2: a conditional declaration separator (`if not <text>.endswith(';')`) must examine the entry already"
    ' stored for the selector, not the block about to be appended.'
    ' R14.3: in GraphicObject.property_by_values the two-step read of a paint property (`x ='
    ' values.get(internal); x = values.get(ATTR, x)`) falls back to the same property.'
)
TECHNIQUE = (
    "static analysis (no execution): ordered specificity classification of style-assembly statements; def-use closure for comment-strip-before-match and accumulation order; source-order resolution of currentColor; canonical forms of stroke-width scaling"
)
ASSUMPTIONS = [
    "CSS 2.1 section 6.4.3 specificity: universal 0, type 1, class 10, type.class 11, id 100; the inline style attribute outranks all selectors.",
    "Only the selector forms the module supports are considered (no combinators, pseudo-classes or !important).",
]
FLOORS = {"R14.1": 6, "R14.2": 3, "R14.3": 4, "R14.4": 2, "R14.5": 5}

WEIGHT = {"*": 0, "type": 1, ".class": 10, "type.class": 11, "#id": 100, "inline": 1000}


def run(ctx):
    ctx.rule("R14.1", "specificity order of style assembly under a last-wins fold")
    ctx.rule("R14.2", "stylesheet reading")
    ctx.rule("R14.3", "defaults and inheritance")
    ctx.rule("R14.4", "currentColor source order")
    ctx.rule("R14.5", "opacity folding and stroke-width scaling")
    fn = ctx.fn("SVG.parse", "R14.1")
    attrs = specificity(ctx, fn)
    stylesheet(ctx, fn)
    vals = defaults(ctx, fn, attrs)
    current_color(ctx, fn, attrs, vals)
    paint(ctx)
    own_fallback(ctx)


def classify_key(node, fmt_of):
    """Selector kind of the key expression used to index the style table."""
    if isinstance(node, ast.Constant) and node.value == "*":
        return "*"
    if isinstance(node, ast.Name):
        if node.id == "tag":
            return "type"
        f = fmt_of.get(node.id)
        return f
    return None


def fmt_kind(value):
    """'#%s' % x -> '#id' ; '.%s' -> '.class' ; '%s.%s' -> 'type.class'"""
    if isinstance(value, ast.BinOp) and isinstance(value.op, ast.Mod) and isinstance(value.left, ast.Constant) and isinstance(value.left.value, str):
        f = value.left.value
        return {"#%s": "#id", ".%s": ".class", "%s.%s": "type.class"}.get(f)
    if isinstance(value, ast.JoinedStr):
        lits = "".join(v.value if isinstance(v, ast.Constant) else "%s" for v in value.values)
        return {"#%s": "#id", ".%s": ".class", "%s.%s": "type.class"}.get(lits)
    if isinstance(value, ast.Call) and isinstance(value.func, ast.Attribute) and value.func.attr == "format" and isinstance(value.func.value, ast.Constant) \
            and isinstance(value.func.value.value, str) and not value.keywords:
        import re as _re
        f = _re.sub(r"\{\d*\}", "%s", value.func.value.value)
        return {"#%s": "#id", ".%s": ".class", "%s.%s": "type.class"}.get(f)
    if isinstance(value, ast.BinOp) and isinstance(value.op, ast.Add):
        src = ast.unparse(value)
        if src.startswith("'#' +"):
            return "#id"
        if src.startswith("'.' +"):
            return ".class"
    return None


def sequence(ctx, stmts, fmt_of, acc, tagvar):
    """Ordered list of (kind, line, table) for `acc += table[K]` statements; loops unrolled twice."""
    out = []
    for s in stmts:
        if isinstance(s, ast.Assign) and isinstance(s.targets[0], ast.Name):
            k = fmt_kind(s.value)
            if k:
                fmt_of[s.targets[0].id] = k
            continue
        add = None
        if isinstance(s, ast.AugAssign) and isinstance(s.op, ast.Add) and isinstance(s.target, ast.Name) and s.target.id == acc:
            add = s.value
        elif isinstance(s, ast.Assign) and isinstance(s.targets[0], ast.Name) and s.targets[0].id == acc and isinstance(s.value, ast.BinOp) \
                and isinstance(s.value.op, ast.Add) and isinstance(s.value.left, ast.Name) and s.value.left.id == acc:
            add = s.value.right
        if add is not None:
            v = add
            if isinstance(v, ast.Subscript) and isinstance(v.value, ast.Name):
                if is_const(ctx.m, v.slice, "style"):
                    out.append(("inline", s.lineno, v.value.id))
                elif is_const(ctx.m, v.slice, "*"):
                    out.append(("*", s.lineno, v.value.id))
                elif isinstance(v.slice, ast.Name) and v.slice.id == tagvar:
                    out.append(("type", s.lineno, v.value.id))
                elif isinstance(v.slice, ast.Name):
                    out.append((fmt_of.get(v.slice.id), s.lineno, v.value.id))
                else:
                    out.append((fmt_kind(v.slice), s.lineno, v.value.id))
            elif isinstance(v, ast.Constant) and isinstance(v.value, str) and v.value.strip() == ";":
                out.append(("sep", s.lineno, None))
            else:
                out.append((None, s.lineno, None))
            continue
        if isinstance(s, ast.If):
            out += sequence(ctx, s.body, fmt_of, acc, tagvar)
            out += sequence(ctx, s.orelse, fmt_of, acc, tagvar)
            continue
        if isinstance(s, ast.For):
            if isinstance(s.iter, (ast.Tuple, ast.List)) and isinstance(s.target, ast.Name):
                # a loop over a literal list of selector spellings: the body once per element, in order
                once = []
                for e in s.iter.elts:
                    f2 = dict(fmt_of)
                    k = fmt_kind(e) or (fmt_of.get(e.id) if isinstance(e, ast.Name) else None)
                    if k:
                        f2[s.target.id] = k
                    else:
                        f2.pop(s.target.id, None)
                    once += sequence(ctx, s.body, f2, acc, tagvar)
                out += once
                continue
            once = sequence(ctx, s.body, fmt_of, acc, tagvar)
            out += once + once
            continue
    return out


def main_loop(ctx, fn, rule):
    """for <tag>, <event>, <elem> in ...: the document loop of SVG.parse"""
    loops = [s for s in fn.body if isinstance(s, ast.For) and isinstance(s.target, ast.Tuple) and len(s.target.elts) == 3 and all(isinstance(e, ast.Name) for e in s.target.elts)]
    ctx.need(len(loops) == 1, rule, "SVG.parse: document loop not found")
    return loops[0], [e.id for e in loops[0].target.elts]


def specificity(ctx, fn):
    # the region: from `style = ""` to the fold loop `for equate in style.split(";")`
    loop, (tagvar, _, elemvar) = main_loop(ctx, fn, "R14.1")
    start = fold = None
    body = None
    for node in ast.walk(fn):
        for field in ("body", "orelse"):
            b = getattr(node, field, None)
            if isinstance(b, list):
                for i, s in enumerate(b):
                    if isinstance(s, ast.Assign) and isinstance(s.targets[0], ast.Name) and isinstance(s.value, ast.Constant) and s.value.value == "" \
                            and any(isinstance(x, ast.For) and s.targets[0].id in names(x.iter) and method_calls(x.iter, "split") for x in b[i:]):
                        body, start = b, i
    ctx.need(body is not None, "R14.1", "style accumulator not found")
    acc = body[start].targets[0].id
    for j in range(start, len(body)):
        if isinstance(body[j], ast.For) and acc in names(body[j].iter) and method_calls(body[j].iter, "split"):
            fold = j
            break
    ctx.need(fold is not None, "R14.1", "fold loop not found")
    seq_all = sequence(ctx, body[start + 1:fold], {}, acc, tagvar)
    # rule texts are joined into one declaration list: between two of them there must be a ';' (a sheet rule's text need not
    # end in one), otherwise `fill:red` + `stroke:blue` becomes the single broken declaration `fill:redstroke:blue`
    missing = []
    prev_text = None
    sep_since = False
    for k, line, _ in seq_all:
        if k == "sep":
            sep_since = True
            continue
        if prev_text is not None and not sep_since:
            missing.append("%s (line %d) directly after %s (line %d)" % (k, line, prev_text[0], prev_text[1]))
        prev_text, sep_since = (k, line), False
    ctx.ob("R14.1", "style assembly[rule texts separated by ';']", not missing, "; ".join(missing[:3]), body[start].lineno,
           "`*{fill:red} rect{stroke:blue}` gives the rect the text `fill:redstroke:blue`: both rules are lost")
    seq = [x for x in seq_all if x[0] != "sep"]
    ctx.need(len(seq) >= 6 and all(k is not None for k, _, _ in seq), "R14.1", "style assembly statements not classified: %s" % [(k, l) for k, l, _ in seq])
    tables = {t for k, _, t in seq if k != "inline"}
    ctx.need(len(tables) == 1, "R14.1", "style assembly reads more than one rule table: %s" % sorted(tables))
    kinds_present = {k for k, _, _ in seq}
    for k in WEIGHT:
        ctx.ob("R14.1", "style assembly[%s selector applied]" % k, k in kinds_present, str(sorted(kinds_present)), body[start].lineno, "selector kind is never consulted")
    prev = None
    for k, line, _ in seq:
        if prev is not None:
            ok = WEIGHT[prev[0]] <= WEIGHT[k]
            ctx.ob("R14.1", "style assembly[%s then %s]" % (prev[0], k), ok, "line %d (weight %d) precedes line %d (weight %d)" % (prev[1], WEIGHT[prev[0]], line, WEIGHT[k]), line,
                   "with a last-wins fold a lower-specificity rule appended later overrides a higher-specificity one")
        prev = (k, line)
    # the fold assigns unconditionally: last wins; it writes into the attribute dictionary built from the element's attributes
    f = body[fold]
    inline_dicts = {t for k, _, t in seq if k == "inline"}
    asg = [s for s in ast.walk(f) if isinstance(s, ast.Assign) and isinstance(s.targets[0], ast.Subscript) and isinstance(s.targets[0].value, ast.Name)]
    ctx.need(asg, "R14.1", "style fold: no store into the attribute dictionary found")
    attrs = asg[0].targets[0].value.id

    def membership_guard(a):
        p = getattr(a, "_parent", None)
        while p is not None and p is not f:
            if isinstance(p, ast.If):
                for c in ast.walk(p.test):
                    if isinstance(c, ast.Compare) and isinstance(c.ops[0], (ast.In, ast.NotIn)) and attrs in names(c.comparators[0]):
                        return True
            p = getattr(p, "_parent", None)
        return False

    ok = len(asg) == 1 and not membership_guard(asg[0]) and inline_dicts == {attrs}
    ctx.ob("R14.1", "style fold[last wins, over presentation attributes]", ok, "stores: %d into %s" % (len(asg), attrs), f.lineno,
           "declarations are applied left to right, each overriding earlier ones and the presentation attribute")
    base = [v for t, v, n in bindings(loop) if isinstance(t, ast.Name) and t.id == attrs and n.lineno < body[start].lineno]
    ok = bool(base) and all(any(isinstance(x, ast.Attribute) and x.attr == "attrib" and root_name(x) == elemvar for x in ast.walk(v)) for v in base)
    ctx.ob("R14.1", "style fold[base = presentation attributes]", ok, "", body[start].lineno, "presentation attributes have the lowest priority")
    seps = {const_value(ctx.m, c.args[0]) for c in method_calls(f, "split") if c.args}
    ok = {";", ":"} <= seps and len(method_calls(f, "strip")) >= 2
    ctx.ob("R14.1", "style fold[declaration syntax]", ok, str(sorted(map(str, seps))), f.lineno, "declarations are separated by ';', property and value by ':', white space trimmed")
    return attrs


def _walk_tree(tree):
    for op, av in tree:
        yield op, av
        if isinstance(av, tuple):
            for x in av:
                if hasattr(x, "data") or (isinstance(x, list) and x and isinstance(x[0], tuple)):
                    yield from _walk_tree(x)
                elif isinstance(x, list):
                    for y in x:
                        if hasattr(y, "data"):
                            yield from _walk_tree(y)


def stylesheet(ctx, fn):
    loop, (tagvar, _, elemvar) = main_loop(ctx, fn, "R14.2")
    br = None
    for s in ast.walk(fn):
        if isinstance(s, ast.If):
            keys = eq_keys(s.test, lambda n: isinstance(n, ast.Name) and n.id == tagvar, ctx.m)
            if keys == ["style"] and regex_calls(ctx.m, s.body, lambda p: "{" in p):
                br = s
    ctx.need(br is not None, "R14.2", "style element branch not found")
    strip = regex_calls(ctx.m, br.body, lambda p: "/\\*" in p or "\\/\\*" in p)
    match = regex_calls(ctx.m, br.body, lambda p: "{" in p)
    ctx.need(len(match) == 1, "R14.2", "style element branch: rule matcher not found")
    mcall, _, margs = match[0]
    ok = False
    if len(strip) == 1 and strip[0][1] == "sub":
        scall = strip[0][0]
        t = Taint(br.body, lambda n: n is scall)
        # the text handed to the matcher must be computed from the stripped text and from nothing that bypasses it
        ok = all(t.derived(a) for a in margs) and bool(margs)
        if ok:
            # no later rebinding of the matched text from the raw element text
            raw = Taint(br.body, lambda n: isinstance(n, ast.Attribute) and n.attr == "text" and root_name(n) == elemvar)
            direct = [a for a in margs if any(isinstance(n, ast.Attribute) and n.attr == "text" for n in ast.walk(a))]
            ok = not direct and scall.lineno <= mcall.lineno and any(raw.derived(a) for a in scall.args)
    ctx.ob("R14.2", "stylesheet[comments stripped before matching]", ok, "strip calls: %d, match calls: %d" % (len(strip), len(match)), br.lineno,
           "a comment containing braces or selectors must not be read as a rule")
    from .. import rx as _rx

    # what the stripping pattern takes for a comment: /* ... */ over any number of lines, braces included; never the empty text
    if len(strip) == 1:
        cname = [x.id for x in ast.walk(strip[0][0]) if isinstance(x, ast.Name) and x.id in ctx.m.regexes and ("/\\*" in ctx.m.regexes[x.id] or "\\/\\*" in ctx.m.regexes[x.id])]
        ctx.need(cname, "R14.2", "comment pattern name not found")
        cpat, cfl = ctx.m.regexes[cname[0]], ctx.m.regex_flags.get(cname[0], 0)
        try:
            clang = _rx.Lang(cpat, flags=cfl)
        except _rx.Unsupported as e:
            raise AnalysisError("R14.2", "comment pattern not interpreted: %s" % e)
        for text, what in (("/**/", "empty comment"), ("/* .a{fill:red} */", "comment holding a rule"), ("/* a\n   b */", "comment spanning two lines"),
                           ("/*\n.a{fill:red}\n*/", "rule commented out on lines of its own"), ("/* * / ** */", "stars and slashes inside")):
            ctx.ob("R14.2", "stylesheet[comment pattern takes %s]" % what, clang.accepts(text), "%r %s %r" % (cpat, "matches" if clang.accepts(text) else "does not match", text), br.lineno,
                   "a CSS comment runs from /* to the next */ whatever lies between, line ends included: what the pattern leaves behind is read as rules")
        ctx.ob("R14.2", "stylesheet[comment pattern never empty]", not clang.nullable(), "%r" % cpat, br.lineno, "the pattern must not match the empty text")
        if clang.accepts("// a"):
            ctx.ob("R14.2", "stylesheet[line comment stops at the line end]", not clang.accepts("// a\n.b{fill:red}"), "%r flags %d" % (cpat, cfl), br.lineno,
                   "a // comment that runs over the line end removes the rules on the following lines")
        # ... and ends at the FIRST */: a lazy repeat, or a body that cannot contain */
        lazy = any(op is _rx.sre_c.MIN_REPEAT for op, av in _walk_tree(clang.tree))
        ctx.ob("R14.2", "stylesheet[comment ends at the first */]", lazy or not clang.accepts("/*a*/.b{fill:red}/*c*/"), "lazy repeat: %s" % lazy, br.lineno,
               "a greedy body swallows every rule between the first and the last comment of the sheet")
    # an empty block is a valid rule: the matcher must accept it, or `.c{} rect{fill:aqua}` files the second rule under "} rect"

    pat = None
    for name, p_ in ctx.m.regexes.items():
        if any(isinstance(x, ast.Name) and x.id == name for x in ast.walk(mcall)):
            pat = p_
    ctx.need(pat is not None, "R14.2", "style element branch: pattern of the rule matcher not folded")
    try:
        g = _rx.groups(_rx.parse(pat))
        block = _rx.sublang(g[2]) if 2 in g else None
    except (_rx.Unsupported, KeyError):
        block = None
    ctx.need(block is not None, "R14.2", "rule matcher: declaration-block group not interpreted")
    ctx.ob("R14.2", "stylesheet[an empty rule is a rule]", block.accepts(""), "declaration-block group of %r %s the empty text" % (pat, "accepts" if block.accepts("") else "rejects"), br.lineno,
           "with a non-empty block required, `.c{}` is skipped and the next match starts inside it: the following rule is stored under the selector '} rect' and never applies")
    # stores into the rule table
    stores = []
    for n in ast.walk(br):
        if isinstance(n, ast.Assign) and isinstance(n.targets[0], ast.Subscript) and isinstance(n.targets[0].value, ast.Name):
            stores.append((n.targets[0], n.value, n, "="))
        elif isinstance(n, ast.AugAssign) and isinstance(n.target, ast.Subscript) and isinstance(n.target.value, ast.Name) and isinstance(n.op, ast.Add):
            stores.append((n.target, n.value, n, "+="))
    ctx.need(stores, "R14.2", "style element branch: no store into the rule table")
    table = stores[0][0].value.id
    stores = [x for x in stores if x[0].value.id == table]
    fromm = Taint(br.body, lambda n: n is mcall)
    comma = [c for c in method_calls(br, "split") if c.args and is_const(ctx.m, c.args[0], ",") and fromm.derived(c.func.value)]
    ok = False
    if comma:
        fromsplit = Taint(br.body, lambda n: any(n is c for c in comma))
        ok = all(fromsplit.derived(t.slice) for t, _, _, _ in stores) and any(fromsplit.derived(c.func.value) for c in method_calls(br, "strip"))
    ctx.ob("R14.2", "stylesheet[selector lists]", ok, "", br.lineno, "a comma list applies the declarations to every selector in it (white space trimmed)")
    # accumulation: an existing entry is extended at its end, never replaced and never prefixed
    def reads_entry(e, key):
        for n in ast.walk(e):
            if isinstance(n, ast.Subscript) and isinstance(n.value, ast.Name) and n.value.id == table and ast.dump(n.slice) == ast.dump(key):
                return True
            if isinstance(n, ast.Call) and isinstance(n.func, ast.Attribute) and n.func.attr in ("get", "setdefault") and isinstance(n.func.value, ast.Name) and n.func.value.id == table:
                return True
        return False

    appends = [x for x in stores if x[3] == "+=" or (isinstance(x[1], ast.BinOp) and isinstance(x[1].op, ast.Add) and reads_entry(x[1].left, x[0].slice))]
    prepends = [x for x in stores if x[3] == "=" and isinstance(x[1], ast.BinOp) and isinstance(x[1].op, ast.Add) and reads_entry(x[1].right, x[0].slice) and not reads_entry(x[1].left, x[0].slice)]
    plain = [x for x in stores if x[3] == "=" and not reads_entry(x[1], x[0].slice)]

    def guarded_by_absence(st):
        """the plain store happens only when the selector has no entry yet"""
        p = getattr(st, "_parent", None)
        child = st
        while p is not None and p is not br:
            if isinstance(p, ast.If):
                for c in ast.walk(p.test):
                    if isinstance(c, ast.Compare) and len(c.ops) == 1 and table in names(c.comparators[0]):
                        if isinstance(c.ops[0], ast.NotIn) and child in p.body and not isinstance(getattr(c, "_parent", None), ast.UnaryOp):
                            return True
                        if isinstance(c.ops[0], ast.In) and (child in p.orelse or isinstance(getattr(c, "_parent", None), ast.UnaryOp) and child in p.body):
                            return True
            child = p
            p = getattr(p, "_parent", None)
        return False

    ok = bool(appends) and not prepends and all(guarded_by_absence(x[2]) for x in plain) and any(fromm.derived(x[1]) for x in appends)
    ctx.ob("R14.2", "stylesheet[repeated selectors accumulate in order]", ok, "appends %d, prepends %d, plain stores %d" % (len(appends), len(prepends), len(plain)), br.lineno,
           "a later rule for the same selector is appended after the earlier one (and so wins)")
    semi = [x for x in stores if any(isinstance(n, ast.Constant) and n.value == ";" for n in ast.walk(x[1]))]
    joins = [c for c in method_calls(br, "join") if is_const(ctx.m, c.func.value, ";")]
    ctx.ob("R14.2", "stylesheet[separator between accumulated blocks]", bool(semi or joins), "", br.lineno, "blocks are joined with a declaration separator")
    # a conditional separator (`if not <text>.endswith(";"): entry += ";"`) must look at the text it is appended to - the
    # existing entry - not at the block that comes next: `.a{fill:red}` + `.a{stroke:blue;}` would give "fill:redstroke:blue;"
    for x in semi:
        st = x[2]
        p_ = getattr(st, "_parent", None)
        if not isinstance(p_, ast.If):
            continue
        ends = [c for c in ast.walk(p_.test) if isinstance(c, ast.Call) and isinstance(c.func, ast.Attribute) and c.func.attr in ("endswith", "rstrip", "strip") ]
        if not ends:
            continue
        recv = [c.func.value for c in ends]
        ok_sep = all(reads_entry(r, x[0].slice) for r in recv)
        ctx.ob("R14.2", "stylesheet[conditional separator looks at the existing entry]", ok_sep, "; ".join(ast.unparse(r)[:40] for r in recv), p_.lineno,
               "whether a `;` is needed depends on how the text already stored for the selector ends")


def defaults(ctx, fn, attrs):
    loop, (tagvar, _, elemvar) = main_loop(ctx, fn, "R14.3")
    init = None
    for s in fn.body:
        if isinstance(s, ast.Assign) and isinstance(s.value, ast.Dict) and isinstance(s.targets[0], ast.Name):
            keys = {const_value(ctx.m, k) for k in s.value.keys if k is not None}
            if {"fill", "stroke"} <= keys:
                init = s
    ctx.need(init is not None, "R14.3", "initial values not found")
    vals = init.targets[0].id
    d = {const_value(ctx.m, k): v for k, v in zip(init.value.keys, init.value.values) if k is not None}
    ctx.ob("R14.3", "initial values[fill black]", is_const(ctx.m, d.get("fill"), "black"), "", init.lineno, "the initial fill is black")
    ctx.ob("R14.3", "initial values[stroke none]", is_const(ctx.m, d.get("stroke"), "none"), "", init.lineno, "the initial stroke is none")
    params = {a.arg for a in fn.args.args + fn.args.kwonlyargs}
    c = d.get("color")
    ctx.ob("R14.3", "initial values[color from caller]", isinstance(c, ast.Name) and c.id == "color" and "color" in params, "", init.lineno, "currentColor outside the document is the caller's colour")
    # children start from a copy: inside the loop the inherited dictionary is rebound to a fresh dictionary filled from the old one
    rebinds = [(v, n) for t, v, n in bindings(loop) if isinstance(t, ast.Name) and t.id == vals and isinstance(n, ast.Assign)]
    olds = {vals} | {t.id for t, v, n in bindings(loop) if isinstance(t, ast.Name) and isinstance(v, ast.Name) and v.id == vals}
    fresh_copy = False
    for v, n in rebinds:
        if isinstance(v, ast.Dict) and not v.keys:
            ups = [c for c in method_calls(loop, "update") if isinstance(c.func.value, ast.Name) and c.func.value.id == vals and c.args and isinstance(c.args[0], ast.Name) and c.args[0].id in olds - {vals} and c.lineno > n.lineno]
            fresh_copy = fresh_copy or bool(ups)
        elif isinstance(v, ast.Dict) and any(k is None and isinstance(x, ast.Name) and x.id in olds for k, x in zip(v.keys, v.values)):
            fresh_copy = True
        elif isinstance(v, ast.Call) and call_name(v) in ("dict", "copy", "copy.copy") and v.args and isinstance(v.args[0], ast.Name) and v.args[0].id in olds:
            fresh_copy = True
        elif isinstance(v, ast.Call) and isinstance(v.func, ast.Attribute) and v.func.attr == "copy" and isinstance(v.func.value, ast.Name) and v.func.value.id in olds:
            fresh_copy = True
    ctx.ob("R14.3", "inheritance[children start from a copy of the parent's values]", fresh_copy, "rebindings of %s in the loop: %d" % (vals, len(rebinds)), loop.lineno,
           "a property the element does not set is inherited; siblings must not see each other's values")
    own = [c for c in method_calls(loop, "update") if isinstance(c.func.value, ast.Name) and c.func.value.id == vals and c.args and attrs in names(c.args[0])]
    own2 = [v for v, n in rebinds if isinstance(v, ast.Dict) and v.values and isinstance(v.values[-1], ast.Name) and v.values[-1].id == attrs and v.keys[-1] is None]
    ctx.ob("R14.3", "inheritance[element's own values override inherited]", bool(own or own2), "", loop.lineno, "what the element sets wins over what it inherits")
    g = ctx.fn("GraphicObject.property_by_values", "R14.3")
    pv = g.args.args[1].arg
    gets = [c for c in method_calls(g, "get") if isinstance(c.func.value, ast.Name) and c.func.value.id == pv and c.args and const_value(ctx.m, c.args[0]) in ("stroke-width", "stroke_width")]
    keys = {const_value(ctx.m, c.args[0]) for c in gets}
    # the fallback chain must bottom out in 1
    one = any(len(c.args) == 2 and const_value(ctx.m, c.args[1]) in (1, 1.0) for c in gets)
    none_default = [c for c in gets if len(c.args) < 2 or const_value(ctx.m, c.args[1], "x") is None]
    ctx.ob("R14.3", "stroke width default 1", "stroke-width" in keys and one and not none_default, "keys read: %s" % sorted(keys), g.lineno, "the initial stroke width is 1")
    return vals


def _sources(ctx, e, defs=None):
    """Preference-ordered (dict, key) sources of an expression: D[K] / D.get(K, E) / D[K] if K in D else E (a local with one definition is looked through)."""
    if isinstance(e, ast.Name) and defs and len(defs.get(e.id, ())) == 1:
        return _sources(ctx, defs[e.id][0], None)
    if isinstance(e, ast.Subscript) and isinstance(e.value, ast.Name):
        return [(e.value.id, const_value(ctx.m, e.slice))]
    if isinstance(e, ast.Call) and isinstance(e.func, ast.Attribute) and e.func.attr == "get" and isinstance(e.func.value, ast.Name) and e.args:
        rest = _sources(ctx, e.args[1], defs) if len(e.args) > 1 else [(None, None)]
        return None if rest is None else [(e.func.value.id, const_value(ctx.m, e.args[0]))] + rest
    if isinstance(e, ast.IfExp):
        g = _membership(ctx, e.test)
        a, b = _sources(ctx, e.body, defs), _sources(ctx, e.orelse, defs)
        if g is None or a is None or b is None:
            return None
        (d, k), positive = g
        first, second = (a, b) if positive else (b, a)
        return first + second if first and first[0] == (d, k) else None
    return None


def _membership(ctx, test):
    """`K in D` -> ((D, K), True); `K not in D` -> ((D, K), False)"""
    neg = False
    if isinstance(test, ast.UnaryOp) and isinstance(test.op, ast.Not):
        neg, test = True, test.operand
    if isinstance(test, ast.Compare) and len(test.ops) == 1 and isinstance(test.ops[0], (ast.In, ast.NotIn)) and isinstance(test.comparators[0], ast.Name):
        pos = isinstance(test.ops[0], ast.In) != neg
        return (test.comparators[0].id, const_value(ctx.m, test.left)), pos
    return None


def current_color(ctx, fn, attrs, vals):
    cc = [k for k, v in ctx.m.consts.items() if isinstance(v, str) and v.lower() == "currentcolor"]

    def is_cc(n):
        v = const_value(ctx.m, n)
        return isinstance(v, str) and v.lower() == "currentcolor"

    def reads_prop(x, prop):
        if isinstance(x, ast.Subscript) and is_const(ctx.m, x.slice, prop):
            return True
        return isinstance(x, ast.Call) and isinstance(x.func, ast.Attribute) and x.func.attr == "get" and x.args and is_const(ctx.m, x.args[0], prop)

    defs = {}
    for tg, v, n in bindings(fn):
        if isinstance(tg, ast.Name):
            defs.setdefault(tg.id, []).append(v)
    for prop in ("fill", "stroke"):
        blk = None
        for s in ast.walk(fn):
            if isinstance(s, ast.If):
                for c in ast.walk(s.test):
                    if isinstance(c, ast.Compare) and len(c.ops) == 1 and isinstance(c.ops[0], ast.Eq):
                        sides = [c.left, c.comparators[0]]
                        if any(is_cc(x) for x in sides) and any(reads_prop(x, prop) for x in sides):
                            blk = s
        ctx.need(blk is not None, "R14.4", "currentColor test for %s not found" % prop)
        # every store of the property inside the block, with its preference-ordered sources
        order = None
        stores = [n for n in ast.walk(blk) if isinstance(n, ast.Assign) and isinstance(n.targets[0], ast.Subscript) and is_const(ctx.m, n.targets[0].slice, prop)]
        if len(stores) == 1 and getattr(stores[0], "_parent", None) is blk:
            order = _sources(ctx, stores[0].value, defs)
        elif len(stores) == 2:
            inner = getattr(stores[0], "_parent", None)
            if isinstance(inner, ast.If) and getattr(stores[1], "_parent", None) is inner and inner.orelse:
                g = _membership(ctx, inner.test)
                if g is not None:
                    (d, k), positive = g
                    a = [n for n in stores if n in inner.body]
                    b = [n for n in stores if n in inner.orelse]
                    if len(a) == 1 and len(b) == 1:
                        first, second = (a[0], b[0]) if positive else (b[0], a[0])
                        fs, ss = _sources(ctx, first.value, defs), _sources(ctx, second.value, defs)
                        if fs is not None and ss is not None and fs and fs[0] == (d, k):
                            order = fs + ss
        ctx.need(order is not None, "R14.4", "currentColor resolution for %s: idiom not recognised (line %d)" % (prop, blk.lineno))
        want = [(attrs, "color"), (vals, "color")]
        while order and order[-1] == (None, None):
            order = order[:-1]
        ctx.ob("R14.4", "currentColor[SVG_ATTR_%s]" % prop.upper(), order == want, "sources in order of preference: %s" % order, blk.lineno,
               "currentColor is the element's own color property if it sets one, otherwise the inherited one")


def paint(ctx):
    g = ctx.fn("GraphicObject.property_by_values", "R14.5")
    pv = g.args.args[1].arg
    for kind in ("stroke", "fill"):
        def src_colour(n, kind=kind):
            return isinstance(n, ast.Call) and isinstance(n.func, ast.Attribute) and n.func.attr == "get" and isinstance(n.func.value, ast.Name) and n.func.value.id == pv \
                and n.args and is_const(ctx.m, n.args[0], kind)

        def src_opacity(n, kind=kind):
            return isinstance(n, ast.Call) and isinstance(n.func, ast.Attribute) and n.func.attr == "get" and isinstance(n.func.value, ast.Name) and n.func.value.id == pv \
                and n.args and is_const(ctx.m, n.args[0], kind + "-opacity")

        tc = Taint(g, src_colour, through_containers=False)
        to = Taint(g, src_opacity, through_containers=False)
        col = [n for n in ast.walk(g) if isinstance(n, ast.Assign) and attr_chain(n.targets[0]) == ["self", kind]]
        okc = bool(col) and all(any(call_name(c) == "Color" and c.args and tc.derived(c.args[0]) for c in ast.walk(n.value) if isinstance(c, ast.Call)) for n in col)
        op = [n for n in ast.walk(g) if isinstance(n, ast.Assign) and attr_chain(n.targets[0]) == ["self", kind, "opacity"]]
        oko = len(op) >= 1 and all(to.derived(n.value) for n in op)
        ctx.ob("R14.5", "GraphicObject.property_by_values[%s opacity folded]" % kind, okc and oko, "colour stores %d, opacity stores %d" % (len(col), len(op)), g.lineno,
               "%s-opacity multiplies into the colour's alpha channel" % kind)
    op = ctx.m.cls("Color").setters.get("opacity")
    ctx.need(op is not None, "R14.5", "Color.opacity setter not found")
    par = op.args.args[1].arg

    def scaled(n):
        if isinstance(n, ast.Call) and call_name(n) == "round" and n.args:
            from ..flow import unclamp
            inner, ranges = unclamp(n.args[0])  # clamping the opacity to 0..1 first is the identity on legal values
            if any(r != (0, 1) for r in ranges) or not (isinstance(inner, ast.BinOp) and isinstance(inner.op, ast.Mult)):
                return False
            l, r = inner.left, inner.right
            return (isinstance(l, ast.Name) and l.id == par and const_value(ctx.m, r) in (255, 255.0)) or (isinstance(r, ast.Name) and r.id == par and const_value(ctx.m, l) in (255, 255.0))
        return False

    t = Taint(op, scaled, through_containers=False)
    st = [n for n in ast.walk(op) if isinstance(n, ast.Assign) and attr_chain(n.targets[0]) == ["self", "alpha"]]
    ctx.ob("R14.5", "Color.opacity setter", bool(st) and all(t.derived(n.value) for n in st), "", op.lineno, "opacity sets alpha = round(255 x opacity)")
    isw = ctx.m.cls("GraphicObject").getters.get("implicit_stroke_width")
    ctx.need(isw is not None, "R14.5", "implicit_stroke_width not found")
    rets = [r for r in ast.walk(isw) if isinstance(r, ast.Return) and isinstance(r.value, ast.BinOp)]
    ok = False
    detail = ""
    defs = {}
    for tg, v, n in bindings(isw):
        if isinstance(tg, ast.Name):
            defs.setdefault(tg.id, []).append((v, n))
    multi = {k for k, v in defs.items() if len(v) > 1}
    if rets:
        a = Alg()
        for stx in stmts_in(isw.body):
            if isinstance(stx, ast.Assign) and isinstance(stx.targets[0], ast.Name) and stx.targets[0].id not in multi:
                try:
                    a.assign(stx)
                except Uninterpreted:
                    pass
        got = a.ev(rets[0].value)
        detail = str(got)
        for tname in sorted(multi) or ["self.transform"]:
            want = atom("self.stroke_width") * atom(opaque_name("sqrt", [atom(opaque_name("abs", [atom("%s.determinant" % tname)]))]))
            ok = ok or got == want
    ctx.ob("R14.5", "implicit_stroke_width[width x sqrt|det|]", ok, detail, isw.lineno, "the stroke scales with the square root of the absolute determinant of the transform")
    ok = False
    for tname in multi:
        plain = [v for v, n in defs[tname] if attr_chain(v) == ["self", "transform"]]
        cond = []
        for v, n in defs[tname]:
            p = getattr(n, "_parent", None)
            if isinstance(p, ast.If) and n in p.body:
                test_nodes = list(ast.walk(p.test))
                for x in list(test_nodes):
                    # a flag local holding the condition: look through its single definition
                    if isinstance(x, ast.Name) and len(defs.get(x.id, ())) == 1:
                        test_nodes.extend(ast.walk(defs[x.id][0][0]))
                tv = {const_value(ctx.m, x) for x in test_nodes if isinstance(x, (ast.Name, ast.Constant))}
                if {"vector-effect", "non-scaling-stroke"} <= tv and call_name(v) == "Matrix" and any(isinstance(x, ast.Constant) and x.value == "viewport_transform" for x in ast.walk(v)):
                    cond.append(v)
        ok = ok or (len(plain) == 1 and len(cond) == 1 and len(defs[tname]) == 2)
    ctx.ob("R14.5", "implicit_stroke_width[non-scaling-stroke uses the viewport transform]", ok, "", isw.lineno, "under vector-effect: non-scaling-stroke only the viewport transform scales the stroke")
    # what is stored under that key: the viewport transforms only, never the accumulated transform attribute
    sp = ctx.fn("SVG.parse", "R14.5")
    vstores = []
    for n in ast.walk(sp):
        tg = n.targets[0] if isinstance(n, ast.Assign) and len(n.targets) == 1 else n.target if isinstance(n, ast.AugAssign) else None
        if isinstance(tg, ast.Subscript) and const_value(ctx.m, tg.slice) == "viewport_transform":
            vstores.append(n)
    ctx.need(bool(vstores), "R14.5", "SVG.parse: no store of the viewport transform found")
    bad = [n for n in vstores if any(isinstance(x, ast.Subscript) and const_value(ctx.m, x.slice) == "transform" for x in ast.walk(n.value))]
    ctx.ob("R14.5", "SVG.parse[viewport_transform holds viewport transforms only]", not bad, "; ".join("line %d: %s" % (n.lineno, ast.unparse(n)[:70]) for n in bad), sp.lineno,
           "storing the accumulated transform attribute scales a non-scaling stroke by every ancestor transform as well: <g transform=\"scale(2)\"><svg viewBox=...> doubles the stroke")
    r = ctx.fn("GraphicObject.reify", "R14.5")
    t = Taint(r, lambda n: attr_chain(n) == ["self", "implicit_stroke_width"], through_containers=False)
    st = [n for n in ast.walk(r) if isinstance(n, ast.Assign) and attr_chain(n.targets[0]) == ["self", "stroke_width"]]
    ctx.ob("R14.5", "GraphicObject.reify", bool(st) and all(t.derived(n.value) for n in st), "", r.lineno, "reifying applies the effective stroke width")
    rn = ctx.fn("GraphicObject.render", "R14.5")
    call = [c for c in ast.walk(rn) if isinstance(c, ast.Call) and isinstance(c.func, ast.Attribute) and c.func.attr == "value" and "stroke_width" in (attr_chain(c.func.value) or [])]
    ctx.need(len(call) == 1, "R14.5", "GraphicObject.render: stroke width resolution not found")
    rl = [k.value for k in call[0].keywords if k.arg == "relative_length"]
    ok = False
    detail = ""
    dims = {}
    for tg, v, n in bindings(rn):
        if isinstance(tg, ast.Name) and isinstance(v, ast.Call) and isinstance(v.func, ast.Attribute) and v.func.attr == "get" and v.args and const_value(ctx.m, v.args[0]) in ("width", "height"):
            dims[const_value(ctx.m, v.args[0])] = tg.id
    if rl and len(dims) == 2:
        a = Alg()
        for stx in stmts_in(rn.body):
            if isinstance(stx, ast.Assign) and isinstance(stx.targets[0], ast.Name) and stx.targets[0].id not in dims.values():
                try:
                    a.assign(stx)
                except Uninterpreted:
                    pass
        got = a.ev(rl[0])
        w, h = atom(dims["width"]), atom(dims["height"])
        want = atom(opaque_name("sqrt", [(w * w + h * h) / const(2)]))
        alt = atom(opaque_name("sqrt", [w * w + h * h])) / atom(opaque_name("sqrt", [const(2)]))
        detail = str(got)
        ok = got == want or got == alt
    ctx.ob("R14.5", "GraphicObject.render[percentage stroke width]", ok, detail, rn.lineno,
           "a percentage stroke width refers to the normalised diagonal sqrt((w^2 + h^2)/2) of the viewport (SVG 1.1 section 7.10)")


def own_fallback(ctx):
    """GraphicObject.property_by_values reads each opacity twice: the internal key ("fill_opacity") and the presentation
    attribute ("fill-opacity"), the first being the fallback of the second - as two statements (`x = values.get(internal);
    x = values.get(ATTR, x)`) or nested (`values.get(ATTR, values.get(internal))`).  The fallback of a property must be that
    property's own other spelling: `values.get(FILL_OPACITY, stroke_opacity)` makes a missing fill-opacity inherit the stroke's."""
    fn = ctx.fn("GraphicObject.property_by_values", "R14.3")
    vals = fn.args.args[1].arg if len(fn.args.args) > 1 else "values"

    def key_of(node):
        try:
            k = const_value(ctx.m, node)
        except Exception:
            k = None
        return k.replace("-", "_") if isinstance(k, str) else None

    def is_get(c):
        return isinstance(c, ast.Call) and isinstance(c.func, ast.Attribute) and c.func.attr == "get" and isinstance(c.func.value, ast.Name) and c.func.value.id == vals and c.args

    last = {}  # local -> normalised key it was last read from
    n = 0
    for st in stmts_in(fn.body):
        if not (isinstance(st, ast.Assign) and len(st.targets) == 1 and isinstance(st.targets[0], ast.Name) and is_get(st.value)):
            continue
        tgt, call = st.targets[0].id, st.value
        own = key_of(call.args[0])
        if len(call.args) == 2:
            d = call.args[1]
            fb = last.get(d.id) if isinstance(d, ast.Name) else key_of(d.args[0]) if is_get(d) else None
            if own is not None and fb is not None:
                n += 1
                ctx.ob("R14.3", "GraphicObject.property_by_values[%s falls back to itself]" % own, fb == own, "falls back to %s" % fb, st.lineno,
                       "each paint property cascades on its own: a missing value keeps what was inherited for THAT property")
        if own is not None:
            last[tgt] = own
    ctx.need(n >= 1, "R14.3", "fallback reads of paint properties not found (%d)" % n)
