"""C09 - path-data parsing is total: any string returns or raises ValueError only."""
import ast

from .. import builders as BLD
from .. import pathlex as PL
from .. import rx
from ..model import AnalysisError, attr_chain, call_name, stmts_in
from ..nullness import Req, returns_maybe
from ..tokloop import ReaderLoop, group_conv
from ..tokloop import is_none as tl_is_none

EXPLANATION = (
    "Static rules over the path lexer and the Path builder callbacks (no execution). R09.1 operand discipline: in every "
    "command branch each value produced by a Maybe-returning reader and handed to a builder is NonNull at the call - by an "
    "explicit raise-if-None test, by the `_more()` fact (a pending number token makes the next number/coord read succeed; "
    "established from the reader bodies), or by monotone failure (a later checked read implies the earlier reads succeeded "
    "when the later token language is prefix-included in the earlier one; decided on the regexes as automata). A close-or-"
    "raise fallback does not cover earlier reads. R09.2: every explicit raise on the parsing path is ValueError. R09.3: in "
    "builder callbacks the Maybe-valued current_point/z_point/smooth_point is neither dereferenced nor passed to a callee "
    "parameter that requires NonNull (computed callee summaries, per call-site arity) without a dominating None test that "
    "raises ValueError; each builder is also followed path by path with no current point, in absolute and in relative mode "
    "(a guard in the wrong branch does not count), and the control point of the stored previous curve is Maybe too: "
    "reflecting it needs a None test on the receiver and on the current point. R09.4 progress: every tokenizer alternative "
    "has minimum width >= 1 and every reader loop iteration advances past a match, returns or leaves the loop; every `while"
    " more` loop reads first. R09.5: each coordinate slot the lexer may fill with an inline close is tested against 'z'/'Z'"
    " in the builder; builder strides match the number of operands passed. R09.6: converters applied to token text accept "
    "the token language (float of FLOAT, int of FLAG). R09.7: a 'z' operand is resolved to the subpath start through an "
    "accessor that yields a point or raises ValueError. R09.8 retained segments: followed with no current point, a builder "
    "that does not raise appends its segment with start None; this is reported when the segment kind's bbox (or a helper it"
    " calls on self) reads self.start as a point, loops over all its points without skipping None, or (Close before any "
    "Move: every point missing) takes min() of a list emptied by the None filter. Not decided: wall-clock promptness "
    "(z_point scans backwards: quadratic on M(l z)*n), and totality of every later operation on a partially built path."
    ' R09.9 (zero divisors in the arc solver): a forward pass over Arc._svg_parameterize with a two-fact'
    ' abstract domain (known non-zero; known >= 1) - facts come from dominating exits on `x == 0` / `x * x =='
    ' 0` (a non-zero product has non-zero factors; a product of non-zero floats is NOT known non-zero: it may'
    ' underflow), re-scaling by sqrt(v) under `v > 1` keeps a radius non-zero - and every division whose'
    ' divisor is a radius or a product of radii must find its divisor non-zero. R09.3 also requires the point'
    ' accessors of Path (current_point, first_point, z_point, smooth_point) to test a stored end point against'
    ' None before converting it with Point(): a closepath with nothing before it is stored as Close(None,'
    ' None).'
    ' R09.3 contradiction clauses: a None test on a local whose only bindings are constructor calls of module'
    ' classes is dead (the check it stands for is not made; Point(None) is a point with None coordinates), and'
    ' Point(self.<Maybe accessor>) is reported; since the expected count on the tree is zero the recogniser is'
    ' run on a built-in example on every run.'
    ' R09.1 reports a lexer branch that collects the operands of several groups in a list before it calls the'
    ' builder (the ValueError of a later malformed group would then be raised before the segments of the valid'
    " groups exist). R09.8 also requires every `self.<f> *= other` in a segment's __imul__ whose field the"
    ' constructors can leave None to be dominated by `self.<f> is not None`.'
    ' Reader contract (R09.1): inside the loops of _number and _flag, `return None` occurs only before the'
    " cursor is advanced past the token - the command branches rely on 'None means nothing was read' for the"
    ' operands they do not re-check.'
)
TECHNIQUE = (
    "static analysis (no execution): nullness of lexer operands at builder calls (value tracking + token-language implications decided on regex automata); tokenizer loop summaries per token alternative (progress); ValueError-only raise lint; callee nullness summaries"
)
ASSUMPTIONS = [
    "Implicit exceptions from interpreter internals (MemoryError, RecursionError) are out of scope.",
    "Monotone-failure reasoning relies on leftmost matching at one position of num_re/flag_re as spelled in the module; the "
    "needed inclusion (a flag match implies a number match) is re-proved from the patterns on every run.",
]
FLOORS = {"R09.1": 30, "R09.2": 10, "R09.3": 10, "R09.4": 10, "R09.5": 8, "R09.7": 8, "R09.8": 5, "R09.9": 4}

BUILDERS = ["move", "line", "vertical", "horizontal", "smooth_quad", "quad", "smooth_cubic", "cubic", "arc", "closed"]


def run(ctx):
    ctx.rule("R09.1", "operand nullness per command branch")
    ctx.rule("R09.2", "raise discipline (ValueError only)")
    ctx.rule("R09.3", "current-point nullness in builder callbacks")
    ctx.rule("R09.4", "token progress")
    ctx.rule("R09.5", "inline-close acceptance and operand strides")
    ctx.rule("R09.8", "a segment kind whose measuring methods need its start is never stored with a missing start")
    ctx.rule("R09.9", "no radius of an arc command reaches a division while it may be zero (also by underflow of its square)")
    ctx.rule("R09.6", "converter grammar vs token language")
    ctx.rule("R09.7", "inline-close resolution yields a point or ValueError")
    readers_none_means_nothing_read(ctx)
    fn, cmd_var, branches, dup, end_returns = PL.lexer_branches(ctx, "R09.1")
    reader_facts(ctx)
    operands(ctx, branches)
    raises(ctx)
    current_point(ctx)
    no_current_point(ctx)
    start_required(ctx)
    transform_tolerates_missing_points(ctx)
    radius_divisors(ctx)
    progress(ctx, fn)
    inline_close(ctx, branches)
    close_resolution(ctx)


# --------------------------------------------------------------------------- R09.7
def close_resolution(ctx):
    """A 'z' operand is replaced by the subpath start.  The replacement must be a point: a Maybe accessor read in that
    position needs a ValueError guard (otherwise 'L z' on an empty path keeps a segment whose end is None)."""
    cls = ctx.m.cls("Path", "R09.7")
    n = 0
    for bname in BUILDERS:
        if bname == "closed":
            continue
        fn = ctx.fn("Path.%s" % bname, "R09.7")
        for s in ast.walk(fn):
            if not (isinstance(s, ast.If) and isinstance(s.test, ast.Compare) and isinstance(s.test.ops[0], ast.In) and isinstance(s.test.left, ast.Name)):
                continue
            c = s.test.comparators[0]
            if not (isinstance(c, (ast.Tuple, ast.List, ast.Set)) and {x.value for x in c.elts if isinstance(x, ast.Constant)} == {"z", "Z"}):
                continue
            var = s.test.left.id
            asg = [a for a in s.body if isinstance(a, ast.Assign) and isinstance(a.targets[0], ast.Name) and a.targets[0].id == var]
            if len(asg) != 1:
                # the close point may be bound to another name (which of the segment's points it becomes is C01's question)
                asg = [a for a in s.body if isinstance(a, ast.Assign) and len(a.targets) == 1 and isinstance(a.targets[0], ast.Name) and
                       ((isinstance(a.value, ast.Attribute) and isinstance(a.value.value, ast.Name) and a.value.value.id == "self" and a.value.attr in cls.getters) or
                        (isinstance(a.value, ast.Call) and isinstance(a.value.func, ast.Attribute) and isinstance(a.value.func.value, ast.Name) and a.value.func.value.id == "self"
                         and a.value.func.attr in cls.methods and not a.value.args))][:1]
            ctx.need(len(asg) == 1, "R09.7", "Path.%s: replacement of the 'z' operand %s not found" % (bname, var))
            var = asg[0].targets[0].id
            v = asg[0].value
            n += 1
            ok = False
            how = ast.unparse(v)
            if isinstance(v, ast.Attribute) and isinstance(v.value, ast.Name) and v.value.id == "self" and v.attr in cls.getters:
                maybe = returns_maybe(cls.getters[v.attr], cls)
                guarded = any(isinstance(g, ast.If) and PL.none_test(g.test) == var and g.body and PL.is_raise_value_error(g.body[0]) for g in s.body)
                ok = (not maybe) or guarded
                how += " (Maybe=%s, guarded=%s)" % (maybe, guarded)
            elif isinstance(v, ast.Call) and isinstance(v.func, ast.Attribute) and isinstance(v.func.value, ast.Name) and v.func.value.id == "self" \
                    and v.func.attr in cls.methods:
                maybe = returns_maybe(cls.methods[v.func.attr], cls)
                ok = not maybe
                how += " (Maybe=%s)" % maybe
            ctx.ob("R09.7", "Path.%s[%s <- z]" % (bname, var), ok, how, s.lineno,
                   "the subpath start may not exist: a retained segment would carry a None end point")
    ctx.need(n >= 8, "R09.7", "fewer inline-close replacements than expected (%d)" % n)


# --------------------------------------------------------------------------- reader contract
def readers_none_means_nothing_read(ctx):
    """The command branches re-check only some operands; for the others they rely on the readers' contract: _number/_flag
    return None exactly when no number/flag token was consumed (so that a missing earlier operand makes the later ones missing
    too).  Inside the reader loop a `return None` must therefore come BEFORE the cursor is advanced past the token."""
    n = 0
    for q in ("SVGLexicalParser._number", "SVGLexicalParser._flag"):
        fn = ctx.fn(q, "R09.1")
        loops = [x for x in fn.body if isinstance(x, ast.While)]
        ctx.need(len(loops) == 1, "R09.1", "%s: reader loop not found" % q)
        body = list(stmts_in(loops[0].body))
        adv = [i for i, st in enumerate(body) if isinstance(st, ast.Assign) and attr_chain(st.targets[0]) == ["self", "pos"]]
        ctx.need(adv, "R09.1", "%s: cursor advance not found" % q)
        late = [st for i, st in enumerate(body) if i > adv[0] and isinstance(st, ast.Return) and (st.value is None or (isinstance(st.value, ast.Constant) and st.value.value is None))]
        n += 1
        ctx.ob("R09.1", "%s[None only before the token is consumed]" % q.split(".")[1], not late, "return None at line(s) %s after the advance at line %d" % ([st.lineno for st in late], body[adv[0]].lineno),
               fn.lineno, "a reader that consumes a token and still answers None lets the following operands parse: `A 1e999 5 0 0 1 10 10` reaches the arc builder with rx = None (TypeError), `M 0 0 1e999 5` retains a Line whose end is None")
    ctx.need(n == 2, "R09.1", "readers not found")


# --------------------------------------------------------------------------- reader facts
def reader_facts(ctx):
    """Re-establish from the source the facts the operand rule uses."""
    toks = PL.token_patterns(ctx, "R09.1")
    num = dict(toks["num_parse"])
    flag = dict(toks["flag_parse"])
    ctx.need("FLOAT" in num and "CLOSE" in num and "SKIP" in num and "FLAG" in flag, "R09.1", "token tables changed shape")
    ok, w = PL.prefix_implies(flag["FLAG"], num["FLOAT"])
    ctx.ob("R09.1", "token fact: FLAG match implies FLOAT match", ok, "counterexample %r" % w if not ok else "", 0,
           "monotone-failure reasoning needs every flag token to start a number token")
    # _more: answers True exactly when the FLOAT alternative matched at the cursor, and does not consume it
    more = ctx.fn("SVGLexicalParser._more", "R09.1")
    rl = ReaderLoop(ctx.m, more, "R09.1")

    def truthy(o):
        return o.kind == "return" and isinstance(o.value, ast.Constant) and o.value.value is True

    ok = rl.regex == "num_re" and rl.at_cursor and all(truthy(o) == (k == "FLOAT") for k, o in rl.outcomes.items()) and not rl.outcomes["FLOAT"].advanced \
        and all(o.kind in ("return", "continue", "exit") for o in rl.outcomes.values())
    ctx.ob("R09.1", "reader fact: _more() is True only with a number token pending", ok, "; ".join("%s: %r" % kv for kv in rl.outcomes.items())[:220], more.lineno,
           "`_more()` must answer True only when the FLOAT alternative matched at the cursor (and leave it unread)")
    # _number: returns float(<match>.group()) on FLOAT after advancing; returns None otherwise
    number = ctx.fn("SVGLexicalParser._number", "R09.1")
    rn = ReaderLoop(ctx.m, number, "R09.1")
    of = rn.outcomes.get("FLOAT")
    ok = rn.regex == "num_re" and rn.at_cursor and of is not None and of.kind == "return" and of.advanced and group_conv(of.value, rn.mvar, ["float"]) \
        and all((o.kind in ("return", "exit") and tl_is_none(o.value)) or o.kind == "continue" for k, o in rn.outcomes.items() if k != "FLOAT")
    ctx.ob("R09.1", "reader fact: _number() converts the pending FLOAT", ok, "; ".join("%s: %r" % kv for kv in rn.outcomes.items())[:220], number.lineno,
           "`_number()` must return the float of the matched token (and None when no number is pending)")
    # _coord: None only if the first number is None; raises ValueError if the second is
    coord = ctx.fn("SVGLexicalParser._coord", "R09.1")
    sc = PL.reader_scenarios(ctx, "R09.1")
    c = sc["coord"]
    ok = c.get((True, False)) == ("none",) and c.get((True, True)) == ("none",) and c.get((False, True)) == ("raise", "ValueError") and c.get((False, False), ("?",))[0] == "pair"
    if ok:
        px, py = c[(False, False)][1]
        ok = str(px) == "N1" and str(py) == "N2"
    ctx.ob("R09.1", "reader fact: _coord() is None only when its first number is, raises ValueError on a lone number", ok, str({k: (v[0] if v[0] != "pair" else "pair") for k, v in c.items()}), coord.lineno,
           "`_coord()` must pair two numbers or fail with ValueError")
    rc = ctx.fn("SVGLexicalParser._rcoord", "R09.1")
    r = sc["rcoord"]
    ok = r.get((True, False)) == ("none",) and r.get((True, True)) == ("none",) and r.get((False, False), ("?",))[0] in ("pair", "same") and r.get((False, True), ("?",))[0] in ("pair", "same")
    ctx.ob("R09.1", "reader fact: _rcoord() is None only when _coord() is", ok, str({k: v[0] for k, v in r.items()}), rc.lineno, "relative reader must propagate a missing coordinate as None")
    # converters: float(FLOAT) and int(FLAG) never raise
    pyfloat = rx.Lang(r"[-+]?([0-9]+\.?[0-9]*|\.[0-9]+)([eE][-+]?[0-9]+)?")
    ok, w = rx.included(rx.Lang(num["FLOAT"]), pyfloat)
    ctx.ob("R09.6", "float(FLOAT token)", ok, "counterexample %r" % w if not ok else "", number.lineno, "the number token admits a spelling float() rejects")
    flagf = ctx.fn("SVGLexicalParser._flag", "R09.6")
    rf = ReaderLoop(ctx.m, flagf, "R09.6")
    of = rf.outcomes.get("FLAG")
    ofv = of.value if of is not None else None
    # a local bound once to <match>.group() stands for it (digit = token.group(); return bool(int(digit)))
    if ofv is not None:
        temps = {}
        for st_ in ast.walk(flagf):
            if isinstance(st_, ast.Assign) and len(st_.targets) == 1 and isinstance(st_.targets[0], ast.Name):
                temps.setdefault(st_.targets[0].id, []).append(st_.value)

        class _T(ast.NodeTransformer):
            def visit_Name(self, n):
                v = temps.get(n.id)
                if isinstance(n.ctx, ast.Load) and v and len(v) == 1 and isinstance(v[0], ast.Call) and isinstance(v[0].func, ast.Attribute) and v[0].func.attr == "group":
                    return v[0]
                return n

        from ..model import fresh as _fresh
        ofv = _T().visit(_fresh(ofv))
    conv = [1] if (of is not None and of.kind == "return" and (group_conv(ofv, rf.mvar, ["bool", "int"]) or group_conv(ofv, rf.mvar, ["int"]))) else []
    ok, w = rx.included(rx.Lang(flag["FLAG"]), rx.Lang(r"[-+]?[0-9]+"))
    ctx.ob("R09.6", "int(FLAG token)", ok and len(conv) == 1, "counterexample %r" % w if not ok else "", flagf.lineno, "the flag token admits a spelling int() rejects")
    ok, w = rx.equivalent(rx.Lang(flag["FLAG"]), rx.Lang("[01]"))
    ctx.ob("R09.6", "FLAG token is one of 0/1", ok, "witness %r" % w if not ok else "", 0, "an arc flag is exactly one character 0 or 1")


# --------------------------------------------------------------------------- R09.1
TOKEN = {"number": "FLOAT", "coord": "FLOAT", "rcoord": "FLOAT", "flag": "FLAG"}


def implies(later, earlier):
    """later reader returned non-None  =>  earlier reader (called just before, at the failure position) returned non-None"""
    lt, et = TOKEN[later], TOKEN[earlier]
    return lt == et or (lt == "FLAG" and et == "FLOAT")


def operands(ctx, branches):
    for letter in sorted(branches):
        b = branches[letter]
        if getattr(b, "batched", None):
            ctx.ob("R09.1", "SVGLexicalParser.parse[%s]:operand groups reach the builder one by one" % letter, False, "; ".join(t for _, t in b.batched), b.batched[0][0],
                   "the operands of the whole command are collected before the builder is called: when a later group is malformed (`M 10 10 20 20 30`) the ValueError is raised before the segments of the valid groups are appended - the longest valid prefix is lost")
            continue
        if b.unknown:
            raise AnalysisError("R09.1", "branch %r: idiom not recognised: %s" % (letter, b.unknown[:3]))
        reads = []  # (var, reader) of the current iteration
        nonnull = set()
        more_true = False
        n_build = 0
        for e in b.events:
            k = e[0]
            if k == "loop":
                more_true = e[1] == "while-more"
                reads = []
                nonnull = set()
            elif k == "require-more":
                more_true = True
            elif k == "read":
                var, reader = e[1], e[2]
                if more_true and not reads and TOKEN[reader] == "FLOAT":
                    nonnull.add(var)
                reads.append((var, reader))
                more_true = False
            elif k == "stale":
                reads.append((e[1], e[2]))
            elif k == "check":
                var, how = e[1], e[2]
                nonnull.add(var)
                if how == "raise":
                    idx = [i for i, (v, r) in enumerate(reads) if v == var]
                    if idx:
                        i = idx[-1]
                        for j in range(i):
                            # each earlier read precedes; chain through consecutive readers
                            if all(implies(reads[i][1], reads[q][1]) for q in range(j, i)):
                                nonnull.add(reads[j][0])
            elif k == "build":
                n_build += 1
                meth, args = e[1], e[2]
                for a in args:
                    if a.startswith("?"):
                        raise AnalysisError("R09.1", "branch %r: builder argument %s not a simple name" % (letter, a))
                    if a not in [v for v, _ in reads]:
                        raise AnalysisError("R09.1", "branch %r: builder argument %s has no read in this iteration" % (letter, a))
                    ctx.ob("R09.1", "SVGLexicalParser.parse[%s]:%s->%s" % (letter, a, meth), a in nonnull,
                           "reads %s; proven non-None: %s" % (reads, sorted(nonnull)), e[4],
                           "operand may be None when the builder is called (command without enough operands): not a ValueError")
            elif k == "exit-unless-more":
                reads = []
                nonnull = set()
                more_true = True  # the loop continues only when more() held
            elif k == "endloop":
                more_true = False
        if letter.lower() != "z":
            ctx.need(n_build >= 1, "R09.1", "branch %r has no builder call" % letter)


# --------------------------------------------------------------------------- R09.2
def raises(ctx):
    quals = ["SVGLexicalParser.%s" % n for n in ("_command", "_more", "_number", "_flag", "_coord", "_rcoord", "parse")]
    quals += ["Path.parse", "Path.append", "Path._validate_connection", "Path._validate_close"] + ["Path.%s" % b for b in BUILDERS]
    for q in quals:
        fn = ctx.fn(q, "R09.2")
        rs = [s for s in ast.walk(fn) if isinstance(s, ast.Raise)]
        bad = [s for s in rs if not PL.is_raise_value_error(s)]
        ctx.ob("R09.2", q, not bad, "; ".join("%s line %d" % (ast.unparse(s), s.lineno) for s in bad) or "%d raise(s), all ValueError" % len(rs), fn.lineno,
               "an explicit raise on the path-data parsing path must be ValueError")


# --------------------------------------------------------------------------- R09.3
MAYBE_PROPS = ["current_point", "z_point", "smooth_point"]


def current_point(ctx):
    m = ctx.m
    cls = m.cls("Path", "R09.3")
    for p in MAYBE_PROPS:
        g = cls.getters.get(p)
        ctx.need(g is not None, "R09.3", "Path.%s not found" % p)
        ctx.ob("R09.3", "Path.%s is Maybe" % p, True, "returns None on some path: %s" % returns_maybe(g), g.lineno, sample=False)
    # The accessors read the end points of STORED segments.  Path.closed stores Close(current_point, z_point) with both
    # operands Maybe ("z" as the first command), so a stored end point may be None: Point(None) is a "point" with None
    # coordinates (the builders' `is None` guards no longer see it, the next arithmetic raises TypeError) unless a None test
    # of that very expression dominates the conversion.
    from ..flow import dominated as _dom, stored_endpoint

    closed = ctx.fn("Path.closed", "R09.3")
    stores_maybe = False
    for n in ast.walk(closed):
        if isinstance(n, ast.Call) and call_name(n) == "Close":
            srcs = {t.targets[0].id: t.value for t in ast.walk(closed) if isinstance(t, ast.Assign) and len(t.targets) == 1 and isinstance(t.targets[0], ast.Name)}
            for a in n.args:
                v = srcs.get(a.id) if isinstance(a, ast.Name) else a
                if isinstance(v, ast.Attribute) and isinstance(v.value, ast.Name) and v.value.id == "self" and v.attr in MAYBE_PROPS \
                        and returns_maybe(cls.getters[v.attr], cls):
                    stores_maybe = True
    nconv = 0
    for pname, g in sorted(cls.getters.items()):
        for n in ast.walk(g):
            if isinstance(n, ast.Call) and call_name(n) == "Point" and len(n.args) == 1:
                a = n.args[0]
                chain = ast.unparse(a)
                if not stored_endpoint(a, g):
                    continue
                nconv += 1

                def atom_test(test, positive, chain=chain):
                    if isinstance(test, ast.Compare) and len(test.ops) == 1 and isinstance(test.comparators[0], ast.Constant) and test.comparators[0].value is None \
                            and ast.unparse(test.left) == chain and isinstance(test.ops[0], (ast.Is, ast.IsNot)):
                        return isinstance(test.ops[0], ast.IsNot) == positive
                    return False

                ok = not stores_maybe or _dom(n, g, atom_test)
                ctx.ob("R09.3", "Path.%s[Point(%s)]" % (pname, chain), ok, "stored end points may be None: %s; conversion %s" % (stores_maybe, "guarded" if ok else "not guarded by a None test"), n.lineno,
                       "`z` as the first command stores Close(None, None); converting its end point gives a point with None coordinates, which passes the builders' None guards and raises TypeError in the next command of the data (\"z l 5 5\")")
    ctx.need(nconv >= 1, "R09.3", "accessors converting stored end points")
    # Contradictions (a stated belief the code cannot have): Point(x) never returns None - Point(None) is the "point"
    # (None, None) - so a None test on a local that only ever holds a freshly constructed object is dead, and the check it
    # was meant to make (is there a current point / a subpath start?) is not made.  Likewise Point(<Maybe accessor>) without
    # a None test of the accessor's value launders a missing point into a point with None coordinates.
    from ..excflow import _binds

    n_dead = 0
    for mname, mfn in sorted(list(cls.methods.items()) + [("%s:getter" % k, v) for k, v in cls.getters.items()]):
        for test in ast.walk(mfn):
            x = PL.none_test(test) if isinstance(test, ast.Compare) else None
            if x is None:
                continue
            binds = _binds(mfn, x)
            params = [a.arg for a in mfn.args.args + mfn.args.kwonlyargs]
            if not binds or x in params:
                continue
            fresh = all(isinstance(b, ast.Assign) and len(b.targets) == 1 and isinstance(b.targets[0], ast.Name) and isinstance(b.value, ast.Call)
                        and isinstance(b.value.func, ast.Name) and b.value.func.id in m.classes for b in binds)
            if fresh:
                n_dead += 1
                ctx.ob("R09.3", "Path.%s[None test of %s]" % (mname, x), False, "%s is only ever bound to %s" % (x, "; ".join(ast.unparse(b.value)[:40] for b in binds)), test.lineno,
                       "a constructor call never yields None: this guard is dead, so the missing current point / subpath start it was written for goes undetected (Point(None) is a point with None coordinates)")
        for c in ast.walk(mfn):
            if isinstance(c, ast.Call) and call_name(c) == "Point" and len(c.args) == 1:
                a = c.args[0]
                if isinstance(a, ast.Attribute) and isinstance(a.value, ast.Name) and a.value.id == "self" and a.attr in MAYBE_PROPS and returns_maybe(cls.getters[a.attr], cls):
                    ctx.ob("R09.3", "Path.%s[Point(self.%s)]" % (mname, a.attr), False, "", c.lineno,
                           "the accessor yields None when there is no such point; Point(None) turns that into a point with None coordinates that no later None test can see")
    ctx.ob("R09.3", "Path[no None test of a freshly constructed object]", True, "%d dead guards" % n_dead, 0, sample=False)
    # self-test of the pattern on a fixed example (the expected count on the tree is zero, so the recogniser proves it can match)
    probe = ast.parse("def f(self):\n    p = Point(self.z_point)\n    if p is None:\n        raise ValueError\n    return p\n").body[0]
    pb = _binds(probe, "p")
    ctx.need(any(PL.none_test(t) == "p" for t in ast.walk(probe) if isinstance(t, ast.Compare)) and len(pb) == 1, "R09.3", "dead-guard recogniser does not match its own example")
    req = Req(m)
    for bname in BUILDERS:
        fn = ctx.fn("Path.%s" % bname, "R09.3")
        maybe = {}  # local name -> property
        guarded = set()
        # linear scan in statement order (loop bodies included); guards are `if X is None: raise ValueError`
        for s in stmts_in(fn.body):
            if isinstance(s, ast.Assign) and len(s.targets) == 1 and isinstance(s.targets[0], ast.Name):
                v = s.value
                if isinstance(v, ast.Attribute) and isinstance(v.value, ast.Name) and v.value.id == "self" and v.attr in MAYBE_PROPS \
                        and returns_maybe(cls.getters[v.attr], cls):
                    maybe[s.targets[0].id] = v.attr
                    guarded.discard(s.targets[0].id)
                    continue
            if isinstance(s, ast.If):
                x = PL.none_test(s.test)
                if x in maybe and s.body and isinstance(s.body[0], ast.Raise):
                    ctx.ob("R09.3", "Path.%s[%s guard]" % (bname, x), PL.is_raise_value_error(s.body[0]), ast.unparse(s.body[0]), s.lineno,
                           "a missing current point must be reported as ValueError")
                    guarded.add(x)
                    continue
        n = 0
        for node in ast.walk(fn):
            # dereference / arithmetic on a Maybe local
            if isinstance(node, ast.Attribute) and isinstance(node.value, ast.Name) and node.value.id in maybe and node.value.id not in guarded:
                n += 1
                ctx.ob("R09.3", "Path.%s[%s.%s]" % (bname, node.value.id, node.attr), False, "%s = self.%s may be None" % (node.value.id, maybe[node.value.id]), node.lineno,
                       "attribute of a possibly missing current point: AttributeError instead of ValueError (command with no current point)")
            if isinstance(node, ast.Call):
                cn = call_name(node)
                if cn is None:
                    continue
                for i, a in enumerate(node.args):
                    if isinstance(a, ast.Name) and a.id in maybe:
                        if cn.startswith("self.") or cn in ("Point",):
                            continue
                        if cn not in m.classes and "." not in cn:
                            continue
                        head = cn.split(".")[0]
                        if head not in m.classes:
                            # method of a stored object (last_segment.control.reflected_across(start_pos)).  The control of a
                            # stored curve is itself Maybe: a smooth command with no current point stores control = None
                            # ("T1 2 3 4": the second T then reflects None).  Both the receiver and the Maybe argument need a
                            # None test that dominates the call.
                            from ..flow import dominated

                            recv = node.func.value if isinstance(node.func, ast.Attribute) else None
                            rsrc = ast.unparse(recv) if recv is not None else "?"

                            def not_none(expr_src):
                                def atom_test(test, positive):
                                    if isinstance(test, ast.Compare) and len(test.ops) == 1 and isinstance(test.comparators[0], ast.Constant) and test.comparators[0].value is None \
                                            and ast.unparse(test.left) == expr_src and isinstance(test.ops[0], (ast.Is, ast.IsNot)):
                                        return isinstance(test.ops[0], ast.IsNot) == positive
                                    return False
                                return atom_test

                            ok_r = recv is not None and dominated(node, fn, not_none(rsrc))
                            ok_a = a.id in guarded or dominated(node, fn, not_none(a.id))
                            n += 1
                            ctx.ob("R09.3", "Path.%s[%s(%s)]" % (bname, cn, a.id), ok_r and ok_a,
                                   "receiver %s %s; argument %s %s" % (rsrc, "tested" if ok_r else "not tested against None", a.id, "tested" if ok_a else "not tested against None"), node.lineno,
                                   "a stored curve's control point and the current point can both be None (smooth command at the start of the data): AttributeError/TypeError instead of ValueError")
                            continue
                        n += 1
                        if a.id in guarded:
                            ctx.ob("R09.3", "Path.%s[%s->%s#%d]" % (bname, a.id, cn, i), True, "guarded", node.lineno)
                            continue
                        try:
                            r, why = req.call_requires(node, i, "Path")
                        except AnalysisError as e:
                            raise AnalysisError("R09.3", str(e))
                        ctx.ob("R09.3", "Path.%s[%s->%s#%d]" % (bname, a.id, cn, i), not r, why or "callee tolerates None", node.lineno,
                               "possibly missing current point handed to a parameter that requires a point: TypeError/AttributeError instead of ValueError")


def no_current_point(ctx):
    """The same question path by path: with no current point, in absolute and in relative mode, a builder either raises
    ValueError before it uses the current point as a point, or never uses it."""
    for bname in BUILDERS:
        fn = ctx.fn("Path.%s" % bname, "R09.3")
        if fn.args.vararg is None:
            continue  # closed(): no operands
        for rel in (False, True):
            cons = "Path.%s[no current point, relative=%s]" % (bname, rel)
            try:
                sm = BLD.summarise(ctx, "R09.3", bname, BLD.Scenario(rel=rel, nocur=True))
            except AnalysisError as e:
                raise AnalysisError("R09.3", "%s: %s" % (cons, e))
            exc = None
            if sm.exit == "raise":
                e = sm.exit_node.func if isinstance(sm.exit_node, ast.Call) else sm.exit_node
                exc = e.id if isinstance(e, ast.Name) else "?"
            ok = not sm.cur_deref and (sm.exit != "raise" or exc == "ValueError")
            detail = "; ".join("line %d: %s" % d for d in sm.cur_deref[:3]) or ("raises %s" % exc if exc else "current point not used as a point")
            ctx.ob("R09.3", cons, ok, detail, sm.cur_deref[0][0] if sm.cur_deref else fn.lineno,
                   "the missing current point is used as a point on this path before (or without) the ValueError guard: AttributeError/TypeError instead of ValueError", sample=False)


# --------------------------------------------------------------------------- R09.8 (transforming)
def transform_tolerates_missing_points(ctx, rule="R09.8"):
    """A retained segment may lack a point: PathSegment.__init__ starts with start = end = None, the curve constructors store
    `Point(c) if c is not None else None`, and the builders hand them a missing current point (known findings of R09.8).
    "Transforming the result can never fail afterwards": every `self.<field> *= other` in a segment's __imul__ whose field
    the constructors may leave None must be dominated by `self.<field> is not None`."""
    from ..flow import dominated
    from .c02 import SEGMENTS, point_fields

    n = 0
    for cname in SEGMENTS:
        nullable = set()
        for c in ctx.m.mro(cname):
            init = ctx.m.classes[c].methods.get("__init__")
            if init is None:
                continue
            for st in ast.walk(init):
                if isinstance(st, ast.Assign):
                    for t in st.targets:
                        ch = attr_chain(t)
                        if ch and len(ch) == 2 and ch[0] == "self":
                            v = st.value
                            if (isinstance(v, ast.Constant) and v.value is None) or (isinstance(v, ast.IfExp) and any(isinstance(x, ast.Constant) and x.value is None for x in (v.body, v.orelse))):
                                nullable.add(ch[1])
        fn = ctx.fn("%s.__imul__" % cname, rule)
        for s in ast.walk(fn):
            if isinstance(s, ast.AugAssign) and isinstance(s.op, (ast.Mult, ast.MatMult)) and isinstance(s.target, ast.Attribute) and isinstance(s.target.value, ast.Name) \
                    and s.target.value.id == "self" and s.target.attr in nullable:
                f = s.target.attr
                n += 1

                def atom_test(test, positive, f=f):
                    if isinstance(test, ast.Compare) and len(test.ops) == 1 and isinstance(test.comparators[0], ast.Constant) and test.comparators[0].value is None \
                            and attr_chain(test.left) == ["self", f] and isinstance(test.ops[0], (ast.Is, ast.IsNot)):
                        return isinstance(test.ops[0], ast.IsNot) == positive
                    return False

                ctx.ob(rule, "%s.__imul__[%s may be missing]" % (cname, f), dominated(s, fn, atom_test), "", s.lineno,
                       "the constructors can leave this point None (a curve or close with no current point / subpath start): multiplying it raises AttributeError when the path is transformed or reified - inside SVG.parse that aborts the document")
    ctx.need(n >= 10, rule, "segment transformations of nullable points not found (%d)" % n)


# --------------------------------------------------------------------------- R09.9
def radius_divisors(ctx):
    """The arc builder hands the two radii of an `A` command to Arc._svg_parameterize unchecked.  Every division there whose
    divisor is a radius or a product of radii (rx, ry, rx*rx, ...) must be reached only when that very divisor is known to be
    non-zero: a dominating exit on `divisor == 0` - or on a product of which the divisor is a factor (a non-zero product has
    non-zero factors; the converse does not hold in floating point: 1e-200 * 1e-200 == 0.0).  Re-scaling a non-zero radius by
    sqrt(v) under `v > 1` keeps it non-zero.  Divisors that mix radii with the chord (t1 + t2, the norm n) are out of scope:
    their distance from zero is a numerical argument (DESIGN section 8)."""
    fn = ctx.fn("Arc._svg_parameterize", "R09.9")
    params = [a.arg for a in fn.args.args]
    ctx.need(len(params) >= 4, "R09.9", "Arc._svg_parameterize(self, start, rx, ry, ...) signature")
    radii = set(params[2:4])
    sites = []

    def strip(e):
        while isinstance(e, ast.Call) and isinstance(e.func, ast.Name) and e.func.id in ("abs", "float") and len(e.args) == 1:
            e = e.args[0]
        if isinstance(e, ast.UnaryOp) and isinstance(e.op, (ast.USub, ast.UAdd)):
            return strip(e.operand)
        return e

    def pure(e, st):
        e = strip(e)
        if isinstance(e, ast.Name):
            return e.id in st["pure"]
        if isinstance(e, ast.BinOp) and isinstance(e.op, ast.Mult):
            return pure(e.left, st) and pure(e.right, st)
        if isinstance(e, ast.BinOp) and isinstance(e.op, ast.Pow) and isinstance(e.right, ast.Constant):
            return pure(e.left, st)
        return False

    def nonzero(e, st):
        e = strip(e)
        if isinstance(e, ast.Name):
            # the name itself was tested, or it holds (unchanged operands) an expression that was
            return e.id in st["nz"] or (e.id in st["defs"] and ast.dump(strip(st["defs"][e.id])) in st["nzx"])
        if isinstance(e, ast.Constant):
            return isinstance(e.value, (int, float)) and e.value != 0
        return ast.dump(e) in st["nzx"]  # otherwise a product of non-zero floats may underflow to zero

    def learn(e, st):
        # e is known non-zero: so is every factor of it
        e = strip(e)
        if isinstance(e, ast.Name):
            if e.id not in st["nz"]:
                st["nz"].add(e.id)
                if e.id in st["defs"]:
                    learn(st["defs"][e.id], st)
        elif isinstance(e, ast.BinOp) and isinstance(e.op, ast.Mult):
            st["nzx"].add(ast.dump(e))  # this very product, recomputed from unchanged operands, is the same number
            learn(e.left, st)
            learn(e.right, st)
        elif isinstance(e, ast.BinOp) and isinstance(e.op, ast.Pow):
            learn(e.left, st)

    def facts(test, positive, st):
        if isinstance(test, ast.BoolOp):
            if (isinstance(test.op, ast.And) and positive) or (isinstance(test.op, ast.Or) and not positive):
                for v in test.values:
                    facts(v, positive, st)
            return
        if isinstance(test, ast.UnaryOp) and isinstance(test.op, ast.Not):
            return facts(test.operand, not positive, st)
        if isinstance(test, ast.Compare) and len(test.ops) == 1:
            l, op, r = test.left, test.ops[0], test.comparators[0]
            zero = lambda x: isinstance(x, ast.Constant) and isinstance(x.value, (int, float)) and not isinstance(x.value, bool) and x.value == 0
            one = lambda x: isinstance(x, ast.Constant) and isinstance(x.value, (int, float)) and not isinstance(x.value, bool) and x.value >= 1
            if zero(r) or zero(l):
                x = l if zero(r) else r
                if (isinstance(op, ast.Eq) and not positive) or (isinstance(op, ast.NotEq) and positive):
                    learn(x, st)
                if positive and ((isinstance(op, ast.Gt) and zero(r)) or (isinstance(op, ast.Lt) and zero(l))):
                    learn(x, st)
            if positive and isinstance(op, (ast.Gt, ast.GtE)) and one(r) and isinstance(l, ast.Name):
                st["ge1"].add(l.id)
            if positive and isinstance(op, (ast.Lt, ast.LtE)) and one(l) and isinstance(r, ast.Name):
                st["ge1"].add(r.id)
        elif isinstance(test, ast.Name) and positive:
            learn(test, st)  # truthiness of a number

    def ge1(e, st):
        e = strip(e)
        if isinstance(e, ast.Name):
            return e.id in st["ge1"]
        if isinstance(e, ast.Call) and isinstance(e.func, ast.Name) and e.func.id == "sqrt" and len(e.args) == 1:
            return ge1(e.args[0], st)
        if isinstance(e, ast.Constant):
            return isinstance(e.value, (int, float)) and e.value >= 1
        return False

    def scan(node, st):
        for n in ast.walk(node):
            if isinstance(n, ast.BinOp) and isinstance(n.op, (ast.Div, ast.FloorDiv, ast.Mod)) and pure(n.right, st):
                sites.append((n, nonzero(n.right, st)))

    def copy_state(st):
        return {"nz": set(st["nz"]), "nzx": set(st["nzx"]), "ge1": set(st["ge1"]), "pure": set(st["pure"]), "defs": dict(st["defs"])}

    def assign(name, value, st):
        keep = value is not None and nonzero(value, st)
        was_pure = value is not None and pure(value, st)
        is_ge1 = value is not None and ge1(value, st)
        st["nz"].discard(name)
        st["ge1"].discard(name)
        st["defs"].pop(name, None)
        st["nzx"] = {d for d in st["nzx"] if ("id='%s'" % name) not in d}
        # facts about names defined through `name` go stale
        for k, v in list(st["defs"].items()):
            if any(isinstance(x, ast.Name) and x.id == name for x in ast.walk(v)):
                st["defs"].pop(k)
        if value is not None and not any(isinstance(x, ast.Name) and x.id == name for x in ast.walk(value)):
            st["defs"][name] = value
        if keep:
            st["nz"].add(name)
        if is_ge1:
            st["ge1"].add(name)
        if was_pure:
            st["pure"].add(name)
        else:
            st["pure"].discard(name)

    def block(stmts, st):
        """returns False when the block always leaves the function"""
        for s in stmts:
            if isinstance(s, ast.If):
                scan(s.test, st)
                a, b = copy_state(st), copy_state(st)
                facts(s.test, True, a)
                facts(s.test, False, b)
                ra = block(s.body, a)
                rb = block(s.orelse, b)
                live = [x for x, r in ((a, ra), (b, rb)) if r]
                if not live:
                    return False
                st["nz"] = set.intersection(*[x["nz"] for x in live])
                st["nzx"] = set.intersection(*[x["nzx"] for x in live])
                st["ge1"] = set.intersection(*[x["ge1"] for x in live])
                st["pure"] = set.intersection(*[x["pure"] for x in live])
                st["defs"] = {k: v for k, v in live[0]["defs"].items() if all(x["defs"].get(k) is v for x in live)}
                continue
            if isinstance(s, (ast.Return, ast.Raise)):
                scan(s, st)
                return False
            if isinstance(s, ast.Assign) and len(s.targets) == 1 and isinstance(s.targets[0], ast.Name):
                scan(s.value, st)
                assign(s.targets[0].id, s.value, st)
                continue
            if isinstance(s, ast.AugAssign) and isinstance(s.target, ast.Name):
                scan(s.value, st)
                n = s.target.id
                if isinstance(s.op, ast.Mult) and n in st["nz"] and ge1(s.value, st):
                    keep_pure = n in st["pure"]
                    assign(n, None, st)
                    st["nz"].add(n)  # |x| only grows
                    if keep_pure:
                        st["pure"].add(n)  # still a re-scaled radius
                elif isinstance(s.op, ast.Div) and pure(s.target, st):
                    sites.append((ast.BinOp(left=s.target, op=s.op, right=s.value, lineno=s.lineno), False)) if pure(s.value, st) and not nonzero(s.value, st) else None
                    assign(n, None, st)
                else:
                    keep_pure = n in st["pure"] and isinstance(s.op, ast.Mult)
                    assign(n, None, st)
                    if keep_pure:
                        st["pure"].add(n)
                continue
            # anything else: look for divisions, forget what it assigns
            scan(s, st)
            for n in ast.walk(s):
                if isinstance(n, ast.Name) and isinstance(n.ctx, ast.Store):
                    assign(n.id, None, st)
        return True

    st = {"nz": set(), "nzx": set(), "ge1": set(), "pure": set(radii), "defs": {}}
    block(fn.body, st)
    ctx.need(sites, "R09.9", "divisions by a radius in Arc._svg_parameterize")
    seen = {}
    for n, ok in sites:
        key = ast.unparse(n.right)
        seen.setdefault(key, []).append((n, ok))
    for key, lst in sorted(seen.items()):
        bad = [n for n, ok in lst if not ok]
        ctx.ob("R09.9", "Arc._svg_parameterize[divisor %s]" % key, not bad,
               "%d division(s); unguarded at line(s) %s" % (len(lst), [n.lineno for n in bad] or "-"), (bad or [lst[0][0]])[0].lineno,
               "a radius (or the square of one) divides while it may be zero: path data like `A 0 5 ...` or `A 1e-200 1 ...` raises ZeroDivisionError instead of yielding a segment or ValueError")


# --------------------------------------------------------------------------- R09.8
def start_required(ctx):
    """'Every retained segment has real numeric coordinates, so that serialising, transforming, measuring and bounding the result
    can never fail afterwards.'  A builder reached with no current point stores the segment with start None.  Whether that is
    harmless depends on the segment kind: Line and Move measure through the None-skipping PathSegment methods, the curve kinds
    read self.start.x in bbox/length/point.  Decided per (builder, kind): the kind's bbox dereferences self.start (or takes
    min() of a point list that is empty when every point is missing) and the builder, followed with no current point, appends
    that kind with the current point as its start."""
    from ..flow import dominated

    m = ctx.m

    def start_is_none_test(test, positive):
        if isinstance(test, ast.Compare) and len(test.ops) == 1 and attr_chain(test.left) == ["self", "start"] and isinstance(test.comparators[0], ast.Constant) \
                and test.comparators[0].value is None and isinstance(test.ops[0], (ast.Is, ast.IsNot)):
            return isinstance(test.ops[0], ast.IsNot) == positive
        return False

    def uses_in(c, f, all_missing):
        """an unguarded use of the start point as a point in f (a method of class c), or None"""
        for n in ast.walk(f):
            if isinstance(n, (ast.Attribute, ast.Subscript)) and attr_chain(n.value) == ["self", "start"] and not dominated(n, f, start_is_none_test):
                return ("%s.%s" % (c, f.name), n.lineno, ast.unparse(n))
            # every point of the segment, start included, dereferenced in a loop over the segment itself
            if isinstance(n, (ast.ListComp, ast.GeneratorExp)) and len(n.generators) == 1 and isinstance(n.generators[0].iter, ast.Name) and n.generators[0].iter.id == "self" \
                    and not n.generators[0].ifs and isinstance(n.generators[0].target, ast.Name):
                v = n.generators[0].target.id
                if any(isinstance(x, (ast.Attribute, ast.Subscript)) and isinstance(x.value, ast.Name) and x.value.id == v for x in ast.walk(n.elt)):
                    return ("%s.%s" % (c, f.name), n.lineno, ast.unparse(n)[:60])
        if all_missing:
            # min()/max() over a list that drops missing points: empty when every point is missing
            for n in ast.walk(f):
                if isinstance(n, ast.Call) and call_name(n) in ("min", "max") and len(n.args) == 1 and isinstance(n.args[0], ast.Name):
                    for st in stmts_in(f.body):
                        if isinstance(st, ast.Assign) and isinstance(st.targets[0], ast.Name) and st.targets[0].id == n.args[0].id and isinstance(st.value, ast.ListComp) \
                                and any(g.ifs for g in st.value.generators):
                            return ("%s.%s" % (c, f.name), n.lineno, "%s of a list that is empty when every point is None" % ast.unparse(n))
        return None

    def needs_start(kind, all_missing=False):
        """-> (method, line, text) of an unguarded use of self.start as a point in the kind's bbox (or a helper it calls on self)"""
        for c in m.mro(kind):
            ci = m.classes.get(c)
            f = ci.methods.get("bbox") if ci else None
            if f is None:
                continue
            r = uses_in(c, f, all_missing)
            if r:
                return r
            for call in ast.walk(f):
                if isinstance(call, ast.Call):
                    ch = attr_chain(call.func)
                    if ch and len(ch) == 2 and ch[0] == "self":
                        for c2 in m.mro(kind):
                            h = m.classes[c2].methods.get(ch[1]) if c2 in m.classes else None
                            if h is not None:
                                r = uses_in(c2, h, all_missing)
                                if r:
                                    return r
                                break
            return None
        return None

    n = 0
    for bname in BUILDERS:
        fn = ctx.fn("Path.%s" % bname, "R09.8")
        if fn.args.vararg is None:
            scen = [BLD.Scenario(nocur=True)]
            try:
                # closed(): no operands; read the appended kind directly
                segs = []
                for c in ast.walk(fn):
                    if isinstance(c, ast.Call) and call_name(c) in BLD.SEG_KINDS:
                        segs.append((call_name(c), c))
                for kind, c in segs:
                    starts_cur = bool(c.args) and (attr_chain(c.args[0]) == ["self", "current_point"] or (isinstance(c.args[0], ast.Name) and any(
                        isinstance(st, ast.Assign) and isinstance(st.targets[0], ast.Name) and st.targets[0].id == c.args[0].id and attr_chain(st.value) == ["self", "current_point"] for st in stmts_in(fn.body))))
                    guarded = any(isinstance(st, ast.If) and PL.none_test(st.test) is not None and st.body and isinstance(st.body[0], ast.Raise) for st in fn.body)
                    need = needs_start(kind, all_missing=True)  # Close(current point, z point): both missing before any Move
                    n += 1
                    ctx.ob("R09.8", "Path.%s[%s start]" % (bname, kind), not (starts_cur and need and not guarded), "%s at line %d: %s" % need if need else "", c.lineno,
                           "stored with the (missing) current point as its start; bounding the parsed path then fails")
            except AnalysisError:
                raise
            continue
        kinds = {}
        for rel in (False, True):
            sm = BLD.summarise(ctx, "R09.8", bname, BLD.Scenario(rel=rel, nocur=True))
            if sm.exit == "raise":
                continue
            for sg in sm.segs:
                if sg.args and sg.args[0] == ("cur",):
                    kinds.setdefault(sg.kind, sg.node.lineno)
        for kind, line in sorted(kinds.items()):
            need = needs_start(kind)
            n += 1
            ctx.ob("R09.8", "Path.%s[%s start]" % (bname, kind), need is None, "%s at line %d: %s" % need if need else "measured through None-skipping methods", line,
                   "with no current point (a curve command at the very start of the data) the segment is stored with start None; bounding or measuring the parsed path "
                   "then raises TypeError/AttributeError although parsing succeeded")
    ctx.need(n >= 5, "R09.8", "builder/segment-kind pairs reached with no current point: %d" % n)


# --------------------------------------------------------------------------- R09.4
def progress(ctx, parse_fn):
    toks = PL.token_patterns(ctx, "R09.4")
    for table, pairs in toks.items():
        for name, pat in pairs:
            w = rx.parse(pat).getwidth()[0]
            ctx.ob("R09.4", "%s[%s] min width" % (table, name), w >= 1, "min width %d" % w, 0, "a token alternative that can match the empty string stalls the cursor")
    for r in ("_command", "_more", "_number", "_flag"):
        fn = ctx.fn("SVGLexicalParser.%s" % r, "R09.4")
        rl = ReaderLoop(ctx.m, fn, "R09.4")
        bad = ["alternative %s: next iteration without advancing (line %d)" % (k, o.line) for k, o in rl.outcomes.items() if o.kind == "continue" and not o.advanced]
        ctx.ob("R09.4", "SVGLexicalParser.%s[loop progress]" % r, not bad and rl.at_cursor, "; ".join(bad) or "every continuing path advances self.pos", fn.lineno,
               "a loop iteration that neither advances, returns nor breaks never terminates")
        ctx.ob("R09.4", "SVGLexicalParser.%s[loop bound]" % r, rl.bounded, ast.unparse(rl.loop.test), rl.loop.lineno, "reader loops are bounded by the input length")
    # main loop: cmd = self._command(); if cmd is None: return
    fn, cmd_var, branches, dup, end_returns = PL.lexer_branches(ctx, "R09.4")
    ctx.ob("R09.4", "SVGLexicalParser.parse[main loop exit]", end_returns, "", fn.lineno, "the command loop must end when no command is recognised")
    # `while self._more()` loops must start with a read of a FLOAT-first reader (so the pending number is consumed)
    for letter, b in sorted(branches.items()):
        ev = b.events
        for i, e in enumerate(ev):
            if e[0] == "loop" and e[1] == "while-more":
                nxt = ev[i + 1] if i + 1 < len(ev) else None
                ok = nxt is not None and nxt[0] == "read" and TOKEN[nxt[2]] == "FLOAT"
                ctx.ob("R09.4", "SVGLexicalParser.parse[%s]: while-more consumes" % letter, ok, str(nxt), e[2], "a `while more` iteration must consume the pending number")
            if e[0] == "loop" and e[1] == "while-true":
                # must contain an exit-unless-more (or a raise path) before endloop
                j = i + 1
                has_exit = False
                while j < len(ev) and ev[j][0] != "endloop":
                    if ev[j][0] in ("exit-unless-more", "break"):
                        has_exit = True
                    j += 1
                ctx.ob("R09.4", "SVGLexicalParser.parse[%s]: while-true exits" % letter, has_exit, "", e[2], "an implicit-repetition loop must leave when no operand follows")


def _progress_block(stmts, advanced, bad):
    """Every `continue` must be preceded (on its path in this iteration) by self.pos = match.end()."""
    for s in stmts:
        if isinstance(s, ast.Assign) and ast.unparse(s.targets[0]) == "self.pos" and "match.end()" in ast.unparse(s.value):
            advanced = True
        elif isinstance(s, ast.If):
            _progress_block(s.body, advanced, bad)
            _progress_block(s.orelse, advanced, bad)
        elif isinstance(s, ast.Continue):
            if not advanced:
                bad.append("continue without advancing line %d" % s.lineno)
    # falling off the end of the loop body without return/break/continue also needs progress
    last = stmts[-1] if stmts else None
    return advanced


# --------------------------------------------------------------------------- R09.5
def inline_close(ctx, branches):
    cls = ctx.m.cls("Path")
    # which builder argument positions may carry an inline close: those checked with close-or-raise
    slots = {}
    arity = {}
    for letter, b in branches.items():
        closable = {e[1] for e in b.events if e[0] == "check" and e[2] == "close-or-raise"}
        for e in b.builds():
            meth, args = e[1], e[2]
            arity.setdefault(meth, set()).add(len(args))
            for i, a in enumerate(args):
                if a in closable:
                    slots.setdefault(meth, set()).add(i)
    for meth in sorted(slots):
        fn = ctx.fn("Path.%s" % meth, "R09.5")
        for i in sorted(slots[meth]):
            plain = BLD.summarise(ctx, "R09.5", meth, BLD.Scenario())
            zsc = BLD.summarise(ctx, "R09.5", meth, BLD.Scenario(z=i))
            tested = i in plain.ztests
            resolved = bool(zsc.segs) and not any(a == ("op", i) for g in zsc.segs for a in g.args) and any(isinstance(a, tuple) and a and a[0] == "zpoint" for g in zsc.segs for a in g.args)
            ctx.ob("R09.5", "Path.%s[operand %d accepts inline close]" % (meth, i), tested and resolved, "slots tested against z: %s; with z in slot %d the builder appends %s" % (sorted(plain.ztests), i, zsc.segs), fn.lineno,
                   "the lexer may pass 'z'/'Z' in this slot (SVG 2 segment-completing close); the builder must resolve it to the subpath start")
    # stride of the builder loop equals the number of operands the lexer passes
    for meth, ns in sorted(arity.items()):
        fn = ctx.fn("Path.%s" % meth, "R09.5")
        if fn.args.vararg is None:
            continue
        summ = BLD.summarise(ctx, "R09.5", meth, BLD.Scenario())
        stride = summ.stride
        if stride is None:
            continue
        ctx.ob("R09.5", "Path.%s[stride]" % meth, ns == {stride}, "lexer passes %s operand(s) per call, builder consumes %s" % (sorted(ns), stride), fn.lineno,
               "operand count and builder stride differ: IndexError or dropped operands")
        used = sorted({a[1] for g in summ.segs for a in g.args if isinstance(a, tuple) and a and a[0] == "op"} | {a[1][1] for g in summ.segs for a in g.args if isinstance(a, tuple) and a and a[0] == "abs"})
        scal = set()
        for g in summ.segs:
            for a in g.args:
                if isinstance(a, list):
                    for c in a:
                        scal |= {int(x[2:]) for x in c.atoms() if x.startswith("op") and x[2:].isdigit()}
        ctx.ob("R09.5", "Path.%s[operands used]" % meth, sorted(set(used) | scal) == list(range(stride)), "operand slots reaching the segment: %s of %d" % (sorted(set(used) | scal), stride), fn.lineno,
               "every operand of a group reaches the segment (none dropped, none read beyond the group)", sample=False)


