"""C12 - length units resolve by CSS ratios; arithmetic agrees with values.

Decided: every (function, self-unit, other-unit) conversion cell of Length against the exact CSS ratios,
the stays-symbolic guards, degenerate min/max calls, the ordering/equality plumbing.
"""
import ast
import copy
from fractions import Fraction

from ..algebra import RF, Alg, Uninterpreted, atom, const, p_add, p_mul
from ..dispatch import Facts, raised_name, walk
from ..model import AnalysisError, attr_chain, norm

EXPLANATION = (
    "Static table extraction (no execution): the if/elif/early-return dispatch of Length.__iadd__, __truediv__, value, "
    "in_pixels, in_inches, __float__, to_mm/to_cm/to_inch is read cell by cell over the finite unit domain (14 units, 196 "
    "ordered pairs, zero/non-zero amount flags) and each cell's arithmetic, canonicalised to an exact rational function of "
    "the amounts, is compared with the CSS absolute-unit ratios (px=1, pt=4/3, pc=16, in=ppi, cm=in/2.54, mm=in/25.4; "
    "relative tolerance 2e-6 because the module's own constants carry six digits). Also decided: each context-dependent "
    "unit returns the symbolic length when its context is missing - also when the viewBox it is given is incomplete "
    "(width/height unset) - while a reference of zero is a reference: x% of 0 is 0 (R12.2; truthiness tests of the "
    "reference are decided as None / zero / non-zero), no min/max call has syntactically identical arguments (R12.3), "
    "ordering operators test the sign of (self-other).amount with the matching comparison and subtraction/negation are "
    "built from addition (R12.4), __eq__ compares like with like (R12.5). Not decided: float rounding of the results, "
    "string parsing of amounts (regex), Length.__imul__."
    ' R12.6: every method of Length that receives ppi / relative_length / font_size / font_height / viewbox'
    ' under that name and calls another method of Length taking the same name must pass its own parameter in'
    ' that slot (a dropped slot is reported only when the receiver is self: another Length object is resolved'
    ' in its own right).'
)
TECHNIQUE = (
    "static analysis (no execution): dispatch-table extraction of every (operator, unit, unit) cell with exact rational unit ratios compared with the CSS absolute-unit table; equality table"
)
ASSUMPTIONS = [
    "Unit factors are compared at relative tolerance 2e-6 (the source spells 0.393701 for 1/2.54).",
    "Cells are read for Length-Length operands; str/number operands are converted by Length(...) first (checked structurally).",
    "Float rounding is not modelled; the verdict is about the implemented formula, not floating-point results.",
]
EXHAUSTIVE = True
FLOORS = {"R12.1": 400, "R12.2": 17, "R12.3": 1, "R12.4": 7, "R12.5": 200, "R12.6": 12}

PX = {"": Fraction(1), "px": Fraction(1), "pt": Fraction(4, 3), "pc": Fraction(16)}
INCH = {"in": Fraction(1), "cm": Fraction(100, 254), "mm": Fraction(10, 254)}
REL = ["%", "em", "ex", "vw", "vh", "vmin", "vmax"]
UNITS = list(PX) + list(INCH) + REL
TOL = Fraction(2, 10 ** 6)


def R(u):
    if u in PX:
        return const(PX[u])
    if u in INCH:
        return const(INCH[u]) * atom("INCH")
    return atom("U_" + u.replace("%", "pct"))


def approx_eq(a, b, tol=TOL):
    """a == b as rational functions up to relative tolerance on every coefficient."""
    lhs = p_mul(a.n, b.d)
    rhs = p_mul(b.n, a.d)
    for m in set(lhs) | set(rhs):
        x, y = lhs.get(m, Fraction(0)), rhs.get(m, Fraction(0))
        scale = max(abs(x), abs(y))
        if scale == 0:
            continue
        if abs(x - y) > tol * scale:
            return False
    return True


def fam(u):
    return "px" if u in PX else ("in" if u in INCH else "rel:" + u)


def run(ctx):
    m = ctx.m
    ctx.rule("R12.1", "conversion cell = CSS ratio (table extraction + exact canonical form)")
    ctx.rule("R12.2", "context-dependent unit stays symbolic when its context is missing")
    ctx.rule("R12.3", "no min/max call with syntactically identical arguments")
    ctx.rule("R12.4", "ordering/subtraction/negation plumbing")
    ctx.rule("R12.5", "__eq__ compares like with like")
    ctx.rule("R12.6", "resolution context (ppi, relative_length, font_size, font_height, viewbox) is handed on slot by slot")
    context_plumbing(ctx)
    iadd(ctx)
    truediv(ctx)
    unary_tables(ctx)
    value_table(ctx)
    to_units(ctx)
    degenerate_calls(ctx)
    plumbing(ctx)


def _mk(su, ou=None, sz=False, oz=False, extra_null=None):
    strs = {"self.units": su}
    zeros = {"self.amount": sz}
    types = {}
    if ou is not None:
        strs["other.units"] = ou
        zeros["other.amount"] = oz
        types["other"] = "Length"
    nulls = {"self.amount": False}
    nulls.update(extra_null or {})
    f = Facts(strs=strs, nulls=nulls, types=types, zeros=zeros)
    a = Alg()
    if sz:
        a.atom_map["self.amount"] = const(0)
    if oz:
        a.atom_map["other.amount"] = const(0)
    return f, a


def iadd(ctx):
    fn = ctx.fn("Length.__iadd__", "R12.1")
    for su in UNITS:
        for ou in UNITS:
            for sz in (False, True):
                for oz in (False, True):
                    facts, alg = _mk(su, ou, sz, oz)
                    cons = "Length.__iadd__[%s<-%s%s%s]" % (su or "''", ou or "''", ",self=0" if sz else "", ",other=0" if oz else "")
                    out = walk(fn.body, facts, alg, ctx.m, "R12.1", cons)
                    a_s = const(0) if sz else atom("self.amount")
                    a_o = const(0) if oz else atom("other.amount")
                    expected = a_s * R(su) + a_o * R(ou)
                    compatible = fam(su) == fam(ou) or sz or oz
                    if out.kind == "raise":
                        ok = (not compatible) and raised_name(out) == "ValueError"
                        ctx.ob("R12.1", cons, ok, "raises %s" % raised_name(out), out.stmt.lineno,
                               "cell raises although both operands resolve in one unit family" if compatible else "raises a non-ValueError")
                        continue
                    if out.kind != "return" or not (isinstance(out.node, ast.Name) and out.node.id == "self"):
                        ctx.ob("R12.1", cons, False, "does not return self", fn.lineno, "in-place add must return self")
                        continue
                    try:
                        got = alg.ev(ast.parse("self.amount", mode="eval").body) * R(facts.strs["self.units"])
                    except Uninterpreted as e:
                        raise AnalysisError("R12.1", "construct=%s %s" % (cons, e))
                    if not compatible:
                        ctx.ob("R12.1", cons, False, "returns a value for incompatible units", out.stmt.lineno,
                               "units of different families cannot be added without ppi/context; a numeric result is a guess")
                        continue
                    ok = approx_eq(got, expected)
                    ctx.ob("R12.1", cons, ok, "resolved result %s, CSS value %s" % (got, expected), out.stmt.lineno,
                           "sum does not resolve to the sum of the resolved operands")


def truediv(ctx):
    fn = ctx.fn("Length.__truediv__", "R12.1")
    for su in UNITS:
        for ou in UNITS:
            facts, alg = _mk(su, ou, False, False)
            cons = "Length.__truediv__[%s/%s]" % (su or "''", ou or "''")
            out = walk(fn.body, facts, alg, ctx.m, "R12.1", cons)
            compatible = fam(su) == fam(ou)
            if out.kind == "raise":
                ok = (not compatible) and raised_name(out) == "ValueError"
                ctx.ob("R12.1", cons, ok, "raises %s" % raised_name(out), out.stmt.lineno,
                       "ratio cell raises although both operands resolve in one unit family")
                continue
            if out.kind != "return":
                ctx.ob("R12.1", cons, False, "falls through", fn.lineno, "no result")
                continue
            if not compatible:
                ctx.ob("R12.1", cons, False, "returns a value for incompatible units", out.stmt.lineno, "guessed ratio")
                continue
            try:
                got = alg.ev(out.node)
            except Uninterpreted as e:
                raise AnalysisError("R12.1", "construct=%s %s" % (cons, e))
            expected = (atom("self.amount") * R(su)) / (atom("other.amount") * R(ou))
            ctx.ob("R12.1", cons, approx_eq(got, expected), "ratio %s, CSS value %s" % (got, expected), out.stmt.lineno,
                   "a/b is not the ratio of the resolved values")
    # zero numerator short-cut returns 0
    facts, alg = _mk("px", "pt", True, False)
    out = walk(fn.body, facts, alg, ctx.m, "R12.1", "Length.__truediv__[0/x]")
    ok = out.kind == "return" and alg.ev(out.node).is_zero() if out.kind == "return" else False
    ctx.ob("R12.1", "Length.__truediv__[0/x]", ok, "", fn.lineno, "0/x must be 0")


def unary_tables(ctx):
    for qual, table, unit_atom in (
        ("Length.in_pixels", PX, None),
        ("Length.in_inches", INCH, None),
        ("Length.__float__", {"pt": PX["pt"], "pc": PX["pc"], "px": PX["px"], "": PX[""]}, None),
    ):
        fn = ctx.fn(qual, "R12.1")
        for su in UNITS:
            facts, alg = _mk(su)
            cons = "%s[%s]" % (qual, su or "''")
            out = walk(fn.body, facts, alg, ctx.m, "R12.1", cons)
            if out.kind != "return":
                ctx.ob("R12.1", cons, False, out.kind, fn.lineno, "no value")
                continue
            is_none = isinstance(out.node, ast.Constant) and out.node.value is None
            if su in table:
                if is_none:
                    ctx.ob("R12.1", cons, False, "returns None", out.stmt.lineno, "unit of this family not converted")
                    continue
                got = alg.ev(out.node)
                exp = atom("self.amount") * const(table[su])
                ctx.ob("R12.1", cons, approx_eq(got, exp), "returns %s, CSS value %s" % (got, exp), out.stmt.lineno,
                       "conversion factor differs from the CSS ratio")
            elif qual != "Length.__float__":
                ctx.ob("R12.1", cons, is_none, "returns %s" % ast.unparse(out.node), out.stmt.lineno,
                       "unit outside the family must not be converted (needs ppi/context)")


CONTEXT = {
    "%": ("relative_length", "self.amount * relative_length / 100"),
    "mm": ("ppi", "self.amount * ppi * 10 / 254"),
    "cm": ("ppi", "self.amount * ppi * 100 / 254"),
    "in": ("ppi", "self.amount * ppi"),
    "px": (None, "self.amount"),
    "": (None, "self.amount"),
    "pt": (None, "self.amount * 4 / 3"),
    "pc": (None, "self.amount * 16"),
    "em": ("font_size", "self.amount * font_size"),
    "ex": ("font_height", "self.amount * font_height"),
    "vw": ("viewbox", "self.amount * VBW / 100"),
    "vh": ("viewbox", "self.amount * VBH / 100"),
    "vmin": ("viewbox", "self.amount * min(VBW, VBH) / 100"),
    "vmax": ("viewbox", "self.amount * max(VBW, VBH) / 100"),
}


def _viewbox_locals(fn):
    return {s.targets[0].id for s in ast.walk(fn) if isinstance(s, ast.Assign) and isinstance(s.value, ast.Call) and isinstance(s.value.func, ast.Name) and s.value.func.id == "Viewbox"
            and len(s.targets) == 1 and isinstance(s.targets[0], ast.Name)}


def value_table(ctx):
    fn = ctx.fn("Length.value", "R12.1")
    vbl = _viewbox_locals(fn)
    params = ["ppi", "relative_length", "font_size", "font_height", "viewbox"]
    have = [a.arg for a in fn.args.args]
    for p in params:
        ctx.need(p in have, "R12.1", "Length.value lost parameter %s" % p)
    # which local is the Viewbox built from the viewbox parameter?  (v = Viewbox(viewbox))
    for su in UNITS:
        ctxparam, ref_text = CONTEXT[su]
        cons = "Length.value[%s]" % (su or "''")
        complete = {"%s.%s" % (v, d): False for v in vbl for d in ("width", "height", "x", "y")}  # a complete viewBox: all four numbers present
        facts, alg = _mk(su, extra_null=dict({p: False for p in params}, **complete))
        facts.types["relative_length"] = "float"
        facts.zeros.update({p: False for p in params})
        vb_names = set()

        def hook(a, node, vb_names=vb_names):
            return None

        out = walk(fn.body, facts, alg, ctx.m, "R12.1", cons)
        if out.kind != "return":
            ctx.ob("R12.1", cons, False, out.kind, fn.lineno, "no value")
            continue
        # map <name>.width/<name>.height where name = Viewbox(viewbox) to VBW/VBH
        amap = {}
        for s in ast.walk(fn):
            if isinstance(s, ast.Assign) and isinstance(s.value, ast.Call) and isinstance(s.value.func, ast.Name) \
                    and s.value.func.id == "Viewbox" and len(s.targets) == 1 and isinstance(s.targets[0], ast.Name):
                if s.value.args and isinstance(s.value.args[0], ast.Name) and s.value.args[0].id == "viewbox":
                    n = s.targets[0].id
                    amap[n + ".width"] = "VBW"
                    amap[n + ".height"] = "VBH"
        alg.atom_map.update({k: v for k, v in amap.items() if k not in alg.atom_map})
        # re-evaluate local temporaries (m = min(v.height, v.height)) under the renaming
        alg2 = Alg(atom_map=dict(amap))
        facts2, _ = _mk(su, extra_null=dict({p: False for p in params}, **complete))
        facts2.types["relative_length"] = "float"
        facts2.zeros.update({p: False for p in params})
        out = walk(fn.body, facts2, alg2, ctx.m, "R12.1", cons)
        try:
            got = alg2.ev(out.node)
        except Uninterpreted as e:
            raise AnalysisError("R12.1", "construct=%s %s" % (cons, e))
        exp = Alg().ev(ast.parse(ref_text, mode="eval").body)
        ctx.ob("R12.1", cons, approx_eq(got, exp), "returns %s, CSS value %s" % (got, exp), out.stmt.lineno,
               "resolved value differs from the CSS definition of the unit")
        if ctxparam is not None:
            cons2 = "Length.value[%s,%s=None]" % (su, ctxparam)
            nulls = {p: (p == ctxparam) for p in params}
            nulls.update(complete)
            facts3, alg3 = _mk(su, extra_null=nulls)
            facts3.types["relative_length"] = "float"
            facts3.zeros.update({p: False for p in params if p != ctxparam})
            out3 = walk(fn.body, facts3, alg3, ctx.m, "R12.2", cons2)
            ok = out3.kind == "return" and isinstance(out3.node, ast.Name) and out3.node.id == "self"
            ctx.ob("R12.2", cons2, ok, "returns %s" % (ast.unparse(out3.node) if out3.node is not None else out3.kind),
                   out3.stmt.lineno if out3.stmt is not None else fn.lineno,
                   "a length whose context is missing must stay symbolic (return the length itself)")

    # an incomplete viewBox (fewer than four numbers) leaves its width/height unset: viewport units stay symbolic
    for su in ("vw", "vh", "vmin", "vmax"):
        cons5 = "Length.value[%s,viewBox incomplete]" % su
        nulls5 = {p: False for p in params}
        nulls5.update({"%s.%s" % (v, d): True for v in vbl for d in ("width", "height", "x", "y")})
        facts5, alg5 = _mk(su, extra_null=nulls5)
        facts5.zeros.update({p: False for p in params})
        try:
            out5 = walk(fn.body, facts5, alg5, ctx.m, "R12.2", cons5)
            ok5 = out5.kind == "return" and isinstance(out5.node, ast.Name) and out5.node.id == "self"
            detail5 = "returns %s" % (ast.unparse(out5.node) if out5.node is not None else out5.kind)
            line5 = out5.stmt.lineno if out5.stmt is not None else fn.lineno
        except AnalysisError:
            raise
        ctx.ob("R12.2", cons5, ok5, detail5, line5, "a viewport unit cannot be resolved against a viewBox whose size is missing: it must stay symbolic, not multiply by None")
    # a reference of zero is a reference: x% of 0 is 0, not an unresolved length
    cons4 = "Length.value[%,relative_length=0]"
    facts4, alg4 = _mk("%", extra_null={p: False for p in params})
    facts4.types["relative_length"] = "float"
    facts4.zeros.update({p: (p == "relative_length") for p in params})
    alg4.atom_map["relative_length"] = const(0)
    out4 = walk(fn.body, facts4, alg4, ctx.m, "R12.2", cons4)
    ok = False
    if out4.kind == "return" and out4.node is not None:
        try:
            ok = alg4.ev(out4.node).is_zero()
        except Uninterpreted:
            ok = False
    ctx.ob("R12.2", cons4, ok, "returns %s" % (ast.unparse(out4.node) if out4.node is not None else out4.kind),
           out4.stmt.lineno if out4.stmt is not None else fn.lineno,
           "a percentage of a zero reference is zero; treating a supplied zero as a missing context leaves the length unresolved")

def to_units(ctx):
    for qual, k in (("Length.to_mm", Fraction(10, 254)), ("Length.to_cm", Fraction(100, 254)), ("Length.to_inch", Fraction(1))):
        fn = ctx.fn(qual, "R12.1")
        alg = Alg()
        found = False
        value_name = None
        for s in fn.body:
            if isinstance(s, ast.Assign) and isinstance(s.value, ast.Call) and attr_chain(s.value.func) == ["self", "value"]:
                value_name = s.targets[0].id
                kw = {k_.arg: ast.unparse(k_.value) for k_ in s.value.keywords}
                ctx.ob("R12.1", qual + "[ppi passed through]", kw.get("ppi") == "ppi", str(kw), s.lineno,
                       "conversion must resolve the value with the caller's ppi")
                continue
            if value_name is not None and isinstance(s, (ast.Assign, ast.Return)) and s.value is not None:
                # the conversion: the outermost arithmetic expression over the resolved value (assigned to a local or used in place)
                cands = []

                def visit(n, inside):
                    is_arith = isinstance(n, ast.BinOp) and isinstance(n.op, (ast.Div, ast.Mult)) and any(isinstance(x, ast.Name) and x.id == value_name for x in ast.walk(n))
                    if is_arith and not inside:
                        cands.append(n)
                    for c in ast.iter_child_nodes(n):
                        visit(c, inside or is_arith)

                visit(s.value, False)
                for c in cands:
                    try:
                        got = alg.ev(c)
                    except Uninterpreted:
                        continue
                    exp = atom(value_name) / (atom("ppi") * const(k))
                    ctx.ob("R12.1", qual, approx_eq(got, exp), "computes %s, expected %s" % (got, exp), s.lineno,
                           "unit conversion factor differs from the CSS ratio")
                    found = True
        ctx.need(found, "R12.1", "%s: conversion statement not found" % qual)
        # value() hands back the Length itself when it cannot resolve it; dividing that scales the amount and keeps the unit
        # ('50%' -> '13.229%').  The arithmetic must be reached only with a number.
        from ..flow import dominated

        def is_number(test, positive, vn=value_name):
            if isinstance(test, ast.Call) and isinstance(test.func, ast.Name) and test.func.id == "isinstance" and len(test.args) == 2 and isinstance(test.args[0], ast.Name) and test.args[0].id == vn:
                names = {e.id for e in (test.args[1].elts if isinstance(test.args[1], ast.Tuple) else [test.args[1]]) if isinstance(e, ast.Name)}
                if names == {"Length"}:
                    return not positive
                if names and names <= {"int", "float"}:
                    return positive
            return False

        uses = [b for b in ast.walk(fn) if isinstance(b, ast.BinOp) and isinstance(b.op, (ast.Div, ast.Mult)) and any(isinstance(x, ast.Name) and x.id == value_name for x in (b.left, b.right))]
        bad = [b for b in uses if not dominated(b, fn, is_number)]
        ctx.ob("R12.2", qual + "[unresolved stays as it is]", bool(uses) and not bad, "; ".join("line %d: %s" % (b.lineno, ast.unparse(b)[:40]) for b in bad), fn.lineno,
               "value() returns the Length unchanged when the context is missing; converting that anyway returns a different symbolic length (to_mm of '50%' gave '13.229%')")


CTX_PARAMS = ("ppi", "relative_length", "font_size", "font_height", "viewbox")


def context_plumbing(ctx):
    """A method of Length that receives a piece of the resolution context under its own name and calls another method taking
    the same piece must hand it on in that slot: keyword k=<parameter k>, or the positional slot of k.  A different parameter in
    the slot (font_height=font_size) resolves ex against the em size; a dropped one leaves the unit unresolved."""
    cls = ctx.m.cls("Length", "R12.6")
    n = 0
    for name, fn in sorted(cls.methods.items()):
        params = [a.arg for a in fn.args.args + fn.args.kwonlyargs]
        mine = [p for p in params if p in CTX_PARAMS]
        if not mine:
            continue
        rebound = {t.id for t in ast.walk(fn) if isinstance(t, ast.Name) and isinstance(t.ctx, ast.Store)}
        for c in ast.walk(fn):
            if not (isinstance(c, ast.Call) and isinstance(c.func, ast.Attribute) and c.func.attr in cls.methods):
                continue
            callee = cls.methods[c.func.attr]
            cparams = [a.arg for a in callee.args.args]
            if cparams and cparams[0] in ("self", "cls") and not (isinstance(c.func.value, ast.Name) and c.func.value.id == "Length"):
                cparams = cparams[1:]
            ckw = [a.arg for a in callee.args.kwonlyargs]
            if any(isinstance(a, ast.Starred) for a in c.args) or any(k.arg is None for k in c.keywords):
                continue
            given = {}
            for pn, a in zip(cparams, c.args):
                given[pn] = a
            for k in c.keywords:
                given[k.arg] = k.value
            for p in mine:
                if p not in cparams and p not in ckw:
                    continue
                n += 1
                v = given.get(p)
                cons = "Length.%s[%s -> %s(%s=)]" % (name, p, c.func.attr, p)
                on_self = isinstance(c.func.value, ast.Name) and c.func.value.id == "self"
                if v is None:
                    if on_self:
                        ctx.ob("R12.6", cons, False, "not passed", c.lineno, "a piece of the resolution context the caller supplied is dropped on the way to the method that resolves the same length")
                    # another Length object (relative_length * self) is resolved in its own right: what it needs is not decided here
                    continue
                if not isinstance(v, ast.Name) or (v.id not in params and v.id != p):
                    continue  # a local or an expression computed in the function: not decided here
                ok = v.id == p and p not in rebound
                ctx.ob("R12.6", cons, ok, "%s=%s" % (p, ast.unparse(v)[:40]), c.lineno,
                       "the slot receives something other than the caller's value for it")
    ctx.need(n >= 1, "R12.6", "no context hand-over found in Length")


def degenerate_calls(ctx):
    cls = ctx.m.cls("Length", "R12.3")
    n = 0
    for name, fn in list(cls.methods.items()):
        for c in ast.walk(fn):
            if isinstance(c, ast.Call) and isinstance(c.func, ast.Name) and c.func.id in ("min", "max") and len(c.args) >= 2:
                n += 1
                dumps = [norm(a) for a in c.args]
                cons = "Length.%s:%s(%s)" % (name, c.func.id, ", ".join(ast.unparse(a) for a in c.args))
                key = "Length.%s:%s#%d" % (name, c.func.id, sum(1 for s in ctx.samples if s["construct"].startswith("Length.%s:%s" % (name, c.func.id))))
                ctx.ob("R12.3", "Length.%s:%s" % (name, c.func.id), len(set(dumps)) == len(dumps), cons, c.lineno,
                       "min/max over identical arguments is the identity: one of the two extents is never consulted")


def plumbing(ctx):
    m = ctx.m
    ops = {"__lt__": ast.Lt, "__le__": ast.LtE, "__gt__": ast.Gt, "__ge__": ast.GtE}
    for name, op in ops.items():
        fn = ctx.fn("Length.%s" % name, "R12.4")
        rets = [s for s in ast.walk(fn) if isinstance(s, ast.Return)]
        ok = False
        detail = ""
        if len(rets) == 1 and isinstance(rets[0].value, ast.Compare):
            c = rets[0].value
            detail = ast.unparse(c)
            left_ok = ast.unparse(c.left) in ("(self - other).amount",)
            right = c.comparators[0]
            zero = isinstance(right, ast.Constant) and right.value == 0
            ok = left_ok and zero and len(c.ops) == 1 and isinstance(c.ops[0], op)
            if not left_ok and not ok:
                # unknown idiom -> cannot decide
                if not (isinstance(c.left, ast.Attribute) or isinstance(c.left, ast.BinOp)):
                    raise AnalysisError("R12.4", "Length.%s: comparison idiom not recognised: %s" % (name, detail))
        else:
            raise AnalysisError("R12.4", "Length.%s: not a single comparison" % name)
        ctx.ob("R12.4", "Length.%s" % name, ok, detail, fn.lineno, "ordering must be the sign of (self - other).amount under the same comparison")
    # __sub__ = copy then -= ; __isub__ = += -other ; __neg__ negates amount of a copy; __add__ copy then +=
    def body_src(q):
        return [ast.unparse(s) for s in ctx.fn(q, "R12.4").body]

    sub = body_src("Length.__sub__")
    ctx.ob("R12.4", "Length.__sub__", any("-= other" in s for s in sub) and any("__copy__()" in s or "copy(self)" in s for s in sub)
           and sub[-1].startswith("return") and "self" not in sub[-1].split("return")[1], "; ".join(sub), ctx.fn("Length.__sub__").lineno,
           "a - b must be computed on a copy by in-place subtraction")
    isub = ctx.fn("Length.__isub__")
    aug = [s for s in ast.walk(isub) if isinstance(s, ast.AugAssign)]
    ok = len(aug) == 1 and isinstance(aug[0].op, ast.Add) and ast.unparse(aug[0].target) == "self" and ast.unparse(aug[0].value) == "-other"
    ctx.ob("R12.4", "Length.__isub__", ok, "; ".join(ast.unparse(a) for a in aug), isub.lineno, "a -= b must be a += -b")
    neg = ctx.fn("Length.__neg__")
    assigns = [s for s in ast.walk(neg) if isinstance(s, ast.Assign) and isinstance(s.targets[0], ast.Attribute) and s.targets[0].attr == "amount"]
    ok = False
    if len(assigns) == 1:
        tgt = ast.unparse(assigns[0].targets[0])
        val = assigns[0].value
        ok = isinstance(val, ast.UnaryOp) and isinstance(val.op, ast.USub) and ast.unparse(val.operand) == tgt and not tgt.startswith("self.")
    ctx.ob("R12.4", "Length.__neg__", ok, "; ".join(ast.unparse(a) for a in assigns), neg.lineno, "-a must negate the amount of a copy")
    add = ctx.fn("Length.__add__")
    aug = [s for s in ast.walk(add) if isinstance(s, ast.AugAssign)]
    ok = len(aug) == 1 and isinstance(aug[0].op, ast.Add) and ast.unparse(aug[0].target) != "self" and ast.unparse(aug[0].value) == "other"
    ctx.ob("R12.4", "Length.__add__", ok, "; ".join(ast.unparse(a) for a in aug), add.lineno, "a + b must add b in place to a copy of a")
    equality(ctx)


def equality(ctx):
    """Length.__eq__ read as a table: for every ordered unit pair, with (a) amounts that resolve to the same value and
    (b) independent amounts, the selected return must be True exactly in case (a) when both units resolve in one family."""
    eq = ctx.fn("Length.__eq__", "R12.5")
    tables = {}
    for qual, table in (("in_pixels", PX), ("in_inches", INCH)):
        tables[qual] = table
    body = [s for s in eq.body if not (isinstance(s, ast.Expr) and isinstance(s.value, ast.Constant))]
    n = 0
    for su in UNITS:
        for ou in UNITS:
            same_family = fam(su) == fam(ou) and fam(su) in ("px", "in")
            for equal_values in (True, False, "both zero"):
                if equal_values is True and not (same_family or su == ou):
                    continue
                a_s = atom("self.amount")
                if equal_values == "both zero":
                    a_s = a_o = const(0)  # zero is zero in any unit: both resolve to 0 whatever the context
                elif equal_values:
                    a_o = a_s if su == ou else a_s * R(su) / R(ou)
                else:
                    a_o = atom("other.amount")
                zero = equal_values == "both zero"
                facts = Facts(strs={"self.units": su, "other.units": ou}, nulls={"other": False}, types={"other": "Length"}, zeros={"self.amount": zero, "other.amount": zero})
                alg = Alg(atom_map={"other.amount": a_o, "self.amount": a_s} if zero else {"other.amount": a_o})

                def on_assign(stmt, facts, alg):
                    v = stmt.value if isinstance(stmt, ast.Assign) else None
                    if isinstance(v, ast.Call) and isinstance(v.func, ast.Attribute) and v.func.attr in tables and isinstance(stmt.targets[0], ast.Name) and not v.args:
                        who = ast.unparse(v.func.value)
                        unit = facts.strs.get("%s.units" % who)
                        tab = tables[v.func.attr]
                        tgt = stmt.targets[0].id
                        if unit in tab:
                            facts.nulls[tgt] = False
                            amt = alg.ev(ast.parse("%s.amount" % who, mode="eval").body)
                            alg.env[tgt] = amt * const(tab[unit])
                        else:
                            facts.nulls[tgt] = True
                            alg.env.pop(tgt, None)
                        return True
                    return False

                def on_test(test, facts, alg):
                    src = ast.unparse(test)
                    if isinstance(test, ast.Compare) and isinstance(test.left, ast.Call) and isinstance(test.left.func, ast.Name) and test.left.func.id == "abs" \
                            and isinstance(test.ops[0], (ast.LtE, ast.Lt)) and ast.unparse(test.comparators[0]) == "ERROR":
                        d = test.left.args[0]
                        if isinstance(d, ast.BinOp) and isinstance(d.op, ast.Sub):
                            return approx_eq(alg.ev(d.left), alg.ev(d.right))
                    if src.replace(" ", "") in ("self.amount==other.amountandself.units==other.units", "self.units==other.unitsandself.amount==other.amount"):
                        return facts.strs["self.units"] == facts.strs["other.units"] and alg.ev(ast.parse("self.amount", mode="eval").body) == alg.ev(ast.parse("other.amount", mode="eval").body)
                    return None

                cons = "Length.__eq__[%s==%s,%s]" % (su or "''", ou or "''", "both zero" if zero else "equal values" if equal_values else "independent amounts")
                out = walk(body, facts, alg, ctx.m, "R12.5", cons, on_assign=on_assign, on_test=on_test)
                n += 1
                if out.kind != "return" or not isinstance(out.node, ast.Constant) or not isinstance(out.node.value, bool):
                    ctx.ob("R12.5", cons, False, "result %s" % (ast.unparse(out.node) if out.node is not None else out.kind), eq.lineno, "equality must answer True or False")
                    continue
                want = bool(equal_values)
                ctx.ob("R12.5", cons, out.node.value == want, "answers %s" % out.node.value, out.stmt.lineno,
                       "a == b must hold exactly when both lengths resolve to the same value", sample=(su == "pt" and ou == "pc"))
    ctx.need(n >= 200, "R12.5", "too few equality cells (%d)" % n)
    # Length == number: the number is in user units (px)
    from ..dispatch import decide

    for su in UNITS:
        for case in ("equal", "different", "both zero"):
            if su not in PX and case == "equal":
                continue
            a_s = const(0) if case == "both zero" else atom("self.amount")
            other = {"equal": a_s * R(su) if su in PX else None, "different": atom("other"), "both zero": const(0)}[case]
            facts = Facts(strs={"self.units": su}, nulls={"other": False}, types={"other": "float"}, zeros={"other": case == "both zero", "self.amount": case == "both zero"})
            alg = Alg(atom_map={"other": other, "self.amount": a_s})

            def on_assign(stmt, facts, alg):
                v = stmt.value if isinstance(stmt, ast.Assign) else None
                if isinstance(v, ast.Call) and isinstance(v.func, ast.Attribute) and v.func.attr in tables and isinstance(stmt.targets[0], ast.Name) and not v.args:
                    tab = tables[v.func.attr]
                    tgt = stmt.targets[0].id
                    if su in tab:
                        facts.nulls[tgt] = False
                        alg.env[tgt] = a_s * const(tab[su])
                    else:
                        facts.nulls[tgt] = True
                    return True
                return False

            cons = "Length.__eq__[%s == number, %s]" % (su or "''", case)
            out = walk(body, facts, alg, ctx.m, "R12.5", cons, on_assign=on_assign)
            got = None
            if out.kind == "return":
                v = out.node
                if isinstance(v, ast.Constant) and isinstance(v.value, bool):
                    got = v.value
                elif isinstance(v, ast.Compare) and isinstance(v.left, ast.Call) and ast.unparse(v.left.func) == "abs" and isinstance(v.ops[0], (ast.LtE, ast.Lt)) and ast.unparse(v.comparators[0]) == "ERROR":
                    d = v.left.args[0]
                    got = approx_eq(alg.ev(d.left), alg.ev(d.right)) if isinstance(d, ast.BinOp) and isinstance(d.op, ast.Sub) else None
                else:
                    try:
                        got = decide(v, facts, ctx.m)
                    except Exception:
                        got = None
            want = case in ("equal", "both zero")
            ctx.ob("R12.5", cons, got is not None and got == want, "answers %s" % got, out.stmt.lineno if out.stmt is not None else eq.lineno,
                   "a length equals a number exactly when it resolves to that number of user units (an unresolvable length only equals 0 when it is itself 0)")
