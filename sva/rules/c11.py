"""C11 - viewport transform equals the SVG 2 section 8.2 'equivalent transform' algorithm."""
import ast
import itertools
import re

from ..algebra import Alg, atom, const, ref
from ..dispatch import Facts, walk
from ..model import AnalysisError, stmts_in

EXPLANATION = (
    "Static rules over Viewbox.viewbox_transform (no execution). R11.1: for every align value (none + 9 xM?YM? values, "
    "exhaustive) crossed with meetOrSlice in {meet, slice, other}, the statements selected by the string guards are "
    "folded into exact canonical forms of scale-x, scale-y, translate-x, translate-y and compared with the SVG 2 "
    "section 8.2 algorithm (scale = e-size/vb-size, both := min (meet) / max (slice) unless align is none, "
    "translate = e-pos - vb-pos*scale, plus half the slack for Mid and the whole slack for Max). (x/y axis symmetry needs no rule of its own: both axes are compared with the same "
    "reference; a statement-wise mirror test was tried and dropped because it fired on an algebraically equal "
    "rewrite of one axis.) R11.3: all eight numeric parameters are tested for None before any arithmetic and give the "
    "identity (empty) result; defaults for a missing attribute / missing second token are xMidYMid and meet. R11.4: every "
    "returned string is translate(tx, ty) scale(sx, sy) in that order, dropping a part only under the guard that it is "
    "the identity. R11.5: Viewbox.transform passes element and viewBox quantities in the parameter order. Not decided: "
    "digits lost by the 12-decimal formatting at extreme scales; tokenisation of unusual preserveAspectRatio spacing."
)
ASSUMPTIONS = [
    "SVG 2 section 8.2 is the oracle; the reference is computed inside the checker from the specification text.",
    "String guards are decided over the finite domain of align/meetOrSlice values; no numeric value is computed.",
    "Number formatting (Length.str, 12 decimals) is outside the decided part.",
]
EXHAUSTIVE = True
FLOORS = {"R11.1": 120, "R11.3": 10, "R11.4": 4}

ALIGNS = ["none"] + ["x%sY%s" % (a, b) for a in ("Min", "Mid", "Max") for b in ("Min", "Mid", "Max")]
PARAMS = ["e_x", "e_y", "e_width", "e_height", "vb_x", "vb_y", "vb_width", "vb_height", "aspect"]


def reference(align, mos):
    ex, ey, ew, eh, vx, vy, vw, vh = (atom(n) for n in PARAMS[:8])
    sx = ew / vw
    sy = eh / vh
    if align != "none" and mos == "meet":
        sx = sy = Alg(env={"a": sx, "b": sy}).ev(ast.parse("min(a, b)", mode="eval").body)
    elif align != "none" and mos == "slice":
        sx = sy = Alg(env={"a": sx, "b": sy}).ev(ast.parse("max(a, b)", mode="eval").body)
    tx = ex - vx * sx
    ty = ey - vy * sy
    if "xMid" in align:
        tx = tx + (ew - vw * sx) / const(2)
    if "xMax" in align:
        tx = tx + (ew - vw * sx)
    if "YMid" in align:
        ty = ty + (eh - vh * sy) / const(2)
    if "YMax" in align:
        ty = ty + (eh - vh * sy)
    return {"scale_x": sx, "scale_y": sy, "translate_x": tx, "translate_y": ty}


def run(ctx):
    ctx.rule("R11.1", "algorithm steps per (align, meetOrSlice) vs SVG 2 8.2")
    ctx.rule("R11.3", "None guards and defaults")
    ctx.rule("R11.4", "output order and identity elision")
    ctx.rule("R11.5", "parameter plumbing")
    fn = ctx.fn("Viewbox.viewbox_transform", "R11.1")
    have = [a.arg for a in fn.args.args]
    ctx.need(have == PARAMS, "R11.1", "viewbox_transform parameters changed: %s" % have)
    body = [s for s in fn.body if not (isinstance(s, ast.Expr) and isinstance(s.value, ast.Constant))]
    # --- R11.3 None guard is the first statement and covers all eight
    g = body[0]
    tested = set()
    if isinstance(g, ast.If):
        for c in ast.walk(g.test):
            if isinstance(c, ast.Compare) and isinstance(c.ops[0], ast.Is) and isinstance(c.comparators[0], ast.Constant) and c.comparators[0].value is None \
                    and isinstance(c.left, ast.Name):
                tested.add(c.left.id)
    is_or = isinstance(g, ast.If) and isinstance(g.test, ast.BoolOp) and isinstance(g.test.op, ast.Or)
    ret_empty = isinstance(g, ast.If) and len(g.body) == 1 and isinstance(g.body[0], ast.Return) and isinstance(g.body[0].value, ast.Constant) and g.body[0].value.value == ""
    for p in PARAMS[:8]:
        ctx.ob("R11.3", "viewbox_transform[None guard %s]" % p, p in tested and is_or and ret_empty, "tested: %s" % sorted(tested), g.lineno,
               "a missing quantity must give the identity transform before any arithmetic touches it")
    # --- defaults
    asp = body[1]
    ctx.need(isinstance(asp, ast.If) and "aspect is not None" in ast.unparse(asp.test), "R11.3", "aspect parsing block not found")
    defaults = {"align": [], "meet_or_slice": []}
    sources = {}
    for s in stmts_in([asp]):
        if isinstance(s, ast.Assign) and isinstance(s.targets[0], ast.Name) and s.targets[0].id in defaults:
            if isinstance(s.value, ast.Constant):
                defaults[s.targets[0].id].append((s.value.value, s.lineno))
            else:
                sources[s.targets[0].id] = ast.unparse(s.value)
    for v, line in defaults["align"]:
        ctx.ob("R11.3", "viewbox_transform[default align]", v.lower() == "xmidymid", repr(v), line, "default align is xMidYMid")
    for v, line in defaults["meet_or_slice"]:
        ctx.ob("R11.3", "viewbox_transform[default meetOrSlice]", v == "meet", repr(v), line, "default meetOrSlice is meet")
    ctx.need(defaults["align"] and defaults["meet_or_slice"], "R11.3", "defaults for align / meetOrSlice not found")
    split_var = None
    for s in stmts_in([asp]):
        if isinstance(s, ast.Assign) and isinstance(s.value, ast.Call) and isinstance(s.value.func, ast.Attribute) and s.value.func.attr == "split" \
                and ast.unparse(s.value.func.value) == "aspect":
            split_var = s.targets[0].id
    ctx.need(split_var is not None, "R11.3", "aspect.split(...) not found")
    ctx.ob("R11.3", "viewbox_transform[token order]", sources.get("align") == "%s[0]" % split_var and sources.get("meet_or_slice") == "%s[1]" % split_var,
           str(sources), asp.lineno, "align is the first token of preserveAspectRatio and meetOrSlice the second")
    # --- R11.1 main computation for every (align, mos)
    tail = body[2:]
    # split tail: computing part ends at first statement that mentions Length.str / returns
    comp = []
    out_part = []
    for s in tail:
        if out_part or any(isinstance(n, ast.Return) for n in ast.walk(s)) or "isinstance(scale_x, Length)" in ast.unparse(s):
            out_part.append(s)
        else:
            comp.append(s)
    ctx.need(comp and out_part, "R11.1", "computation / output parts not separated")
    for align in ALIGNS:
        for mos in ("meet", "slice", "other"):
            facts = Facts(strs={"align": align, "meet_or_slice": mos})
            alg = Alg()
            out = walk(comp, facts, alg, ctx.m, "R11.1", "viewbox_transform[%s %s]" % (align, mos))
            ctx.need(out.kind == "fall", "R11.1", "computation part returned early for %s %s" % (align, mos))
            want = reference(align, mos)
            for var in ("scale_x", "scale_y", "translate_x", "translate_y"):
                got = alg.env.get(var)
                ctx.need(got is not None and not isinstance(got, list), "R11.1", "variable %s not computed" % var)
                ctx.ob("R11.1", "viewbox_transform[%s %s].%s" % (align, mos, var), got == want[var], "%s vs %s" % (got, want[var]), fn.lineno,
                       "differs from SVG 2 8.2 for preserveAspectRatio='%s %s'" % (align, mos), sample=(align in ("xMidYMax", "none")))
    # --- R11.4 outputs
    tests = []
    for s in stmts_in(out_part):
        if isinstance(s, ast.If):
            t = ast.unparse(s.test)
            if t not in tests and "isinstance" not in t:
                tests.append(t)
    ctx.need(1 <= len(tests) <= 4, "R11.4", "output guards not recognised: %s" % tests)

    def kind(t):
        if re.fullmatch(r"translate_x == 0(\.0)? and translate_y == 0(\.0)?", t) or re.fullmatch(r"translate_y == 0(\.0)? and translate_x == 0(\.0)?", t):
            return "T0"
        if re.fullmatch(r"scale_x == 1(\.0)? and scale_y == 1(\.0)?", t) or re.fullmatch(r"scale_y == 1(\.0)? and scale_x == 1(\.0)?", t):
            return "S1"
        return None

    kinds = {t: kind(t) for t in tests}
    ctx.need(all(kinds.values()), "R11.4", "output guard idiom not recognised: %s" % tests)
    n_out = 0
    for combo in itertools.product([False, True], repeat=len(tests)):
        truth = dict(zip(tests, combo))
        facts = Facts(truth=truth, types={"scale_x": "float", "scale_y": "float"})
        out = walk(out_part, facts, Alg(), ctx.m, "R11.4", "viewbox_transform[output]")
        ctx.need(out.kind == "return", "R11.4", "no result returned")
        t0 = any(v for t, v in truth.items() if kinds[t] == "T0")
        s1 = any(v for t, v in truth.items() if kinds[t] == "S1")
        got = parse_output(out.node)
        full = [("translate", ["translate_x", "translate_y"]), ("scale", ["scale_x", "scale_y"])]
        want_min = [f for f in full if not ((f[0] == "translate" and t0) or (f[0] == "scale" and s1))]
        ok = got is not None and (got == full or got == want_min)
        n_out += 1
        ctx.ob("R11.4", "viewbox_transform[output T0=%s S1=%s]" % (t0, s1), ok, "returns %s" % (got,), out.stmt.lineno,
               "result must be translate(tx, ty) scale(sx, sy) in this order; a part may be dropped only when it is the identity")
    # --- R11.5 plumbing
    tf = ctx.fn("Viewbox.transform", "R11.5")
    calls = [c for c in ast.walk(tf) if isinstance(c, ast.Call) and ast.unparse(c.func).endswith("viewbox_transform")]
    ctx.need(len(calls) == 1, "R11.5", "Viewbox.transform: call not found")
    el = tf.args.args[1].arg
    want = ["%s.x" % el, "%s.y" % el, "%s.width" % el, "%s.height" % el, "self.x", "self.y", "self.width", "self.height", "self.preserve_aspect_ratio"]
    got = [ast.unparse(a) for a in calls[0].args]
    ctx.ob("R11.5", "Viewbox.transform[argument order]", got == want, str(got), tf.lineno, "element and viewBox quantities passed in the wrong slots")
    sv = ctx.fn("Viewbox.set_viewbox", "R11.5")
    m = {}
    for s in ast.walk(sv):
        if isinstance(s, ast.Assign) and isinstance(s.targets[0], ast.Attribute) and isinstance(s.value, ast.Call) and s.value.args and isinstance(s.value.args[0], ast.Subscript):
            m[s.targets[0].attr] = ast.literal_eval(s.value.args[0].slice)
    ctx.ob("R11.5", "Viewbox.set_viewbox[order]", m == {"x": 0, "y": 1, "width": 2, "height": 3}, str(m), sv.lineno, "viewBox is min-x min-y width height")
    incomplete_ok = any(isinstance(h.type, ast.Name) and h.type.id == "IndexError" for t in ast.walk(sv) if isinstance(t, ast.Try) for h in t.handlers)
    ctx.ob("R11.5", "Viewbox.set_viewbox[incomplete]", incomplete_ok, "", sv.lineno, "an incomplete viewBox must not raise (it yields the identity through the None guard)")


def parse_output(node):
    """'translate(%s, %s) scale(%s, %s)' % (Length.str(tx), ...) -> [(name, [vars])]"""
    if isinstance(node, ast.Constant) and node.value == "":
        return []
    if not (isinstance(node, ast.BinOp) and isinstance(node.op, ast.Mod) and isinstance(node.left, ast.Constant)):
        return None
    fmt = node.left.value
    args = node.right.elts if isinstance(node.right, ast.Tuple) else [node.right]
    names = []
    for a in args:
        if isinstance(a, ast.Call) and ast.unparse(a.func) == "Length.str" and isinstance(a.args[0], ast.Name):
            names.append(a.args[0].id)
        elif isinstance(a, ast.Name):
            names.append(a.id)
        else:
            return None
    out = []
    pos = 0
    for mt in re.finditer(r"([a-zA-Z]+)\(([^)]*)\)", fmt):
        n = mt.group(2).count("%s")
        if mt.group(2).replace("%s", "").replace(",", "").strip():
            return None
        out.append((mt.group(1), names[pos:pos + n]))
        pos += n
    rest = re.sub(r"([a-zA-Z]+)\(([^)]*)\)", "", fmt).strip()
    if rest or pos != len(names):
        return None
    return out
