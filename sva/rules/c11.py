"""C11 - viewport transform equals the SVG 2 section 8.2 'equivalent transform' algorithm."""
import ast
import itertools
import re

from ..algebra import RF, Alg, atom, const, ref
from ..model import AnalysisError, attr_chain, stmts_in
from ..pe import PE, K, Obj, Raised

EXPLANATION = (
    "Static rules over Viewbox.viewbox_transform (no execution). R11.1: for every align value (none + 9 xM?YM? values, "
    "exhaustive) crossed with meetOrSlice in {meet, slice, other}, the statements selected by the string guards are "
    "folded into exact canonical forms of scale-x, scale-y, translate-x, translate-y and compared with the SVG 2 "
    "section 8.2 algorithm (scale = e-size/vb-size, both := min (meet) / max (slice) unless align is none, "
    "translate = e-pos - vb-pos*scale, plus half the slack for Mid and the whole slack for Max). (x/y axis symmetry needs no rule of its own: both axes are compared with the same "
    "reference; a statement-wise mirror test was tried and dropped because it fired on an algebraically equal "
    "rewrite of one axis.) R11.3: all eight numeric parameters are tested for None before any arithmetic and give the "
    "identity (empty) result; defaults for a missing attribute / missing second token are xMidYMid and meet. R11.4: every "
    "returned string is translate(tx, ty) scale(sx, sy) in that order, dropping a part only under the guard that it is "
    "the identity. R11.5: Viewbox.transform passes element and viewBox quantities in the parameter order. Not decided: "
    "digits lost by the 12-decimal formatting at extreme scales; tokenisation of unusual preserveAspectRatio spacing."
    " R11.7: the statements of SVG.parse that fill in the width and height handed to the svg element's render()"
    ' are followed for all eight combinations (width given / missing, height given / missing, viewBox present /'
    " absent): a given dimension reaches render unchanged, a missing one becomes the viewBox's dimension of the"
    ' same axis, else 1000.'
    " R11.8: the svg element's own x, y, width, height - the e-x, e-y, e-width, e-height of the algorithm -"
    ' resolve percentages against the viewport axis they lie on (C03 R03.7 for the svg element).'
    " R11.9: the element size enters the algorithm in user units, so C12's value table (every unit of"
    ' Length.value against the CSS ratio, context-dependent units staying symbolic) runs here as well.'
)
TECHNIQUE = (
    "static analysis (no execution): the whole function partially evaluated for every preserveAspectRatio value (10 align x 3 meetOrSlice + defaults) and every identity-test answer; resulting transform strings compared with the SVG 2 8.2 reference as exact canonical forms"
)
ASSUMPTIONS = [
    "SVG 2 section 8.2 is the oracle; the reference is computed inside the checker from the specification text.",
    "String guards are decided over the finite domain of align/meetOrSlice values; no numeric value is computed.",
    "Number formatting (Length.str, 12 decimals) is outside the decided part.",
]
EXHAUSTIVE = True
FLOORS = {"R11.1": 120, "R11.3": 10, "R11.4": 16, "R11.6": 2, "R11.7": 8, "R11.8": 4}

ALIGNS = ["none"] + ["x%sY%s" % (a, b) for a in ("Min", "Mid", "Max") for b in ("Min", "Mid", "Max")]
PARAMS = ["e_x", "e_y", "e_width", "e_height", "vb_x", "vb_y", "vb_width", "vb_height", "aspect"]


def reference(align, mos):
    ex, ey, ew, eh, vx, vy, vw, vh = (atom(n) for n in PARAMS[:8])
    sx = ew / vw
    sy = eh / vh
    if align != "none" and mos == "meet":
        sx = sy = Alg(env={"a": sx, "b": sy}).ev(ast.parse("min(a, b)", mode="eval").body)
    elif align != "none" and mos == "slice":
        sx = sy = Alg(env={"a": sx, "b": sy}).ev(ast.parse("max(a, b)", mode="eval").body)
    tx = ex - vx * sx
    ty = ey - vy * sy
    if "xMid" in align:
        tx = tx + (ew - vw * sx) / const(2)
    if "xMax" in align:
        tx = tx + (ew - vw * sx)
    if "YMid" in align:
        ty = ty + (eh - vh * sy) / const(2)
    if "YMax" in align:
        ty = ty + (eh - vh * sy)
    return {"scale_x": sx, "scale_y": sy, "translate_x": tx, "translate_y": ty}


def run(ctx):
    ctx.rule("R11.1", "algorithm steps per (align, meetOrSlice) vs SVG 2 8.2")
    ctx.rule("R11.3", "None guards and defaults")
    ctx.rule("R11.4", "output order and identity elision")
    ctx.rule("R11.5", "parameter plumbing")
    ctx.rule("R11.6", "an incomplete viewBox counts as no viewBox")
    ctx.rule("R11.8", "e-x, e-y, e-width, e-height: percentages of the svg element resolve against the viewport axis they lie on (obligations shared with C03)")
    ctx.rule("R11.9", "the element size enters the algorithm in user units: every unit of Length.value resolves by the CSS ratio (obligations shared with C12 R12.1/R12.2)")
    ctx.rule("R11.7", "the element size handed to render: each dimension defaults on its own (caller value, else viewBox dimension, else 1000)")
    incomplete_viewbox(ctx)
    size_defaults(ctx)
    # the element position and size that enter the algorithm: x and width against the viewport width, y and height against
    # its height (the rule of C03 R03.7, for the svg element)
    from . import c03

    c03.axis_reference(ctx.renamed("R11.8"), only=("SVG",))
    from . import c12

    c12.value_table(ctx.renamed("R11.9"))
    fn = ctx.fn("Viewbox.viewbox_transform", "R11.1")
    have = [a.arg for a in fn.args.args]
    ctx.need(len(have) == 9, "R11.1", "viewbox_transform parameters changed: %s" % have)
    body = [s for s in fn.body if not (isinstance(s, ast.Expr) and isinstance(s.value, ast.Constant))]

    def evaluate(aspect, none_param=None, ident=None):
        """Follow the whole function for one preserveAspectRatio value.  ident = (tx0, ty0, sx1, sy1) answers the identity tests."""
        want = [None]
        asked = {0: [], 1: []}

        def oracle(pe, test):
            # identity tests `q == 0` / `q == 1` on a symbolic quantity: answered from the scenario, per distinct quantity in order of first appearance
            if isinstance(test, ast.Compare) and len(test.ops) == 1 and isinstance(test.ops[0], (ast.Eq, ast.NotEq)) and ident is not None:
                l, r = pe.ev(test.left), pe.ev(test.comparators[0])
                for a_, b_ in ((l, r), (r, l)):
                    if isinstance(a_, RF) and isinstance(b_, RF) and b_.is_const() and not a_.is_const() and b_.constval() in (0, 1):
                        kind = int(b_.constval())
                        lst = asked[kind]
                        for q, ans in lst:
                            if q == a_:
                                break
                        else:
                            if len(lst) >= 2:
                                return None
                            ans = ident[2 * kind + len(lst)]
                            lst.append((a_, ans))
                        return ans if isinstance(test.ops[0], ast.Eq) else not ans
            return None

        def hook(pe, call):
            ch = attr_chain(call.func)
            if ch == ["Length", "str"] and len(call.args) == 1:
                return pe.ev(call.args[0])
            if ch in (["str"], ["float"]) and len(call.args) == 1:
                v = pe.ev(call.args[0])
                if isinstance(v, RF):
                    return v
            return None

        pe = PE(ctx.m, "R11.1", "viewbox_transform[%r]" % (aspect,), oracle=oracle, call_hook=hook)
        for i, p in enumerate(have[:8]):
            pe.bind(p, K(None) if none_param == i else atom(PARAMS[i]))
        pe.bind(have[8], K(aspect))
        toks = aspect.split() if aspect is not None else []  # SVG: <align> [<meetOrSlice>], separated by white space
        align = toks[0] if toks else "xMidYMid"
        mos = toks[1] if len(toks) > 1 else "meet"
        want[0] = reference(align, mos)
        res = pe.run(body)
        pe.asked = asked
        return pe, res, want[0]

    def output(pe, res):
        """[(function name, [RF args])] of the returned transform string"""
        if res is None or res.kind != "return" or res.value is None:
            return None
        node = res.value
        v = None
        if isinstance(node, ast.Constant) and isinstance(node.value, str):
            fmt, args = node.value, []
        elif isinstance(node, ast.BinOp) and isinstance(node.op, ast.Mod):
            f = pe.ev(node.left)
            if not (isinstance(f, K) and isinstance(f.v, str)):
                return None
            fmt = f.v
            args = [pe.ev(a) for a in (node.right.elts if isinstance(node.right, ast.Tuple) else [node.right])]
        elif isinstance(node, ast.Name) and isinstance(pe.env.get(node.id), K) and isinstance(pe.env[node.id].v, str):
            fmt, args = pe.env[node.id].v, []
        elif isinstance(node, ast.Call) and isinstance(node.func, ast.Attribute) and node.func.attr == "format" and not node.keywords:
            f = pe.ev(node.func.value)
            if not (isinstance(f, K) and isinstance(f.v, str)):
                return None
            import string
            pieces, order = "", []
            auto = 0
            for lit, field, spec, conv in string.Formatter().parse(f.v):
                pieces += lit
                if field is None:
                    continue
                if spec or conv or not (field == "" or field.isdigit()):
                    return None
                idx = auto if field == "" else int(field)
                auto += 1
                pieces += "%s"
                order.append(idx)
            fmt = pieces
            allargs = [pe.ev(a) for a in node.args]
            if any(i >= len(allargs) for i in order):
                return None
            args = [allargs[i] for i in order]
        elif isinstance(node, ast.JoinedStr):
            fmt, args = "", []
            for v in node.values:
                if isinstance(v, ast.Constant):
                    fmt += str(v.value)
                elif isinstance(v, ast.FormattedValue) and v.format_spec is None and v.conversion == -1:
                    fmt += "%s"
                    args.append(pe.ev(v.value))
                else:
                    return None
        else:
            return None
        out = []
        pos = 0
        for mt in re.finditer(r"([a-zA-Z]+)\(([^)]*)\)", fmt):
            n = mt.group(2).count("%s")
            if mt.group(2).replace("%s", "").replace(",", "").strip():
                return None
            out.append((mt.group(1), args[pos:pos + n]))
            pos += n
        rest = re.sub(r"([a-zA-Z]+)\(([^)]*)\)", "", fmt).strip()
        if rest or pos != len(args):
            return None
        return out

    # --- R11.3 None guards: a missing quantity gives the identity before any arithmetic touches it
    for i, p in enumerate(PARAMS[:8]):
        ok, detail = False, ""
        try:
            pe, res, _ = evaluate("xMidYMid meet", none_param=i, ident=(False, False, False, False))
            ok = output(pe, res) == []
            detail = "returns %s" % (ast.unparse(res.value) if res is not None and res.value is not None else None)
        except Raised as e:
            detail = "raises %s" % e.name
        except AnalysisError as e:
            detail = str(e)[:120]
        ctx.ob("R11.3", "viewbox_transform[None guard %s]" % p, ok, detail, fn.lineno,
               "a missing quantity must give the identity transform before any arithmetic touches it")
    # --- R11.1 / R11.3 defaults / R11.4 outputs: the whole function per preserveAspectRatio value
    cases = [(None, "xMidYMid", "meet", "default align"), ("xMinYMax", "xMinYMax", "meet", "default meetOrSlice"),
             (" xMaxYMin  slice ", "xMaxYMin", "slice", "white space around and between the two words"),
             ("xMinYMax ", "xMinYMax", "meet", "trailing blank"), ("xMidYMin\tslice", "xMidYMin", "slice", "tab between the two words")]
    for align in ALIGNS:
        for mos in ("meet", "slice", "other"):
            cases.append(("%s %s" % (align, mos), align, mos, None))
    n_out = 0
    for aspect, align, mos, tag in cases:
        try:
            pe, res, want = evaluate(aspect, ident=(False, False, False, False))
        except Raised as e:
            raise AnalysisError("R11.1", "viewbox_transform[%s]: raises %s on plain numbers" % (aspect, e.name))
        got = output(pe, res)
        ctx.need(got is not None, "R11.1", "viewbox_transform[%s]: returned expression not interpreted" % (aspect,))
        parts = dict(got)
        full_order = [n for n, _ in got] == ["translate", "scale"] and all(len(a) == 2 for _, a in got)
        vals = {}
        if full_order:
            vals = {"translate_x": parts["translate"][0], "translate_y": parts["translate"][1], "scale_x": parts["scale"][0], "scale_y": parts["scale"][1]}
        if tag is not None:
            ok = full_order and all(isinstance(vals[k], RF) and vals[k] == want[k] for k in want)
            ctx.ob("R11.3", "viewbox_transform[%s]" % tag, ok, "preserveAspectRatio=%r gives %s" % (aspect, {k: str(v) for k, v in vals.items()}), fn.lineno,
                   "default align is xMidYMid, default meetOrSlice is meet; the two words are separated (and may be surrounded) by any white space")
            continue
        for var in ("scale_x", "scale_y", "translate_x", "translate_y"):
            g = vals.get(var)
            ctx.ob("R11.1", "viewbox_transform[%s %s].%s" % (align, mos, var), isinstance(g, RF) and g == want[var], "%s vs %s" % (g, want[var]), fn.lineno,
                   "differs from SVG 2 8.2 for preserveAspectRatio='%s %s'" % (align, mos), sample=(align in ("xMidYMax", "none")))
    # --- R11.4: which parts may be dropped, for every combination of identity facts
    for ident in itertools.product([False, True], repeat=4):
        pe, res, want = evaluate("none meet", ident=ident)
        got = output(pe, res)
        ok = got is not None
        detail = ""
        if ok:
            names = [n for n, _ in got]
            full = ["translate", "scale"]

            def proven(kind, keys):
                return all(any(q == want[k] and ans for q, ans in pe.asked[kind]) for k in keys)

            may_drop_t = proven(0, ("translate_x", "translate_y"))
            may_drop_s = proven(1, ("scale_x", "scale_y"))
            allowed = [full, [f for f in full if not ((f == "translate" and may_drop_t) or (f == "scale" and may_drop_s))]]
            if may_drop_t and not may_drop_s:
                allowed.append(["scale"])
            if may_drop_s and not may_drop_t:
                allowed.append(["translate"])
            ok = names in allowed
            detail = "identity facts established: translate %s, scale %s; returns %s" % (may_drop_t, may_drop_s, names)
            for n, a in got:
                if n == "translate":
                    ok = ok and len(a) == 2 and a[0] == want["translate_x"] and a[1] == want["translate_y"]
                if n == "scale":
                    ok = ok and len(a) == 2 and a[0] == want["scale_x"] and a[1] == want["scale_y"]
        n_out += 1
        ctx.ob("R11.4", "viewbox_transform[output identity answers %s]" % "".join("T" if x else "F" for x in ident), ok, detail, fn.lineno,
               "result must be translate(tx, ty) scale(sx, sy) in this order; a part may be dropped only when it is the identity (both components)", sample=(ident == (True, False, True, True)))
    # --- R11.5 plumbing
    tf = ctx.fn("Viewbox.transform", "R11.5")
    calls = [c for c in ast.walk(tf) if isinstance(c, ast.Call) and ast.unparse(c.func).endswith("viewbox_transform")]
    ctx.need(len(calls) == 1, "R11.5", "Viewbox.transform: call not found")
    el = tf.args.args[1].arg
    want = ["%s.x" % el, "%s.y" % el, "%s.width" % el, "%s.height" % el, "self.x", "self.y", "self.width", "self.height", "self.preserve_aspect_ratio"]
    got = [ast.unparse(a) for a in calls[0].args]
    kw = {k.arg: ast.unparse(k.value) for k in calls[0].keywords if k.arg}
    for i, pn in enumerate(have):
        if i >= len(got) and pn in kw:
            got.append(kw[pn])
    ctx.ob("R11.5", "Viewbox.transform[argument order]", got == want, str(got), tf.lineno, "element and viewBox quantities passed in the wrong slots")
    sv = ctx.fn("Viewbox.set_viewbox", "R11.5")
    m = {}
    for s in ast.walk(sv):
        if isinstance(s, ast.Assign) and isinstance(s.targets[0], ast.Attribute) and isinstance(s.value, ast.Call) and s.value.args and isinstance(s.value.args[0], ast.Subscript):
            m[s.targets[0].attr] = ast.literal_eval(s.value.args[0].slice)
    ctx.ob("R11.5", "Viewbox.set_viewbox[order]", m == {"x": 0, "y": 1, "width": 2, "height": 3}, str(m), sv.lineno, "viewBox is min-x min-y width height")
    incomplete_ok = any(isinstance(h.type, ast.Name) and h.type.id == "IndexError" for t in ast.walk(sv) if isinstance(t, ast.Try) for h in t.handlers)
    ctx.ob("R11.5", "Viewbox.set_viewbox[incomplete]", incomplete_ok, "", sv.lineno, "an incomplete viewBox must not raise (it yields the identity through the None guard)")


def size_defaults(ctx):
    """SVG.parse hands s.render(width=, height=) the size the element's percentages and the viewport transform are resolved
    against.  The two names come from the caller (or the enclosing svg) and either may be None; the statements that fill them
    in are followed for all eight combinations (width given?, height given?, viewBox present?): a given dimension must reach
    render unchanged, a missing one becomes the viewBox's dimension of the same axis, else 1000."""
    fn = ctx.fn("SVG.parse", "R11.7")
    site = None
    for blk_owner in ast.walk(fn):
        for field in ("body", "orelse", "finalbody"):
            blk = getattr(blk_owner, field, None)
            if not isinstance(blk, list):
                continue
            for i, st in enumerate(blk):
                if isinstance(st, ast.Expr) and isinstance(st.value, ast.Call) and isinstance(st.value.func, ast.Attribute) and st.value.func.attr == "render" \
                        and {"width", "height", "viewbox"} <= {k.arg for k in st.value.keywords}:
                    site = (blk, i, st.value)
    ctx.need(site is not None, "R11.7", "SVG.parse: render(width=, height=, viewbox=) of the svg element not found")
    blk, i, call = site
    kw = {k.arg: k.value for k in call.keywords}
    ctx.need(isinstance(kw["width"], ast.Name) and isinstance(kw["height"], ast.Name) and isinstance(call.func.value, ast.Name), "R11.7", "render arguments are not plain names")
    wn, hn, el = kw["width"].id, kw["height"].id, call.func.value.id
    vb = ast.unparse(kw["viewbox"])
    # the run of statements before the call that only write the two names
    j = i
    while j > 0:
        st = blk[j - 1]
        stores = {n.id for n in ast.walk(st) if isinstance(n, ast.Name) and isinstance(n.ctx, ast.Store)}
        if isinstance(st, (ast.If, ast.Assign)) and stores and stores <= {wn, hn} and not any(isinstance(n, ast.Call) for n in ast.walk(st)):
            j -= 1
        else:
            break
    stmts = blk[j:i]
    ctx.need(stmts, "R11.7", "SVG.parse: no defaulting statements before render")
    for wgiven, hgiven, hasvb in itertools.product([True, False], repeat=3):
        cons = "SVG.parse[size: width %s, height %s, viewBox %s]" % ("given" if wgiven else "missing", "given" if hgiven else "missing", "present" if hasvb else "absent")
        pe = PE(ctx.m, "R11.7", cons)
        pe.bind(wn, atom("W") if wgiven else K(None))
        pe.bind(hn, atom("H") if hgiven else K(None))
        pe.attrs[vb] = K(Obj("vb")) if hasvb else K(None)
        try:
            pe.run(stmts)
            got = (pe.env.get(wn), pe.env.get(hn))
            detail = ""
        except Raised as e:
            got, detail = (None, None), "raises %s" % e.name
        want = (atom("W") if wgiven else (atom(vb + ".width") if hasvb else const(1000)), atom("H") if hgiven else (atom(vb + ".height") if hasvb else const(1000)))

        def same(g, w):
            return isinstance(g, RF) and g == w

        ok = same(got[0], want[0]) and same(got[1], want[1])
        ctx.ob("R11.7", cons, ok, detail or "render gets (%s, %s), wanted (%s, %s)" % (got[0], got[1], want[0], want[1]), call.lineno,
               "each dimension defaults on its own: a width the caller supplied must not be replaced because the height is missing (and vice versa)")


def incomplete_viewbox(ctx):
    """Viewbox.set_viewbox fills x, y, width, height one after the other and stops at the first missing number, so
    `viewBox="0 0 10"` leaves an object whose height is None.  SVG.parse asks `s.viewbox is not None` before it takes the
    viewBox's width/height as the size of the viewport and before it decides whether a nested svg is placed at its x/y.
    Either the element never holds an incomplete Viewbox (its property_by_values resets it to None under a completeness
    test), or every such read in SVG.parse is dominated by a test of the field it reads."""
    from ..flow import dominated
    from ..model import stmts_in

    sv = ctx.fn("Viewbox.set_viewbox", "R11.6")
    partial = any(isinstance(t, ast.Try) and sum(1 for st in t.body if isinstance(st, ast.Assign) and attr_chain(st.targets[0]) and attr_chain(st.targets[0])[0] == "self") >= 2
                  and any(h.type is None or "IndexError" in ast.unparse(h.type) for h in t.handlers) for t in ast.walk(sv))
    pv = ctx.fn("SVG.property_by_values", "R11.6")
    normalised = False
    from ..flow import guard_implies

    def not_none(field):
        def atom_test(test, positive):
            if isinstance(test, ast.Compare) and len(test.ops) == 1 and attr_chain(test.left) == ["self", "viewbox", field] and isinstance(test.comparators[0], ast.Constant) \
                    and test.comparators[0].value is None and isinstance(test.ops[0], (ast.Is, ast.IsNot)):
                return isinstance(test.ops[0], ast.IsNot) == positive
            return False
        return atom_test

    for st in stmts_in(pv.body):
        if isinstance(st, ast.If) and any(isinstance(a, ast.Assign) and attr_chain(a.targets[0]) == ["self", "viewbox"] and isinstance(a.value, ast.Constant) and a.value.value is None for a in st.body):
            # `self.viewbox is not None and <incomplete>`: the holder test is set aside; when <incomplete> is false both sizes exist
            parts = list(st.test.values) if isinstance(st.test, ast.BoolOp) and isinstance(st.test.op, ast.And) else [st.test]
            parts = [p_ for p_ in parts if not (isinstance(p_, ast.Compare) and attr_chain(p_.left) == ["self", "viewbox"])]
            if len(parts) == 1 and guard_implies(parts[0], False, not_none("width")) and guard_implies(parts[0], False, not_none("height")):
                normalised = True
    ctx.ob("R11.6", "Viewbox.set_viewbox[premise: may stop after some fields]", True,
           "set_viewbox may stop after some fields: %s; SVG.property_by_values drops an incomplete viewBox: %s" % (partial, normalised), sv.lineno,
           "premise: can an svg element hold a Viewbox whose width/height are None?", sample=False)
    parse = ctx.fn("SVG.parse", "R11.6")
    reads = sorted((n for n in ast.walk(parse) if isinstance(n, ast.Attribute) and n.attr in ("width", "height") and isinstance(n.value, ast.Attribute) and n.value.attr == "viewbox"
                    and isinstance(n.ctx, ast.Load)), key=lambda n: (n.lineno, n.col_offset))
    ctx.need(len(reads) >= 2, "R11.6", "SVG.parse: reads of <svg>.viewbox.width/height not found")
    bad = []
    if partial and not normalised:
        for n in reads:
            src = ast.unparse(n)

            def atom_test(test, positive, src=src):
                if isinstance(test, ast.Compare) and len(test.ops) == 1 and ast.unparse(test.left) == src and isinstance(test.comparators[0], ast.Constant) and test.comparators[0].value is None \
                        and isinstance(test.ops[0], (ast.Is, ast.IsNot)):
                    return isinstance(test.ops[0], ast.IsNot) == positive
                return False

            if not dominated(n, parse, atom_test):
                bad.append("%s line %d" % (src, n.lineno))
    ctx.ob("R11.6", "SVG.parse[viewBox size read only from a complete viewBox]", not bad, "; ".join(bad[:4]) or "%d reads" % len(reads), parse.lineno,
           "`viewBox=\"0 0 10\"` passes the `is not None` test: its missing height becomes the reference for every percentage below, and a nested svg is no longer placed at its x/y")


def parse_output(node):
    """'translate(%s, %s) scale(%s, %s)' % (Length.str(tx), ...) -> [(name, [vars])]"""
    if isinstance(node, ast.Constant) and node.value == "":
        return []
    if not (isinstance(node, ast.BinOp) and isinstance(node.op, ast.Mod) and isinstance(node.left, ast.Constant)):
        return None
    fmt = node.left.value
    args = node.right.elts if isinstance(node.right, ast.Tuple) else [node.right]
    names = []
    for a in args:
        if isinstance(a, ast.Call) and ast.unparse(a.func) == "Length.str" and isinstance(a.args[0], ast.Name):
            names.append(a.args[0].id)
        elif isinstance(a, ast.Name):
            names.append(a.id)
        else:
            return None
    out = []
    pos = 0
    for mt in re.finditer(r"([a-zA-Z]+)\(([^)]*)\)", fmt):
        n = mt.group(2).count("%s")
        if mt.group(2).replace("%s", "").replace(",", "").strip():
            return None
        out.append((mt.group(1), names[pos:pos + n]))
        pos += n
    rest = re.sub(r"([a-zA-Z]+)\(([^)]*)\)", "", fmt).strip()
    if rest or pos != len(names):
        return None
    return out
