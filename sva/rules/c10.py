"""C10 - document parsing never aborts on a bad element; siblings are unaffected."""
import ast

from ..excflow import ALL, Flow, caught, handler_types
from ..model import AnalysisError, attr_chain, call_name, if_chain, stmts_in

EXPLANATION = (
    "Static rules over SVG.parse and the value parsers it reaches (no execution). R10.1 exception escape: for every element"
    " construction site in SVG.parse (SVG, Group for g and defs, ClipPath, Use, Pattern, the eight shape kinds, the "
    "unknown-element fallback, Text, Desc, Title) and every render/reify/parse call on the new element, the set of "
    "exception types that can leave the callee closure is computed from confirmed source kinds (explicit raise; "
    "float()/int() of document text not proved to be in the converter's grammar, regex group languages decided as automata;"
    " constant subscripts of findall/split results; star-calls with data-dependent arity; the viewBox divisions; "
    "int()/round() of a float that may be infinite - float('1e999') is inf - unless clamped on both sides; arithmetic or "
    "min/max on a field of a locally built object whose constructor may leave it None, without a None test; stores to a "
    "property run its setter), propagated over resolved calls (constructor chains, Base.m(self), self.m by MRO in the "
    "site's class, unique method names), subtracted at try/except, and finally at the handlers that enclose the site in "
    "SVG.parse. Required in the default error mode: nothing escapes. R10.2 reference cycles: the recursive expansion of "
    "`use` references looks its target up through document ids; the recursive call must be control-dependent on a test that"
    " the id is not already being expanded. R10.3: every return of SVG.parse yields the root (something else only where no "
    "root exists yet), and the last `return <root>` is dominated by a None test: a document whose outermost element is "
    "skipped must still give a tree. R10.4: the unresolved-reference handler (missing id) is present. R10.6 (sibling cross-"
    "check of the render methods): the viewport size read with kwargs.get() is optional and may be an unresolved Length - "
    "every render hands it to Length.value(relative_length=...), which tolerates that; arithmetic on it needs a dominating "
    "isinstance(x, (int, float)) test or a handler for TypeError and ValueError. R10.7: members that only SVG defines "
    "(objects, get_element_by_url, ...) are used on the root only under isinstance(root, SVG) or except AttributeError - "
    "the first element becomes the root whatever it is. R10.8: render() may leave a length unresolved (Length.value returns"
    " the Length: C12 R12.2) and Length + number raises ValueError then; every reify statement that adds to such a field or"
    " maps points through the shape's matrix (whose e, f Matrix.render resolves the same way), and every such matrix "
    "application reachable from the other calls SVG.parse makes on a new element (render, is_degenerate and what they reach"
    " through self), must be dominated by a not-a-Length test or sit in a try that takes ValueError. Not decided: equality "
    "of sibling geometry with and without the faulty element (values); exceptions from interpreter internals."
    ' Two more source kinds: Point(<path>._segments[i].start|end) without a dominating None test (TypeError),'
    ' and calls on a local bound once to a constructor result are resolved to that class (tokens ='
    ' SVGLexicalParser(); tokens.parse(...)), with `isinstance(parameter, str)` decided false in the callee'
    ' when the call site passes such an instance.'
    ' R10.5 also balances the nesting counters of SVG.parse (locals incremented in the start branch of a tag'
    " and decremented at its end event: inside-a-use, inside-a-clipPath): every path through the tag's start"
    ' branch that stays in the loop - the skip paths too - increments exactly once.'
    ' R10.9: SVG.parse reifies every path outside its `except ValueError`; the nullable-point clause of C09'
    ' R09.8 therefore runs here as well.'
)
TECHNIQUE = (
    "static analysis (no execution): exception-escape analysis from every element construction site (may-raise sets propagated over the call graph, subtracted at handlers); recursion guard check; push/pop path counting; result-is-root"
)
ASSUMPTIONS = [
    "Exception sources are the confirmed kinds listed in sva/excflow.py; calls that cannot be resolved contribute nothing (their count is reported).",
    "The XML parser itself (iterparse) is outside the module: malformed XML is outside the property (well-formed documents).",
    "on_error='ignore' (default mode) is analysed; the explicit re-raise under on_error == 'raise' is not an escape in that mode.",
]
FLOORS = {"R10.1": 25, "R10.2": 1, "R10.3": 2, "R10.6": 8, "R10.7": 4, "R10.8": 7}

ELEMENTS = ["SVG", "Group", "ClipPath", "Use", "Pattern", "Path", "Circle", "Ellipse", "SimpleLine", "Polyline", "Polygon", "Rect", "Image", "SVGElement", "Text", "Desc", "Title"]


def run(ctx):
    ctx.rule("R10.1", "exception escape from element construction sites")
    ctx.rule("R10.2", "data-driven recursion guard (use cycles)")
    ctx.rule("R10.3", "every return of SVG.parse yields the root")
    ctx.rule("R10.4", "dangling references are skipped")
    ctx.rule("R10.5", "skipping a faulty element keeps the context stack balanced")
    ctx.rule("R10.8", "reify does not add to a length that render may have left unresolved")
    ctx.rule("R10.7", "members only an SVG root has are used only on an SVG root")
    ctx.rule("R10.6", "render methods treat the viewport size they are handed as optional and possibly unresolved")
    escape(ctx)
    recursion_guard(ctx)
    result_is_root(ctx)
    balanced(ctx)
    optional_viewport(ctx)
    root_members(ctx)
    reify_unresolved(ctx)
    # SVG.parse reifies every path it has built, outside its `except ValueError`: the segments' __imul__ run on whatever the
    # path parser retained, including segments without a start or control point
    ctx.rule("R10.9", "reifying a path that retains a segment with a missing point does not raise (obligations shared with C09 R09.8)")
    from . import c09

    c09.transform_tolerates_missing_points(ctx, "R10.9")


# --------------------------------------------------------------------------- R10.1
def escape(ctx):
    fn = ctx.fn("SVG.parse", "R10.1")
    flow = Flow(ctx.m)
    sites = []  # (node, kind, classes, handler type sets stack)

    def assigned_classes(st):
        out = set()
        for a in stmts_in([st]):
            if isinstance(a, ast.Assign) and isinstance(a.targets[0], ast.Name) and a.targets[0].id == "s" and isinstance(a.value, ast.Call) \
                    and isinstance(a.value.func, ast.Name) and a.value.func.id in ctx.m.classes:
                out.add(a.value.func.id)
        return out

    def visit(stmts, handlers, classes_of_s):
        """classes_of_s: classes the local `s` may hold here; statements are visited in order and an assignment
        (anywhere inside a statement) re-binds it for the following siblings."""
        cur = set(classes_of_s)
        for s in stmts:
            if isinstance(s, ast.Try):
                types = set()
                for h in s.handlers:
                    types |= handler_types(h)
                visit(s.body, handlers + [types], cur)
                for h in s.handlers:
                    visit(h.body, handlers, cur)
                visit(s.orelse, handlers, cur)
                visit(s.finalbody, handlers, cur)
            elif isinstance(s, ast.If):
                for test, body in if_chain(s):
                    if test is not None:
                        scan_expr(test, handlers, cur)
                    visit(body, handlers, cur)
            elif isinstance(s, (ast.For, ast.While)):
                scan_expr(s.iter if isinstance(s, ast.For) else s.test, handlers, cur)
                visit(s.body, handlers, cur)
            else:
                for child in ast.iter_child_nodes(s):
                    if isinstance(child, ast.expr):
                        scan_expr(child, handlers, cur)
            new = assigned_classes(s)
            if new:
                cur = new

    def scan_expr(e, handlers, classes_of_s):
        for n in ast.walk(e):
            if isinstance(n, ast.Call):
                f = n.func
                if isinstance(f, ast.Name) and f.id in ELEMENTS:
                    sites.append((n, "construct", {f.id}, list(handlers)))
                elif isinstance(f, ast.Attribute) and isinstance(f.value, ast.Name) and f.value.id == "s" and f.attr in ("render", "parse"):
                    sites.append((n, f.attr, set(classes_of_s), list(handlers)))
            elif isinstance(n, ast.Attribute) and isinstance(n.value, ast.Name) and n.value.id == "s" and n.attr == "viewbox_transform":
                sites.append((n, "getter:viewbox_transform", {"SVG"}, list(handlers)))

    loops = [s for s in fn.body if isinstance(s, ast.For)]
    ctx.need(len(loops) == 1, "R10.1", "SVG.parse: event loop not found")
    visit(loops[0].body, [], set())
    seen_classes = set()
    for node, kind, classes, handlers in sites:
        for k in sorted(classes):
            if kind == "construct":
                may = flow.call_may_raise(node, "SVG", via="site")
                seen_classes.add(k)
            elif kind.startswith("getter:"):
                g = kind.split(":")[1]
                gfn = ctx.m.func("%s.%s:getter" % (k, g))
                may = flow.may_raise("%s.%s:getter" % (k, g), gfn, k)
            else:
                try:
                    mfn = ctx.m.func("%s.%s" % (k, kind))
                except AnalysisError:
                    continue
                may = flow.may_raise("%s.%s" % (ctx.m.owner("%s.%s" % (k, kind)), kind), mfn, k)
            escaped = {}
            for e, w in may.items():
                if e.startswith("<stored"):
                    continue
                if not any(caught(e, t) for t in handlers):
                    escaped[e] = w
            cons = "SVG.parse[%s %s]" % (k, kind)
            if not escaped:
                ctx.ob("R10.1", cons, True, "may raise %s; enclosing handlers %s" % (sorted(may), [sorted(t) for t in handlers]), node.lineno)
            for e in sorted(escaped):
                w = escaped[e]
                ctx.ob("R10.1", cons + ":" + e, False, "source: %s; enclosing handlers in SVG.parse: %s" % (w, [sorted(t) for t in handlers] or "none"), node.lineno,
                       "%s can leave SVG.parse from this site in the default error mode: a malformed attribute aborts the whole document" % e)
    missing = set(ELEMENTS) - seen_classes - {"SVGElement"} if "SVGElement" in seen_classes else set(ELEMENTS) - seen_classes
    ctx.need(not missing, "R10.1", "construction sites not found for %s" % sorted(missing))
    ctx.note("calls resolved %d, unresolved %d" % (flow.resolved, flow.unresolved))


def first_witness(flow, exc):
    for (q, e), w in flow.witness.items():
        if e == exc and "line" in w:
            return w
    for (q, e), w in flow.witness.items():
        if e == exc:
            return w
    return "?"


# --------------------------------------------------------------------------- R10.2
def recursion_guard(ctx):
    fn = ctx.fn("SVG._use_structure_parse", "R10.2")
    inner = [s for s in fn.body if isinstance(s, ast.FunctionDef)]
    ctx.need(len(inner) == 1, "R10.2", "_use_structure_parse: recursive helper not found")
    h = inner[0]
    rec = [c for c in ast.walk(h) if isinstance(c, ast.Call) and isinstance(c.func, ast.Name) and c.func.id == h.name]
    # the id map: a dictionary of the enclosing function that the helper reads as a free variable
    idmaps = {t.id for x in fn.body if isinstance(x, ast.Assign) for t in x.targets if isinstance(t, ast.Name)
              and (isinstance(x.value, ast.Dict) or (isinstance(x.value, ast.Call) and call_name(x.value) == "dict"))}

    def reads_map(node):
        return any(isinstance(n, ast.Subscript) and isinstance(n.value, ast.Name) and n.value.id in idmaps for n in ast.walk(node)) \
            or any(isinstance(n, ast.Call) and isinstance(n.func, ast.Attribute) and n.func.attr == "get" and isinstance(n.func.value, ast.Name) and n.func.value.id in idmaps for n in ast.walk(node))

    data_driven = [c for c in rec if reads_map(c)]
    ctx.need(len(data_driven) >= 1, "R10.2", "recursive call through the id map not found")
    for c in data_driven:
        guarded = False
        p = getattr(c, "_parent", None)
        while p is not None and p is not h:
            if isinstance(p, ast.If):
                has_guard = any(isinstance(k, ast.Compare) and isinstance(k.ops[0], (ast.NotIn, ast.Lt, ast.LtE, ast.Gt, ast.GtE)) for k in ast.walk(p.test))
                if has_guard and any(c is x for s in p.body for x in ast.walk(s)):
                    guarded = True
            p = getattr(p, "_parent", None)
        # the guard must be fed: the call passes a grown collection / depth
        grows = len(c.args) >= 2 or bool(c.keywords)
        ctx.ob("R10.2", "SVG._use_structure_parse.%s[reference expansion]" % h.name, guarded and grows,
               "recursive call %s; membership/depth guard: %s; guard state passed on: %s" % (ast.unparse(c)[:60], guarded, grows), c.lineno,
               "a use element referencing itself, an ancestor or a mutual cycle recurses without bound (RecursionError)")
    # dangling reference: KeyError on the id map is handled
    ok = any(isinstance(t, ast.Try) and any("KeyError" in handler_types(x) or ALL in handler_types(x) for x in t.handlers) and any(reads_map(b) for b in t.body) for t in ast.walk(h)) \
        or any(isinstance(s, ast.If) and any(isinstance(c, ast.Compare) and isinstance(c.ops[0], ast.In) and isinstance(c.comparators[0], ast.Name) and c.comparators[0].id in idmaps for c in ast.walk(s.test))
               for s in ast.walk(h))
    ctx.ob("R10.4", "SVG._use_structure_parse[missing id]", ok, "", h.lineno, "a dangling use reference must be skipped, not raise KeyError")


# --------------------------------------------------------------------------- R10.3
def root_name(ctx, fn):
    """the local that SVG.parse returns at its end"""
    import collections

    names = collections.Counter(r.value.id for r in ast.walk(fn) if isinstance(r, ast.Return) and isinstance(r.value, ast.Name))
    # the element under construction may be returned early (a disabled document returns itself): the root is the other one,
    # the local that is assigned from the element under an `if <root> is None`
    cands = [nm for nm, _ in names.most_common() if any(
        isinstance(i, ast.If) and isinstance(i.test, ast.Compare) and isinstance(i.test.left, ast.Name) and i.test.left.id == nm and isinstance(i.test.ops[0], ast.Is)
        and any(isinstance(a, ast.Assign) and isinstance(a.targets[0], ast.Name) and a.targets[0].id == nm for a in i.body) for i in ast.walk(fn))]
    ctx.need(bool(cands), "R10.3", "SVG.parse: the local holding the root (returned, and assigned under `if <root> is None`) not found")
    return cands[0]


def result_is_root(ctx):
    fn = ctx.fn("SVG.parse", "R10.3")
    root_var = root_name(ctx, fn)
    n = 0
    for r in ast.walk(fn):
        if not isinstance(r, ast.Return):
            continue
        n += 1
        v = ast.unparse(r.value) if r.value is not None else "None"
        ok = v == root_var
        if not ok:
            # allowed: returning something else when no root exists yet (the element is the document / nothing was kept)
            from ..flow import dominated as _dom

            def no_root(test, positive):
                if isinstance(test, ast.Compare) and len(test.ops) == 1 and isinstance(test.left, ast.Name) and test.left.id in (root_var, "context") \
                        and isinstance(test.comparators[0], ast.Constant) and test.comparators[0].value is None and isinstance(test.ops[0], (ast.Is, ast.IsNot)):
                    return isinstance(test.ops[0], ast.Is) == positive
                return False

            ok = _dom(r, fn, no_root)
        ctx.ob("R10.3", "SVG.parse[return line-order %d]" % n, ok, "returns %s" % v, r.lineno,
               "returning a nested element instead of the root discards every sibling parsed so far and everything after it")
    ctx.need(n >= 2, "R10.3", "SVG.parse: returns not found")
    # the root is established by the first element that is kept; a document whose outermost element is skipped (display:none,
    # attributes in error, zero size, a bare <style>) reaches the end without one.  The final return must not hand back None.
    from ..flow import dominated

    ctx.need(isinstance(fn.body[-1], ast.Return) or (isinstance(fn.body[-1], ast.If) and fn.body[-1].orelse), "R10.3", "SVG.parse: does not end in a return")
    last = sorted((r for r in ast.walk(fn) if isinstance(r, ast.Return) and isinstance(r.value, ast.Name) and r.value.id == root_var), key=lambda r: r.lineno)[-1]

    def not_none(test, positive):
        if isinstance(test, ast.Compare) and len(test.ops) == 1 and isinstance(test.left, ast.Name) and test.left.id == root_var \
                and isinstance(test.comparators[0], ast.Constant) and test.comparators[0].value is None:
            return isinstance(test.ops[0], ast.IsNot) == positive and isinstance(test.ops[0], (ast.Is, ast.IsNot))
        if isinstance(test, ast.Name) and test.id == root_var:
            return positive
        if isinstance(test, ast.Call) and call_name(test) == "isinstance" and test.args and isinstance(test.args[0], ast.Name) and test.args[0].id == root_var:
            return positive
        return False

    inits = [st for st in fn.body if isinstance(st, ast.Assign) and any(isinstance(t, ast.Name) and t.id == root_var for t in st.targets)]
    may_start_none = not inits or any(isinstance(st.value, ast.Constant) and st.value.value is None or isinstance(st.value, ast.Name) for st in inits)
    ok = (not may_start_none) or dominated(last.value, fn, not_none)
    ctx.ob("R10.3", "SVG.parse[final return yields a tree]", ok, "`return %s` %s" % (root_var, "after a None test" if ok else "with no None test before it"), last.lineno,
           "a document whose outermost element is skipped or not rendered leaves no root: the parse hands back None instead of a (possibly empty) document")


# --------------------------------------------------------------------------- R10.5
def balanced(ctx):
    """An element that is skipped because of an error leaves through `continue`: on every such path the start event must
    already have pushed exactly once and the end event must still pop exactly once, otherwise every later sibling lands
    in the wrong parent with the wrong inherited values (shared path-counting rule with C03.3)."""
    from .c03 import exits

    fn = ctx.fn("SVG.parse", "R10.5")
    loop = [s for s in fn.body if isinstance(s, ast.For)][0]
    branches = {}
    for s in loop.body:
        if isinstance(s, ast.If):
            for test, body in if_chain(s):
                if test is not None:
                    branches[ast.unparse(test)] = body
    start, end = branches.get("event == 'start'"), branches.get("event == 'end'")
    ctx.need(start is not None and end is not None, "R10.5", "start/end branches not found")
    is_push = lambda s: isinstance(s, ast.Expr) and ast.unparse(s.value).startswith("stack.append(")
    is_pop = lambda s: isinstance(s, ast.Assign) and "stack.pop()" in ast.unparse(s.value)
    p = exits(start, is_push)
    bad = [(k, c) for k, c in p if k in ("fall", "continue") and c != 1]
    ctx.ob("R10.5", "SVG.parse[start: one push on every path, also the skip paths]", not bad, "paths (exit, pushes): %s" % p, start[0].lineno,
           "an element skipped before it was pushed (or pushed twice) unbalances the stack")
    q = exits(end, is_pop)
    bad = [(k, c) for k, c in q if k in ("fall", "continue") and c != 1]
    ctx.ob("R10.5", "SVG.parse[end: one pop on every path, also the skip paths]", not bad, "paths (exit, pops): %s" % q, end[0].lineno,
           "an end event that leaves without popping makes every later sibling a child of the faulty element's parent chain")


    # nesting counters (inside a use expansion / inside a clipPath): incremented in the start branch of a tag, decremented at its
    # end event.  The end event of a skipped element still runs, so every path through the tag's start branch that stays in
    # the loop - the skip paths too - must have incremented exactly once.
    def augs(stmts, op):
        out = {}
        for st in stmts:
            for n in ast.walk(st):
                if isinstance(n, ast.AugAssign) and isinstance(n.op, op) and isinstance(n.target, ast.Name) and isinstance(n.value, ast.Constant) and n.value.value == 1:
                    out.setdefault(n.target.id, []).append(n)
        return out

    incs, decs = augs(start, ast.Add), augs(end, ast.Sub)
    counters = sorted(set(incs) & set(decs))
    ctx.need(counters, "R10.5", "nesting counters of SVG.parse not found")
    for cname_ in counters:
        inc = incs[cname_][0]
        # the innermost branch body of the start chain that holds the increment
        holder = None
        for node in ast.walk(ast.Module(body=start, type_ignores=[])):
            if isinstance(node, ast.If):
                for test, body in if_chain(node):
                    if test is not None and any(isinstance(x, ast.Name) and x.id == "tag" for x in ast.walk(test)) and any(inc is m_ for b in body for m_ in ast.walk(b)):
                        if holder is None or len(ast.unparse(ast.Module(body=body, type_ignores=[]))) < len(ast.unparse(ast.Module(body=holder, type_ignores=[]))):
                            holder = body
        ctx.need(holder is not None, "R10.5", "start branch of counter %s not found" % cname_)
        is_inc = lambda s_, nm=cname_: isinstance(s_, ast.AugAssign) and isinstance(s_.target, ast.Name) and s_.target.id == nm and isinstance(s_.op, ast.Add)
        paths = exits(holder, is_inc)
        bad = [(k, c) for k, c in paths if k in ("fall", "continue") and c != 1]
        ctx.ob("R10.5", "SVG.parse[counter %s: one increment on every path of its start branch, also the skip paths]" % cname_, not bad, "paths (exit, increments): %s" % paths, inc.lineno,
               "the end event of a skipped element still decrements: the counter goes negative and every later `%s == 0` test fails - ids of later siblings are no longer registered" % cname_)


# --------------------------------------------------------------------------- R10.6
def optional_viewport(ctx):
    """SVG.parse hands every element's render() the size of the enclosing viewport as it has it: a number, None (an svg whose
    viewBox is incomplete leaves its height unset) or a Length that could not be resolved (`2em` without a font size).  The
    render methods agree on the idiom: the value read with kwargs.get(...) goes to Length.value(relative_length=...), which
    keeps the length symbolic when the reference is missing.  Doing arithmetic on it directly is the deviant case: None gives
    TypeError, two lengths of different unresolved units give ValueError, and neither is caught around s.render() in SVG.parse.
    Accepted: the use is dominated by an isinstance(<value>, (int, float)) test, or sits in a try whose handlers take both
    TypeError and ValueError."""
    from ..flow import dominated
    from ..model import parent

    def numeric(name):
        def atom_test(test, positive):
            if positive and isinstance(test, ast.Call) and call_name(test) == "isinstance" and len(test.args) == 2 and isinstance(test.args[0], ast.Name) and test.args[0].id == name:
                t = test.args[1]
                names = [e.id for e in (t.elts if isinstance(t, ast.Tuple) else [t]) if isinstance(e, ast.Name)]
                return bool(names) and set(names) <= {"int", "float"}
            return False
        return atom_test

    both = lambda types: ALL in types or {"TypeError", "ValueError"} <= types

    n_methods = n_uses = 0
    for cname, ci in sorted(ctx.m.classes.items()):
        fn = ci.methods.get("render")
        if fn is None or fn.args.kwarg is None:
            continue
        kw = fn.args.kwarg.arg
        dims = {}
        for st in stmts_in(fn.body):
            if isinstance(st, ast.Assign) and len(st.targets) == 1 and isinstance(st.targets[0], ast.Name) and isinstance(st.value, ast.Call) \
                    and attr_chain(st.value.func) == [kw, "get"] and st.value.args and isinstance(st.value.args[0], ast.Constant) \
                    and st.value.args[0].value in ("width", "height", "relative_length"):
                dims[st.targets[0].id] = st.lineno
        if not dims:
            continue
        n_methods += 1
        bad = []
        for node in ast.walk(fn):
            if not (isinstance(node, ast.Name) and isinstance(node.ctx, ast.Load) and node.id in dims):
                continue
            p = parent(node)
            arithmetic = isinstance(p, (ast.BinOp, ast.UnaryOp)) and not (isinstance(p, ast.UnaryOp) and isinstance(p.op, ast.Not)) \
                or (isinstance(p, ast.Compare) and any(isinstance(o, (ast.Lt, ast.LtE, ast.Gt, ast.GtE)) for o in p.ops)) \
                or (isinstance(p, ast.Call) and call_name(p) in ("sqrt", "abs", "float", "int", "min", "max", "pow", "hypot")) \
                or (isinstance(p, ast.Attribute)) or (isinstance(p, ast.AugAssign) and p.value is node)
            if not arithmetic:
                continue
            n_uses += 1
            if not dominated(node, fn, numeric(node.id), both):
                bad.append("`%s` in `%s` line %d" % (node.id, ast.unparse(p)[:50], node.lineno))
        ctx.ob("R10.6", "%s.render[viewport size optional]" % cname, not bad, "; ".join(sorted(set(bad))[:3]) or "handed on to Length.value / used as a number only under a numeric test",
               fn.lineno, "SVG.parse passes the enclosing viewport's size as it has it (None after an incomplete viewBox, an unresolved Length after `em` sizes); "
               "arithmetic on it raises TypeError/ValueError, which nothing around s.render() catches: the parse aborts")
    ctx.need(n_methods >= 8, "R10.6", "render methods reading the viewport size from their keyword arguments: %d found" % n_methods)


# --------------------------------------------------------------------------- R10.7
def root_members(ctx):
    """The first element becomes the root whatever it is (a fragment whose outermost element is a g parses to a Group).  The id
    table and the url lookup exist only on SVG; using them on the root needs `isinstance(root, SVG)` to dominate the use, or an
    `except AttributeError` around it."""
    from ..flow import dominated

    fn = ctx.fn("SVG.parse", "R10.7")
    root = root_name(ctx, fn)
    svg = ctx.m.cls("SVG", "R10.7")
    inherited = set()
    for base in ctx.m.mro("SVG")[1:]:
        ci = ctx.m.classes.get(base)
        if ci is None:
            continue
        inherited |= set(ci.methods) | set(ci.getters)
        for f in ci.methods.values():
            for n in ast.walk(f):
                if isinstance(n, ast.Attribute) and isinstance(n.ctx, ast.Store) and isinstance(n.value, ast.Name) and n.value.id == "self":
                    inherited.add(n.attr)
    own = set(svg.methods) | set(svg.getters)
    for f in svg.methods.values():
        for n in ast.walk(f):
            if isinstance(n, ast.Attribute) and isinstance(n.ctx, ast.Store) and isinstance(n.value, ast.Name) and n.value.id == "self":
                own.add(n.attr)
    svg_only = own - inherited

    def is_svg(test, positive):
        return positive and isinstance(test, ast.Call) and call_name(test) == "isinstance" and len(test.args) == 2 and isinstance(test.args[0], ast.Name) and test.args[0].id == root \
            and isinstance(test.args[1], ast.Name) and test.args[1].id == "SVG"

    n = 0
    uses = sorted((x for x in ast.walk(fn) if isinstance(x, ast.Attribute) and isinstance(x.value, ast.Name) and x.value.id == root and x.attr in svg_only),
                  key=lambda x: (x.lineno, x.col_offset))
    for node in uses:
        if True:
            n += 1
            ok = dominated(node, fn, is_svg, lambda types: ALL in types or "AttributeError" in types)
            ctx.ob("R10.7", "SVG.parse[%s.%s #%d]" % (root, node.attr, n), ok, "line %d" % node.lineno, node.lineno,
                   "the root is whatever element came first; `%s` exists only on SVG, so on a document whose outermost element is not svg this raises AttributeError" % node.attr)
    ctx.need(n >= 4, "R10.7", "uses of SVG-only members of the root in SVG.parse: %d found" % n)


# --------------------------------------------------------------------------- R10.8
def reify_unresolved(ctx):
    """render() resolves a Length field with `.value(...)`, which hands the Length back unchanged when its context is missing
    (`1em` without a font size, a percentage without a viewport: property C12).  Length + number raises ValueError for such
    a unit (Length.__iadd__).  SVG.parse calls s.reify() right after s.render() with no handler around it, so a reify that
    adds to such a field - directly, or by sending points through a matrix whose translation (Matrix.render: e, f) or whose
    operand coordinates may still be lengths - aborts the parse of a document that merely uses em units.
    Accepted: the statement is dominated by a test that the value is not a Length, or sits in a try that takes ValueError
    (compute first, commit afterwards)."""
    from ..flow import dominated
    from ..excflow import Flow

    m = ctx.m
    flow = Flow(m)
    iadd = ctx.fn("Length.__iadd__", "R10.8")
    ctx.need("ValueError" in flow.may_raise("Length.__iadd__", iadd, "Length"), "R10.8", "Length.__iadd__ no longer raises ValueError for unresolved units (premise of the rule)")

    def resolved_by_render(cname):
        out = set()
        for c in m.mro(cname):
            ci = m.classes.get(c)
            r = ci.methods.get("render") if ci else None
            if r is None:
                continue
            from ..flow import Taint
            resolved = Taint(r, lambda n_: isinstance(n_, ast.Call) and isinstance(n_.func, ast.Attribute) and n_.func.attr == "value", through_containers=False)
            for st in stmts_in(r.body):
                if isinstance(st, ast.Assign) and len(st.targets) == 1:
                    ch = attr_chain(st.targets[0])
                    if ch and len(ch) == 2 and ch[0] == "self" and resolved.derived(st.value):
                        out.add(ch[1])
        return out

    matrix_fields = resolved_by_render("Matrix")
    ctx.need({"e", "f"} <= matrix_fields, "R10.8", "Matrix.render no longer resolves e and f with Length.value (premise of the rule)")
    # the call site: s.reify() in SVG.parse outside any handler that takes ValueError
    parse = ctx.fn("SVG.parse", "R10.8")
    calls = [c for c in ast.walk(parse) if isinstance(c, ast.Call) and isinstance(c.func, ast.Attribute) and c.func.attr == "reify" and not c.args]
    ctx.need(bool(calls), "R10.8", "SVG.parse: reify call not found")
    unprotected = [c for c in calls if not dominated(c, parse, lambda t, p: False, lambda types: ALL in types or "ValueError" in types)]

    def mentions_length_test(test, positive, what):
        """`not isinstance(<what...>, Length)` / `not any(isinstance(v, Length) for v in (<what>, ...))` established"""
        if positive:
            return False
        for c in ast.walk(test):
            if isinstance(c, ast.Call) and call_name(c) == "isinstance" and len(c.args) == 2 and any(isinstance(x, ast.Name) and x.id == "Length" for x in ast.walk(c.args[1])):
                src = ast.unparse(test)
                if any(w in src for w in what):
                    return True
        return False

    n = 0
    for cname, ci in sorted(m.classes.items()):
        fn = ci.methods.get("reify")
        if fn is None or not any("render" in m.classes[c].methods for c in m.mro(cname) if c in m.classes):
            continue
        fields = resolved_by_render(cname)
        alias = {"self.transform"}
        for st in stmts_in(fn.body):
            if isinstance(st, ast.Assign) and len(st.targets) == 1 and isinstance(st.targets[0], ast.Name) and ast.unparse(st.value) == "self.transform":
                alias.add(st.targets[0].id)
        sites = {}
        for st in stmts_in(fn.body):
            # (i) self.F += x / self.F = self.F + x
            if isinstance(st, ast.AugAssign) and isinstance(st.op, (ast.Add, ast.Sub)):
                ch = attr_chain(st.target)
                if ch and len(ch) == 2 and ch[0] == "self" and ch[1] in fields:
                    sites.setdefault(ch[1], []).append((st, ["self.%s" % ch[1]]))
            if isinstance(st, ast.Assign):
                for b in ast.walk(st.value):
                    if isinstance(b, ast.BinOp) and isinstance(b.op, (ast.Add, ast.Sub)):
                        for side in (b.left, b.right):
                            for x in ast.walk(side):
                                ch = attr_chain(x)
                                if ch and len(ch) == 2 and ch[0] == "self" and ch[1] in fields:
                                    sites.setdefault(ch[1], []).append((st, ["self.%s" % ch[1]]))
            # (ii) <point or segment> *= <the shape's matrix>
            mults = []
            if isinstance(st, ast.AugAssign) and isinstance(st.op, ast.Mult) and ast.unparse(st.value) in alias and ast.unparse(st.target) not in alias:
                mults.append(st)
            if isinstance(st, (ast.Assign, ast.Expr, ast.Return)) and st.value is not None:
                for b in ast.walk(st.value):
                    if isinstance(b, ast.BinOp) and isinstance(b.op, ast.Mult) and ast.unparse(b.right) in alias and ast.unparse(b.left) not in alias:
                        mults.append(st)
            for x in mults:
                sites.setdefault("points through the matrix", []).append((x, sorted(alias) + ["self.%s" % f for f in fields]))
        for key, lst in sorted(sites.items()):
            n += 1
            bad = [st for st, what in lst if not dominated(st, fn, lambda t, p, what=what: mentions_length_test(t, p, what), lambda types: ALL in types or "ValueError" in types)]
            ok = not bad or not unprotected
            ctx.ob("R10.8", "%s.reify[%s]" % (cname, key), ok, "; ".join("line %d: %s" % (st.lineno, ast.unparse(st)[:50]) for st in bad[:3]), fn.lineno,
                   "render leaves a length it cannot resolve (em/ex, % without a viewport) as a Length; adding to it raises ValueError, which nothing between "
                   "reify and SVG.parse catches: a document using such units under a translation aborts when reify=True (the default)")
    ctx.need(n >= 7, "R10.8", "reify statements that add to render-resolved lengths or map points through the matrix: %d found" % n)
    # everything else SVG.parse calls on the new element (render, is_degenerate, ...) and what those reach through self:
    # mapping a point through the element's matrix there has the same premise
    elem_calls = sorted({c.func.attr for c in ast.walk(parse) if isinstance(c, ast.Call) and isinstance(c.func, ast.Attribute) and isinstance(c.func.value, ast.Name) and c.func.value.id == "s"
                         and c.func.attr not in ("reify", "append", "parse")})
    ctx.need("is_degenerate" in elem_calls and "render" in elem_calls, "R10.8", "SVG.parse: calls on the new element not found (%s)" % elem_calls)
    seen = {}
    for cname in ELEMENTS:
        if cname not in m.classes:
            continue
        work = [mn for mn in elem_calls]
        visited = set()
        while work:
            mn = work.pop()
            if mn in visited:
                continue
            visited.add(mn)
            f = None
            owner = None
            for c in m.mro(cname):
                ci = m.classes.get(c)
                if ci and (mn in ci.methods or mn in ci.getters):
                    f = ci.methods.get(mn) or ci.getters.get(mn)
                    owner = c
                    break
            if f is None:
                continue
            seen.setdefault("%s.%s" % (owner, mn), f)
            for x in ast.walk(f):
                if isinstance(x, ast.Attribute) and isinstance(x.value, ast.Name) and x.value.id == "self" and x.attr not in visited:
                    work.append(x.attr)
    k = 0
    for qual, f in sorted(seen.items()):
        alias = {"self.transform"}
        for st in stmts_in(f.body):
            if isinstance(st, ast.Assign) and len(st.targets) == 1 and isinstance(st.targets[0], ast.Name) and ast.unparse(st.value) == "self.transform":
                alias.add(st.targets[0].id)
        sites = []
        for st in stmts_in(f.body):
            if isinstance(st, ast.AugAssign) and isinstance(st.op, ast.Mult) and ast.unparse(st.value) in alias and ast.unparse(st.target) not in alias:
                sites.append(st)
            elif isinstance(st, (ast.Assign, ast.Expr, ast.Return)) and st.value is not None and any(
                    isinstance(b, ast.BinOp) and isinstance(b.op, ast.Mult) and ast.unparse(b.right) in alias and ast.unparse(b.left) not in alias for b in ast.walk(st.value)):
                sites.append(st)
        k += 1
        bad = [st for st in sites if not dominated(st, f, lambda t, p, what=sorted(alias): mentions_length_test(t, p, what), lambda types: ALL in types or "ValueError" in types)]
        ctx.ob("R10.8", "%s[reached from SVG.parse: no point through the matrix]" % qual, not bad, "; ".join("line %d: %s" % (st.lineno, ast.unparse(st)[:50]) for st in bad[:3]), f.lineno,
               "a point sent through the element's matrix adds the translation, which may be an unresolved length (translate(1em,0)): ValueError out of SVG.parse", sample=False)
    ctx.need(k >= 10, "R10.8", "functions reached from the calls SVG.parse makes on a new element: %d" % k)
