"""C10 - document parsing never aborts on a bad element; siblings are unaffected."""
import ast

from ..excflow import ALL, Flow, caught, handler_types
from ..model import AnalysisError, attr_chain, call_name, if_chain, stmts_in

EXPLANATION = (
    "Static rules over SVG.parse and the value parsers it reaches (no execution). R10.1 exception escape: for every element "
    "construction site in SVG.parse (SVG, Group for g and defs, ClipPath, Use, Pattern, the eight shape kinds, the unknown-"
    "element fallback, Text, Desc, Title) and every render/reify/parse call on the new element, the set of exception types "
    "that can leave the callee closure is computed from confirmed source kinds (explicit raise; float()/int() of document "
    "text not proved to be in the converter's grammar, regex group languages decided as automata; constant subscripts of "
    "findall/split results; star-calls with data-dependent arity; the viewBox divisions), propagated over resolved calls "
    "(constructor chains, Base.m(self), self.m by MRO in the site's class, unique method names), subtracted at try/except, "
    "and finally at the handlers that enclose the site in SVG.parse. Required in the default error mode: nothing escapes. "
    "R10.2 reference cycles: the recursive expansion of `use` references looks its target up through document ids; the "
    "recursive call must be control-dependent on a test that the id is not already being expanded. R10.3: every return of "
    "SVG.parse yields the root (a nested element may be returned only under a guard that no root exists yet). R10.4: the "
    "unresolved-reference handler (missing id) is present. Not decided: equality of sibling geometry with and without the "
    "faulty element (values); exceptions from interpreter internals."
)
TECHNIQUE = (
    "static analysis (no execution): exception-escape analysis from every element construction site (may-raise sets propagated over the call graph, subtracted at handlers); recursion guard check; push/pop path counting; result-is-root"
)
ASSUMPTIONS = [
    "Exception sources are the confirmed kinds listed in sva/excflow.py; calls that cannot be resolved contribute nothing (their count is reported).",
    "The XML parser itself (iterparse) is outside the module: malformed XML is outside the property (well-formed documents).",
    "on_error='ignore' (default mode) is analysed; the explicit re-raise under on_error == 'raise' is not an escape in that mode.",
]
FLOORS = {"R10.1": 25, "R10.2": 1, "R10.3": 2}

ELEMENTS = ["SVG", "Group", "ClipPath", "Use", "Pattern", "Path", "Circle", "Ellipse", "SimpleLine", "Polyline", "Polygon", "Rect", "Image", "SVGElement", "Text", "Desc", "Title"]


def run(ctx):
    ctx.rule("R10.1", "exception escape from element construction sites")
    ctx.rule("R10.2", "data-driven recursion guard (use cycles)")
    ctx.rule("R10.3", "every return of SVG.parse yields the root")
    ctx.rule("R10.4", "dangling references are skipped")
    ctx.rule("R10.5", "skipping a faulty element keeps the context stack balanced")
    escape(ctx)
    recursion_guard(ctx)
    result_is_root(ctx)
    balanced(ctx)


# --------------------------------------------------------------------------- R10.1
def escape(ctx):
    fn = ctx.fn("SVG.parse", "R10.1")
    flow = Flow(ctx.m)
    sites = []  # (node, kind, classes, handler type sets stack)

    def assigned_classes(st):
        out = set()
        for a in stmts_in([st]):
            if isinstance(a, ast.Assign) and isinstance(a.targets[0], ast.Name) and a.targets[0].id == "s" and isinstance(a.value, ast.Call) \
                    and isinstance(a.value.func, ast.Name) and a.value.func.id in ctx.m.classes:
                out.add(a.value.func.id)
        return out

    def visit(stmts, handlers, classes_of_s):
        """classes_of_s: classes the local `s` may hold here; statements are visited in order and an assignment
        (anywhere inside a statement) re-binds it for the following siblings."""
        cur = set(classes_of_s)
        for s in stmts:
            if isinstance(s, ast.Try):
                types = set()
                for h in s.handlers:
                    types |= handler_types(h)
                visit(s.body, handlers + [types], cur)
                for h in s.handlers:
                    visit(h.body, handlers, cur)
                visit(s.orelse, handlers, cur)
                visit(s.finalbody, handlers, cur)
            elif isinstance(s, ast.If):
                for test, body in if_chain(s):
                    if test is not None:
                        scan_expr(test, handlers, cur)
                    visit(body, handlers, cur)
            elif isinstance(s, (ast.For, ast.While)):
                scan_expr(s.iter if isinstance(s, ast.For) else s.test, handlers, cur)
                visit(s.body, handlers, cur)
            else:
                for child in ast.iter_child_nodes(s):
                    if isinstance(child, ast.expr):
                        scan_expr(child, handlers, cur)
            new = assigned_classes(s)
            if new:
                cur = new

    def scan_expr(e, handlers, classes_of_s):
        for n in ast.walk(e):
            if isinstance(n, ast.Call):
                f = n.func
                if isinstance(f, ast.Name) and f.id in ELEMENTS:
                    sites.append((n, "construct", {f.id}, list(handlers)))
                elif isinstance(f, ast.Attribute) and isinstance(f.value, ast.Name) and f.value.id == "s" and f.attr in ("render", "parse"):
                    sites.append((n, f.attr, set(classes_of_s), list(handlers)))
            elif isinstance(n, ast.Attribute) and isinstance(n.value, ast.Name) and n.value.id == "s" and n.attr == "viewbox_transform":
                sites.append((n, "getter:viewbox_transform", {"SVG"}, list(handlers)))

    loops = [s for s in fn.body if isinstance(s, ast.For)]
    ctx.need(len(loops) == 1, "R10.1", "SVG.parse: event loop not found")
    visit(loops[0].body, [], set())
    seen_classes = set()
    for node, kind, classes, handlers in sites:
        for k in sorted(classes):
            if kind == "construct":
                may = flow.call_may_raise(node, "SVG", via="site")
                seen_classes.add(k)
            elif kind.startswith("getter:"):
                g = kind.split(":")[1]
                gfn = ctx.m.func("%s.%s:getter" % (k, g))
                may = flow.may_raise("%s.%s:getter" % (k, g), gfn, k)
            else:
                try:
                    mfn = ctx.m.func("%s.%s" % (k, kind))
                except AnalysisError:
                    continue
                may = flow.may_raise("%s.%s" % (ctx.m.owner("%s.%s" % (k, kind)), kind), mfn, k)
            escaped = {}
            for e, w in may.items():
                if e.startswith("<stored"):
                    continue
                if not any(caught(e, t) for t in handlers):
                    escaped[e] = w
            cons = "SVG.parse[%s %s]" % (k, kind)
            if not escaped:
                ctx.ob("R10.1", cons, True, "may raise %s; enclosing handlers %s" % (sorted(may), [sorted(t) for t in handlers]), node.lineno)
            for e in sorted(escaped):
                w = escaped[e]
                ctx.ob("R10.1", cons + ":" + e, False, "source: %s; enclosing handlers in SVG.parse: %s" % (w, [sorted(t) for t in handlers] or "none"), node.lineno,
                       "%s can leave SVG.parse from this site in the default error mode: a malformed attribute aborts the whole document" % e)
    missing = set(ELEMENTS) - seen_classes - {"SVGElement"} if "SVGElement" in seen_classes else set(ELEMENTS) - seen_classes
    ctx.need(not missing, "R10.1", "construction sites not found for %s" % sorted(missing))
    ctx.note("calls resolved %d, unresolved %d" % (flow.resolved, flow.unresolved))


def first_witness(flow, exc):
    for (q, e), w in flow.witness.items():
        if e == exc and "line" in w:
            return w
    for (q, e), w in flow.witness.items():
        if e == exc:
            return w
    return "?"


# --------------------------------------------------------------------------- R10.2
def recursion_guard(ctx):
    fn = ctx.fn("SVG._use_structure_parse", "R10.2")
    inner = [s for s in fn.body if isinstance(s, ast.FunctionDef)]
    ctx.need(len(inner) == 1, "R10.2", "_use_structure_parse: recursive helper not found")
    h = inner[0]
    rec = [c for c in ast.walk(h) if isinstance(c, ast.Call) and isinstance(c.func, ast.Name) and c.func.id == h.name]
    # the id map: a dictionary of the enclosing function that the helper reads as a free variable
    idmaps = {t.id for x in fn.body if isinstance(x, ast.Assign) for t in x.targets if isinstance(t, ast.Name)
              and (isinstance(x.value, ast.Dict) or (isinstance(x.value, ast.Call) and call_name(x.value) == "dict"))}

    def reads_map(node):
        return any(isinstance(n, ast.Subscript) and isinstance(n.value, ast.Name) and n.value.id in idmaps for n in ast.walk(node)) \
            or any(isinstance(n, ast.Call) and isinstance(n.func, ast.Attribute) and n.func.attr == "get" and isinstance(n.func.value, ast.Name) and n.func.value.id in idmaps for n in ast.walk(node))

    data_driven = [c for c in rec if reads_map(c)]
    ctx.need(len(data_driven) >= 1, "R10.2", "recursive call through the id map not found")
    for c in data_driven:
        guarded = False
        p = getattr(c, "_parent", None)
        while p is not None and p is not h:
            if isinstance(p, ast.If):
                has_guard = any(isinstance(k, ast.Compare) and isinstance(k.ops[0], (ast.NotIn, ast.Lt, ast.LtE, ast.Gt, ast.GtE)) for k in ast.walk(p.test))
                if has_guard and any(c is x for s in p.body for x in ast.walk(s)):
                    guarded = True
            p = getattr(p, "_parent", None)
        # the guard must be fed: the call passes a grown collection / depth
        grows = len(c.args) >= 2 or bool(c.keywords)
        ctx.ob("R10.2", "SVG._use_structure_parse.%s[reference expansion]" % h.name, guarded and grows,
               "recursive call %s; membership/depth guard: %s; guard state passed on: %s" % (ast.unparse(c)[:60], guarded, grows), c.lineno,
               "a use element referencing itself, an ancestor or a mutual cycle recurses without bound (RecursionError)")
    # dangling reference: KeyError on the id map is handled
    ok = any(isinstance(t, ast.Try) and any("KeyError" in handler_types(x) or ALL in handler_types(x) for x in t.handlers) and any(reads_map(b) for b in t.body) for t in ast.walk(h)) \
        or any(isinstance(s, ast.If) and any(isinstance(c, ast.Compare) and isinstance(c.ops[0], ast.In) and isinstance(c.comparators[0], ast.Name) and c.comparators[0].id in idmaps for c in ast.walk(s.test))
               for s in ast.walk(h))
    ctx.ob("R10.4", "SVG._use_structure_parse[missing id]", ok, "", h.lineno, "a dangling use reference must be skipped, not raise KeyError")


# --------------------------------------------------------------------------- R10.3
def result_is_root(ctx):
    fn = ctx.fn("SVG.parse", "R10.3")
    root_var = "root"
    n = 0
    for r in ast.walk(fn):
        if not isinstance(r, ast.Return):
            continue
        n += 1
        v = ast.unparse(r.value) if r.value is not None else "None"
        ok = v == root_var
        if not ok:
            # allowed: returning the element itself when no root exists yet (it is the document)
            p = getattr(r, "_parent", None)
            while p is not None and p is not fn:
                if isinstance(p, ast.If) and ast.unparse(p.test).replace(" ", "") in ("%sisNone" % root_var, "contextisNone") and any(r is x for s in p.body for x in ast.walk(s)):
                    ok = True
                p = getattr(p, "_parent", None)
        ctx.ob("R10.3", "SVG.parse[return line-order %d]" % n, ok, "returns %s" % v, r.lineno,
               "returning a nested element instead of the root discards every sibling parsed so far and everything after it")
    ctx.need(n >= 2, "R10.3", "SVG.parse: returns not found")


# --------------------------------------------------------------------------- R10.5
def balanced(ctx):
    """An element that is skipped because of an error leaves through `continue`: on every such path the start event must
    already have pushed exactly once and the end event must still pop exactly once, otherwise every later sibling lands
    in the wrong parent with the wrong inherited values (shared path-counting rule with C03.3)."""
    from .c03 import exits

    fn = ctx.fn("SVG.parse", "R10.5")
    loop = [s for s in fn.body if isinstance(s, ast.For)][0]
    branches = {}
    for s in loop.body:
        if isinstance(s, ast.If):
            for test, body in if_chain(s):
                if test is not None:
                    branches[ast.unparse(test)] = body
    start, end = branches.get("event == 'start'"), branches.get("event == 'end'")
    ctx.need(start is not None and end is not None, "R10.5", "start/end branches not found")
    is_push = lambda s: isinstance(s, ast.Expr) and ast.unparse(s.value).startswith("stack.append(")
    is_pop = lambda s: isinstance(s, ast.Assign) and "stack.pop()" in ast.unparse(s.value)
    p = exits(start, is_push)
    bad = [(k, c) for k, c in p if k in ("fall", "continue") and c != 1]
    ctx.ob("R10.5", "SVG.parse[start: one push on every path, also the skip paths]", not bad, "paths (exit, pushes): %s" % p, start[0].lineno,
           "an element skipped before it was pushed (or pushed twice) unbalances the stack")
    q = exits(end, is_pop)
    bad = [(k, c) for k, c in q if k in ("fall", "continue") and c != 1]
    ctx.ob("R10.5", "SVG.parse[end: one pop on every path, also the skip paths]", not bad, "paths (exit, pops): %s" % q, end[0].lineno,
           "an end event that leaves without popping makes every later sibling a child of the faulty element's parent chain")
