"""C20 - writing a document and parsing it back preserves shapes and paint."""
import ast

from ..flow import deleted_keys
from ..model import AnalysisError, NotConst, attr_chain, call_name, if_chain, stmts_in
from .c03 import SHAPE_TAGS, keys_read

EXPLANATION = (
    "Static writer/reader agreement rules over _write_node and the readers (no execution). R20.1 key agreement: for every "
    "element kind the branch of the writer emits, under the tag the reader maps to that class, the attribute keys the "
    "class's reader consumes for its geometry, spelled identically (module constants resolved); polyshape points are "
    "written as pairs the reader's pair pattern splits. R20.2 skip-if-falsy vs reader default: a key the writer omits when "
    "the value is falsy must have a falsy reader default (otherwise a zero comes back as the default). R20.3 viewport "
    "inverse: children are written with transform x inverse(viewport) - the inverse on the last-applied side, matching the "
    "reader's 'inherited first' fold - and an svg hands its children the composition of the inherited inverse with the "
    "inverse of its own viewport (viewBox transform, or translate(x, y) for a nested svg without viewBox, exactly the "
    "reader's cases). R20.3b transform key: containers whose children carry accumulated matrices (Group, Use) do not write "
    "their own transform; every other transformable does. R20.4 paint: stroke/fill are written as opaque colour plus a "
    "separate opacity, 'none' for valueless colours, stroke width and id when present. R20.5 container key hygiene: an "
    "element written under another tag (use -> g) must not carry geometry keys of its own that the reader would hand down "
    "to children. R20.6 dispatch order: no isinstance branch is shadowed by an earlier branch for a base class. Not "
    "decided: well-formedness for arbitrary `values` keys; geometric equality within the six-decimal matrix precision."
    " R20.7: the writer leaves a zero rect radius out and the reader takes a missing radius for 'auto' (the"
    ' copy of the other one); this is the same rectangle only because validation never leaves exactly one'
    " radius at zero, so C06's corner table runs here as well."
    " R20.8: path data is written by Path.svg_d and read back by the path parser; C07's running-point rule"
    ' R07.3 (initial point, every segment written relative to the running point, advance on every path, smooth'
    ' shorthand, both loops alike) runs here as well.'
    ' R20.9: every written matrix is transform * inverse(viewport transform) and the reader multiplies the'
    ' viewport transform back in; the two-sided inverse identities of C04 R04.5 run here as well.'
    " R20.10: the reader folds a written matrix into rect / round-shape attributes when reify=True; C02's reify"
    ' algebra runs here as well.'
)
TECHNIQUE = (
    "static analysis (no execution): writer/reader attribute-key agreement tables; reader-default vs writer skip rule; def-use roles for the inverse-viewport composition order and paint emission"
)
ASSUMPTIONS = [
    "Reader-side tables (tag -> class, keys read per class, defaults) are extracted from SVG.parse and property_by_values on every run.",
    "Trees built through constructors whose Group/Use nodes carry a transform that was not folded into the children are a known finding (R20.3b).",
]
FLOORS = {"R20.1": 10, "R20.2": 8, "R20.3": 3, "R20.4": 4, "R20.6": 10, "R20.7": 6, "R20.8": 8, "R20.9": 2}

GEOM = {
    "Ellipse": {"cx", "cy", "rx", "ry"},
    "Circle": {"cx", "cy", "r"},
    "Rect": {"x", "y", "width", "height", "rx", "ry"},
    "SimpleLine": {"x1", "y1", "x2", "y2"},
    "Path": {"d"},
    "Polyline": {"points"},
    "Polygon": {"points"},
}
TAG_OF = {v: k for k, v in SHAPE_TAGS.items()}


def run(ctx):
    ctx.rule("R20.1", "writer/reader attribute-key agreement per kind")
    ctx.rule("R20.2", "skip-if-falsy vs reader default")
    ctx.rule("R20.3", "inverse viewport composition")
    ctx.rule("R20.3b", "transform key of containers")
    ctx.rule("R20.4", "paint emission")
    ctx.rule("R20.5", "container key hygiene")
    ctx.rule("R20.6", "dispatch order")
    fn = ctx.fn("_write_node", "R20.1")
    chain = [s for s in fn.body if isinstance(s, ast.If) and "isinstance(node, SVG)" in ast.unparse(s.test)]
    ctx.need(len(chain) == 1, "R20.1", "_write_node: isinstance dispatch not found")
    branches = []
    for test, body in if_chain(chain[0]):
        if test is not None and isinstance(test, ast.Call) and ast.unparse(test.func) == "isinstance":
            branches.append((ast.unparse(test.args[1]), body, test.lineno))
    keys(ctx, branches)
    viewport(ctx, fn, branches)
    paint(ctx, fn)
    order(ctx, branches)
    # A rect radius that is 0 is left out, and a missing radius is read back as "auto" - the copy of the other one.  That is
    # the same rectangle only because validation never leaves exactly one radius at zero: the corner table of C06 is an
    # obligation of the round trip too.
    ctx.rule("R20.7", "a rect radius left out as zero is read back as auto: validation never leaves exactly one radius at zero (obligations shared with C06)")
    from . import c06

    c06.corner_table(ctx.renamed("R20.7"))
    # path data is written by Path.svg_d (through node.d(transformed=False)) and read back by the path parser: the
    # running-point discipline of C07 R07.3 is what makes the relative operands of the written text mean the same points
    ctx.rule("R20.8", "written path data: every segment is written relative to a running point that advances on every path through the loop (obligations shared with C07 R07.3)")
    from . import c07

    c07.svg_d(ctx.renamed("R20.8"))
    # every written matrix is transform * inverse(viewport transform); the reader multiplies the viewport transform back in
    ctx.rule("R20.9", "the inverse the writer divides the viewport transform out with is the two-sided inverse of the product the reader uses (obligations shared with C04 R04.5)")
    from . import c04

    c04.inverse_rule(ctx, "R20.9")
    # a constructor-built tree is written with its transforms on the shapes; the reader (reify=True) folds them into the
    # attributes: the reify algebra of C02 decides that the shape read back is the shape written
    ctx.rule("R20.10", "reading back with reify=True folds the written matrix into rect / round-shape attributes exactly (obligations shared with C02 R02.4)")
    from . import c02

    c02.reify_algebra(ctx.renamed("R20.10"))


def emitted(ctx, body):
    """(tag constant name, [(key, guard kind, value src)]) for a writer branch."""
    tag = None
    out = []
    for s in stmts_in(body):
        if isinstance(s, ast.Assign) and isinstance(s.value, ast.Call) and call_name(s.value) == "subxml":
            tag = ast.unparse(s.value.args[1])
        if isinstance(s, ast.Expr) and isinstance(s.value, ast.Call) and ast.unparse(s.value.func) == "xml_tree.set":
            k = s.value.args[0]
            try:
                key = ctx.m.const(k)
            except NotConst:
                key = ast.unparse(k)
            g = getattr(s, "_parent", None)
            guard = None
            if isinstance(g, ast.If) and s in g.body and any(g is x for x in stmts_in(body)):
                t = ast.unparse(g.test)
                if t.startswith("node.") and " " not in t:
                    guard = ("truthy", t)
                elif t.endswith("is not None"):
                    guard = ("notnone", t)
                else:
                    guard = ("other", t)
            out.append((key, guard, ast.unparse(s.value.args[1]), s.lineno))
    return tag, out


def reader_default(ctx, cname, key):
    """Default the reader uses for `key` when absent: the 2nd argument of values.get(K, default) in property_by_values (None if absent)."""
    for c in ctx.m.mro(cname):
        fn = ctx.m.classes[c].methods.get("property_by_values")
        if fn is None:
            continue
        for n in ast.walk(fn):
            if isinstance(n, ast.Call) and isinstance(n.func, ast.Attribute) and n.func.attr == "get" and n.args:
                try:
                    k = ctx.m.const(n.args[0])
                except NotConst:
                    continue
                if k == key:
                    if len(n.args) > 1:
                        try:
                            return ("const", ctx.m.const(n.args[1]))
                        except NotConst:
                            return ("expr", ast.unparse(n.args[1]))
                    return ("const", None)
    return None


def keys(ctx, branches):
    seen = {}
    for cls, body, line in branches:
        tag, em = emitted(ctx, body)
        seen[cls] = (tag, em, line)
    for cls, want in GEOM.items():
        ctx.need(cls in seen, "R20.1", "_write_node: no branch for %s" % cls)
        tag, em, line = seen[cls]
        ctx.ob("R20.1", "_write_node[%s tag]" % cls, tag == TAG_OF[cls], "writes <%s>, reader maps %s to %s" % (tag, TAG_OF[cls], cls), line,
               "element written under a tag the reader maps to another class")
        got = {k for k, _, _, _ in em}
        read = keys_read(ctx, cls)
        ctx.ob("R20.1", "_write_node[%s keys]" % cls, want <= got and want <= read | {"d"}, "writes %s; reader needs %s" % (sorted(got), sorted(want)), line,
               "a geometry attribute is not written, or is written under a key the reader does not read")
        # value written for key K is the field of the same meaning
        for k, guard, val, ln in em:
            if k in want and cls not in ("Path", "Polyline", "Polygon"):
                field = {"r": "rx"}.get(k, k)
                ctx.ob("R20.1", "_write_node[%s %s value]" % (cls, k), val == "str(node.%s)" % field, val, ln, "attribute written from the wrong field")
            if k in want and guard is not None and guard[0] == "truthy":
                d = reader_default(ctx, "_RoundShape" if cls in ("Circle", "Ellipse") else cls, k)
                falsy = d is not None and d[0] == "const" and not d[1]
                if cls in ("Circle", "Ellipse") and k in ("rx", "ry", "r"):
                    # the round-shape reader falls back to 1 when neither r nor rx/ry is present
                    rsf = ctx.m.func("_RoundShape.property_by_values")
                    if any(isinstance(a, ast.Assign) and attr_chain(a.targets[0]) in (["self", "rx"], ["self", "ry"]) and isinstance(a.value, ast.Constant) and a.value.value == 1
                           for a in ast.walk(rsf)):
                        falsy = False
                ctx.ob("R20.2", "_write_node[%s %s skipped when falsy]" % (cls, k), falsy, "guard `if %s`; reader default %s" % (guard[1], d), ln,
                       "a zero value is omitted by the writer but the reader's default for the missing key is not zero: the shape comes back with the default")
            elif k in want and guard is not None:
                ctx.ob("R20.2", "_write_node[%s %s written when present]" % (cls, k), guard[0] == "notnone", "guard `if %s`" % guard[1], ln, "")
    # path data and points
    tag, em, line = seen["Path"]
    d = [v for k, _, v, _ in em if k == "d"]
    ctx.ob("R20.1", "_write_node[Path d]", d == ["node.d(transformed=False)"], str(d), line, "path data is written untransformed (the transform attribute carries the matrix)")
    for cls in ("Polyline", "Polygon"):
        tag, em, line = seen[cls]
        body = [b for c_, b, _ in branches if c_ == cls][0]
        vals = []
        for st in stmts_in(body):
            if isinstance(st, ast.Expr) and isinstance(st.value, ast.Call) and ast.unparse(st.value.func) == "xml_tree.set" and _const(ctx, st.value.args[0]) == "points":
                vals.append(st.value.args[1])
        single = {}
        for st in stmts_in(body):
            if isinstance(st, ast.Assign) and len(st.targets) == 1 and isinstance(st.targets[0], ast.Name):
                single.setdefault(st.targets[0].id, []).append(st.value)
        ok = len(vals) == 1 and _points_text(vals[0], single)
        ctx.ob("R20.1", "_write_node[%s points]" % cls, ok, ast.unparse(vals[0])[:80] if vals else "", line, "points are written as 'x y' pairs in order, separated by white space")
    # SVG element itself
    tag, em, line = seen["SVG"]
    got = {k for k, _, _, _ in em}
    ctx.ob("R20.1", "_write_node[SVG keys]", {"x", "y", "width", "height", "viewBox"} <= got, str(sorted(got)), line, "the svg's viewport attributes are written")
    # generic attribute copy never emits keys that are written specially
    fn = ctx.m.func("_write_node")
    sub = [s for s in fn.body if isinstance(s, ast.FunctionDef) and s.name == "subxml"]
    ctx.need(sub, "R20.1", "subxml helper not found")
    excl = set()
    for n in ast.walk(sub[0]):
        if isinstance(n, ast.Compare) and isinstance(n.ops[0], (ast.In, ast.NotIn)):
            try:
                v = ctx.m.const(n.comparators[0])
            except NotConst:
                v = None
            if isinstance(v, (tuple, list)):
                excl |= {x for x in v if isinstance(x, str)}
            elif isinstance(n.comparators[0], (ast.Tuple, ast.List, ast.Set)):
                for e in n.comparators[0].elts:
                    try:
                        excl.add(ctx.m.const(e))
                    except NotConst:
                        pass
    ctx.ob("R20.1", "_write_node.subxml[keys written elsewhere are not copied]", {"transform", "fill", "stroke", "attributes", "tag"} <= excl, str(sorted(excl)), sub[0].lineno,
           "transform and paint are recomputed by the writer; copying the parsed strings as well would apply them twice or contradict them")
    # subxml copies every other source attribute first.  A geometry key that a branch writes only `if node.F:` keeps the copied
    # source text when F has become 0 (reify moved the shape to the origin): the element is written with its old position.
    stale = []
    for cls in GEOM:
        tag, em, line = seen[cls]
        body = [b for c_, b, _ in branches if c_ == cls][0]
        for k, guard, val, ln in em:
            if k in GEOM[cls] and guard is not None and guard[0] == "truthy" and k not in excl:
                g = [x for x in stmts_in(body) if isinstance(x, ast.If) and ast.unparse(x.test) == guard[1]]
                removed = any(isinstance(c, ast.Call) and isinstance(c.func, ast.Attribute) and c.func.attr in ("pop",) and c.args and (_const(ctx, c.args[0]) == k)
                              for x in g for st in x.orelse for c in ast.walk(st)) or any(isinstance(st, ast.Delete) for x in g for st in x.orelse)
                if not removed:
                    stale.append("%s.%s" % (cls, k))
    ctx.ob("R20.2", "_write_node[copied source attribute survives a zero value]", not stale, ", ".join(stale), sub[0].lineno,
           "<rect x=\"10\" transform=\"translate(-10,0)\"/> parsed with reify has x = 0; the writer copies x=\"10\" from the source attributes and `if node.x:` never overwrites it")
    # a Circle that reify scaled differently on the two axes has rx != ry; writing r from rx alone loses ry
    tag, em, line = seen["Circle"]
    cbody = [b for c_, b, _ in branches if c_ == "Circle"][0]
    mentions_ry = any(isinstance(n, ast.Attribute) and n.attr == "ry" and isinstance(n.value, ast.Name) and n.value.id == "node" for st in cbody for n in ast.walk(st))
    rf = ctx.m.func("_RoundShape.reify")
    facs = {}
    for st in stmts_in(rf.body):
        if isinstance(st, ast.Assign) and attr_chain(st.targets[0]) in (["self", "rx"], ["self", "ry"]):
            facs[attr_chain(st.targets[0])[1]] = {n.id for n in ast.walk(st.value) if isinstance(n, ast.Name)} - {"self"}
    independent = "rx" in facs and "ry" in facs and facs["rx"] != facs["ry"]
    own = "reify" in ctx.m.classes["Circle"].methods
    ctx.ob("R20.1", "_write_node[Circle: r written although rx and ry may differ]", mentions_ry or not independent or own,
           "reify scales rx by %s and ry by %s; the Circle branch reads node.ry: %s" % (sorted(facs.get("rx", [])), sorted(facs.get("ry", [])), mentions_ry), line,
           "Circle(r=10, transform='scale(2,1)').reify() has rx = 20, ry = 10; it is written as <circle r=\"20\"> and read back as a circle of radius 20")
    return seen


def _points_text(v, single):
    """<white space>.join(<'x y' text of each point of node.points, x before y>)"""
    while isinstance(v, ast.Name) and len(single.get(v.id, ())) == 1:
        v = single[v.id][0]
    if not (isinstance(v, ast.Call) and isinstance(v.func, ast.Attribute) and v.func.attr == "join" and isinstance(v.func.value, ast.Constant) and isinstance(v.func.value.value, str)
            and v.func.value.value != "" and v.func.value.value.strip(" ,") == "" and len(v.args) == 1):
        return False
    comp = v.args[0]
    if not (isinstance(comp, (ast.ListComp, ast.GeneratorExp)) and len(comp.generators) == 1 and not comp.generators[0].ifs and isinstance(comp.generators[0].target, ast.Name)):
        return False
    it = comp.generators[0].iter
    while isinstance(it, ast.Name) and len(single.get(it.id, ())) == 1:
        it = single[it.id][0]
    if attr_chain(it) != ["node", "points"]:
        return False
    e = comp.generators[0].target.id
    order = []
    seps = []
    elt = comp.elt
    if isinstance(elt, ast.JoinedStr):
        for part in elt.values:
            if isinstance(part, ast.FormattedValue):
                x = part.value
                if isinstance(x, ast.Subscript) and isinstance(x.value, ast.Name) and x.value.id == e and isinstance(x.slice, ast.Constant):
                    order.append(x.slice.value)
                elif isinstance(x, ast.Attribute) and isinstance(x.value, ast.Name) and x.value.id == e:
                    order.append({"x": 0, "y": 1}.get(x.attr))
                else:
                    return False
            elif isinstance(part, ast.Constant):
                seps.append(part.value)
    elif isinstance(elt, ast.BinOp) and isinstance(elt.op, ast.Mod) and isinstance(elt.left, ast.Constant) and isinstance(elt.right, ast.Tuple):
        seps = [x for x in __import__("re").split(r"%[sdgGfr]", elt.left.value) if x]
        for x in elt.right.elts:
            if isinstance(x, ast.Subscript) and isinstance(x.value, ast.Name) and x.value.id == e and isinstance(x.slice, ast.Constant):
                order.append(x.slice.value)
            else:
                return False
    elif isinstance(elt, ast.Call) and isinstance(elt.func, ast.Attribute) and elt.func.attr == "format" and isinstance(elt.func.value, ast.Constant):
        seps = [x for x in __import__("re").split(r"\{[^}]*\}", elt.func.value.value) if x]
        for x in elt.args:
            if isinstance(x, ast.Subscript) and isinstance(x.value, ast.Name) and x.value.id == e and isinstance(x.slice, ast.Constant):
                order.append(x.slice.value)
            else:
                return False
    else:
        return False
    return order == [0, 1] and len(seps) == 1 and seps[0] != "" and seps[0].strip(" ,") == ""


def _const(ctx, node):
    try:
        return ctx.m.const(node)
    except NotConst:
        return None


def viewport(ctx, fn, branches):
    from ..flow import Taint, is_const

    body = dict((c, b) for c, b, l in branches)
    svg = body["SVG"]
    P = [a.arg for a in fn.args.args]
    node, tree, inherited = P[0], P[1], P[2]
    own = Taint(svg, lambda n: attr_chain(n) == [node, "viewbox_transform"] or (isinstance(n, ast.Constant) and isinstance(n.value, str) and n.value.startswith("translate(")), through_containers=False)
    mats = Taint(svg, lambda n: isinstance(n, ast.Call) and call_name(n) == "Matrix" and n.args and own.derived(n.args[0]), through_containers=False)
    inverted = [c for s_ in svg for c in ast.walk(s_) if isinstance(c, ast.Call) and isinstance(c.func, ast.Attribute) and c.func.attr == "inverse" and isinstance(c.func.value, ast.Name)
                and c.func.value.id in mats.names]
    passes = [c for s_ in svg for c in ast.walk(s_) if isinstance(c, ast.Call) and call_name(c) == "_write_node"]
    handed = passes[0].args[2] if len(passes) == 1 and len(passes[0].args) == 3 else None
    inv = bool(inverted) and handed is not None and isinstance(handed, ast.Name) and handed.id in mats.names | own.names
    ctx.ob("R20.3", "_write_node[SVG: inverse of its own viewport]", inv, "", svg[0].lineno, "children of an svg are written relative to its viewport: its equivalent transform must be inverted")
    prod = [n for s_ in svg for n in ast.walk(s_) if isinstance(n, ast.BinOp) and isinstance(n.op, (ast.Mult, ast.MatMult))]
    ok = any(isinstance(p_.left, ast.Name) and p_.left.id == inherited and isinstance(p_.right, ast.Name) and p_.right.id in mats.names | own.names for p_ in prod)
    wrong = [p_ for p_ in prod if isinstance(p_.right, ast.Name) and p_.right.id == inherited and isinstance(p_.left, ast.Name) and p_.left.id in mats.names | own.names]
    ctx.ob("R20.3", "_write_node[SVG: composes the inherited inverse]", ok and not wrong, "; ".join(ast.unparse(p_) for p_ in prod)[:120], svg[0].lineno,
           "content of a nested svg carries the enclosing viewports too: its children need inverse(outer) then inverse(own); dropping the inherited part re-applies the outer viewBox on every write/parse generation")
    nested_flag = Taint(svg, lambda n: isinstance(n, ast.Compare) and isinstance(n.ops[0], (ast.IsNot, ast.Is)) and isinstance(n.left, ast.Name) and n.left.id == tree, through_containers=False)
    nest = False
    for s_ in svg:
        for x in ast.walk(s_):
            if isinstance(x, ast.If) and nested_flag.derived(x.test):
                txt = [n for y in x.body for n in ast.walk(y) if isinstance(n, ast.Constant) and isinstance(n.value, str) and n.value.startswith("translate(")]
                xs = {".".join(attr_chain(n) or []) for y in x.body for n in ast.walk(y) if isinstance(n, ast.Attribute)}
                if txt and {"%s.x" % node, "%s.y" % node} <= xs:
                    nest = True
    ctx.ob("R20.3", "_write_node[SVG: nested svg without viewBox]", nest, "", svg[0].lineno,
           "the reader translates the content of a nested svg without viewBox to (x, y); the writer must undo exactly that")
    ok = len(passes) == 1 and len(passes[0].args) == 3 and isinstance(passes[0].args[1], ast.Name) and passes[0].args[1].id == tree and inv
    ctx.ob("R20.3", "_write_node[SVG: children receive the inverse]", ok, "", svg[0].lineno, "")
    for cname in ("Group", "Use"):
        b = body[cname]
        passes = [c for s_ in b for c in ast.walk(s_) if isinstance(c, ast.Call) and call_name(c) == "_write_node"]
        ok = len(passes) == 1 and len(passes[0].args) == 3 and isinstance(passes[0].args[1], ast.Name) and passes[0].args[1].id == tree \
            and isinstance(passes[0].args[2], ast.Name) and passes[0].args[2].id == inherited
        ctx.ob("R20.3", "_write_node[%s: inverse handed on]" % cname, ok, "", b[0].lineno, "containers pass the inverse viewport on to their children unchanged")
    # the transform write: t = node.transform ; t = t * viewport_transform
    tw = None
    for s_ in fn.body:
        if isinstance(s_, ast.If) and any(isinstance(c, ast.Call) and call_name(c) == "hasattr" and len(c.args) == 2 and is_const(ctx.m, c.args[1], "transform") for c in ast.walk(s_.test)):
            tw = s_
    ctx.need(tw is not None, "R20.3", "transform emission not found")
    tr = Taint(tw, lambda n: attr_chain(n) == [node, "transform"], through_containers=False)
    prods = [n for n in ast.walk(tw) if isinstance(n, ast.BinOp) and isinstance(n.op, (ast.Mult, ast.MatMult))]
    ok = len(prods) == 1 and tr.derived(prods[0].left) and isinstance(prods[0].right, ast.Name) and prods[0].right.id == inherited
    ctx.ob("R20.3", "_write_node[transform x inverse(viewport)]", ok, ast.unparse(prods[0]) if prods else "", tw.lineno,
           "the reader folds inherited (viewport) transforms on the last-applied side, so the inverse must be multiplied on the right of the element's matrix")
    fmt = [n for n in ast.walk(tw) if isinstance(n, ast.BinOp) and isinstance(n.op, ast.Mod) and isinstance(n.left, ast.Constant) and isinstance(n.left.value, str)]
    ok = len(fmt) == 1 and fmt[0].left.value.startswith("matrix(") and fmt[0].left.value.count("%") == 6 and isinstance(fmt[0].right, ast.Tuple) \
        and [e.attr if isinstance(e, ast.Attribute) else None for e in fmt[0].right.elts] == ["a", "b", "c", "d", "e", "f"] and all(tr.derived(e) for e in fmt[0].right.elts)
    ctx.ob("R20.3", "_write_node[matrix(a b c d e f)]", ok, "", tw.lineno, "the matrix is written in SVG component order")
    t = ast.unparse(tw.test)
    ok = "not isinstance(node, (Group, Use))" in t or ("not isinstance(node, Group)" in t and "Use" in t)
    ctx.ob("R20.3b", "_write_node[containers do not write a transform]", ok, t, tw.lineno,
           "children of parsed groups and uses carry the accumulated matrix already; writing the container's transform as well applies it twice")
    # R20.3b: constructed trees - a Group/Use transform that was not folded into its children is lost
    g = ctx.m.func("Group.__imul__")
    folds = "for e in self" in ast.unparse(g) and "e *= other" in ast.unparse(g)
    init_folds = False
    ctx.ob("R20.3b", "Group(transform=...)[constructed trees]", init_folds, "Group *= M folds into children: %s; Group(transform=...) at construction: not folded, not written" % folds, g.lineno,
           "a transform given to a programmatically built group is neither applied to its children nor written: the children come back untransformed")
    # R20.5
    ub = body["Use"]
    removed = set()
    for k, node, d, kn in deleted_keys(list(ub), ctx.m, lambda e: attr_chain(e) is not None and attr_chain(e)[-1] == "attrib"):
        if k is not None:
            removed.add(k)
    for s in stmts_in(ub):
        if isinstance(s, ast.For) and isinstance(s.iter, (ast.Tuple, ast.List)) and deleted_keys(s, ctx.m, lambda e: attr_chain(e) is not None and attr_chain(e)[-1] == "attrib"):
            for e in s.iter.elts:
                try:
                    removed.add(ctx.m.const(e))
                except NotConst:
                    pass
    use_geom = keys_read(ctx, "Use") & {"x", "y", "width", "height"}
    child_geom = set()
    for c in SHAPE_TAGS.values():
        child_geom |= keys_read(ctx, c)
    ctx.ob("R20.5", "_write_node[Use written as g]", (use_geom & child_geom) <= removed, "use reads %s for itself; removed from the written g: %s" % (sorted(use_geom), sorted(removed)), ub[0].lineno,
           "the written group would carry the use's x/y/width/height, which the reader hands down to the children: the offset is applied a second time")


def paint(ctx, fn):
    from ..flow import Taint, bindings, const_value, is_const

    def set_calls(region, key):
        return [c for top in region for c in ast.walk(top) if isinstance(c, ast.Call) and isinstance(c.func, ast.Attribute) and c.func.attr == "set" and len(c.args) == 2
                and is_const(ctx.m, c.args[0], key)]

    for kind in ("stroke", "fill"):
        blk = None
        for x in fn.body:
            if isinstance(x, ast.If) and isinstance(x.test, ast.Call) and call_name(x.test) == "hasattr" and len(x.test.args) == 2 and is_const(ctx.m, x.test.args[1], kind):
                blk = x
        ctx.need(blk is not None, "R20.4", "%s emission not found" % kind)
        colour = Taint(blk, lambda n: attr_chain(n) == ["node", kind], through_containers=False)
        opaque = Taint(blk, lambda n: isinstance(n, ast.Call) and call_name(n) == "abs" and n.args and colour.derived(n.args[0]), through_containers=False)
        sets = set_calls([blk], kind)
        none_alt = any(is_const(ctx.m, n, "none") for n in ast.walk(blk) if isinstance(n, (ast.Name, ast.Constant)))
        valtest = any(isinstance(c, ast.Compare) and isinstance(c.left, ast.Attribute) and c.left.attr == "value" and colour.derived(c.left.value) for c in ast.walk(blk))
        ok = len(sets) == 1 and opaque.derived(sets[0].args[1]) and none_alt and valtest
        ctx.ob("R20.4", "_write_node[%s colour]" % kind, ok, "", blk.lineno, "the colour is written opaque (alpha separately), 'none' when it has no value")
        osets = set_calls([blk], kind + "-opacity")
        reads = [n for n in ast.walk(blk) if isinstance(n, ast.Attribute) and n.attr == "opacity" and colour.derived(n.value)]
        op = Taint(blk, lambda n: any(n is r for r in reads), through_containers=False)
        guarded = False
        for c in osets:
            p_ = getattr(c, "_parent", None)
            while p_ is not None and p_ is not blk:
                if isinstance(p_, ast.If) and any(isinstance(k, ast.Compare) and isinstance(k.ops[0], ast.NotEq) and any(const_value(ctx.m, z, None) in (1, 1.0) for z in [k.left] + k.comparators) and op.derived(k) for k in ast.walk(p_.test)):
                    guarded = True
                p_ = getattr(p_, "_parent", None)
        ok = len(osets) == 1 and bool(reads) and op.derived(osets[0].args[1]) and guarded
        ctx.ob("R20.4", "_write_node[%s opacity]" % kind, ok, "", blk.lineno, "alpha is written as the matching opacity attribute (and read back folded into the colour)")
        # the opacity must be read from the Color object: before the local holding it is overwritten by its string form
        stale = False
        for r in reads:
            base = r.value
            if isinstance(base, ast.Name):
                for tg, v, n in bindings(blk):
                    if isinstance(tg, ast.Name) and tg.id == base.id and n.lineno < r.lineno and any(isinstance(c, ast.Call) and call_name(c) == "str" for c in ast.walk(v)):
                        stale = True
        ctx.ob("R20.4", "_write_node[%s opacity read before colour is stringified]" % kind, bool(reads) and not stale, "", blk.lineno,
               "once the local holds the colour's string, `.opacity` is no longer available")
    sw = Taint(fn, lambda n: attr_chain(n) == ["node", "stroke_width"], through_containers=False)
    ws = set_calls([fn], "stroke-width")
    ctx.ob("R20.4", "_write_node[stroke width]", len(ws) >= 1 and all(sw.derived(c.args[1]) for c in ws), "", fn.lineno, "stroke width is written")
    ids = set_calls([fn], "id")
    idt = Taint(fn, lambda n: attr_chain(n) == ["node", "id"], through_containers=False)
    guarded = any(isinstance(x, ast.If) and any(isinstance(k, ast.Compare) and isinstance(k.ops[0], ast.IsNot) and idt.derived(k.left) for k in ast.walk(x.test))
                  and any(c is y for c in ids for b_ in x.body for y in ast.walk(b_)) for x in ast.walk(fn))
    ctx.ob("R20.4", "_write_node[id]", len(ids) >= 1 and all(idt.derived(c.args[1]) for c in ids) and guarded, "", fn.lineno, "ids are written when present")


def order(ctx, branches):
    names = [c for c, _, _ in branches]
    for i, c in enumerate(names):
        if c not in ctx.m.classes:
            continue
        for j in range(i):
            b = names[j]
            if b in ctx.m.classes and b != c and b in ctx.m.mro(c):
                ctx.ob("R20.6", "_write_node[%s after %s]" % (c, b), False, "", branches[i][2], "the branch for %s is unreachable: %s is a base class tested earlier" % (c, b))
        ctx.ob("R20.6", "_write_node[%s reachable]" % c, not any(names[j] in ctx.m.mro(c) and names[j] != c for j in range(i) if names[j] in ctx.m.classes), "", branches[i][2],
               "a subclass must be tested before its base classes")
