"""C05 - endpoint-form arcs are the arcs of SVG implementation note F.6."""
import ast
import itertools

from ..algebra import RF, Alg, Uninterpreted, atom, const, opaque_name
from ..dispatch import Facts, walk
from ..model import AnalysisError, attr_chain, call_name, stmts_in

EXPLANATION = (
    "Static rules over Arc._svg_parameterize and the degenerate-arc evaluators (no execution). R05.1: for all 16 "
    "combinations of (radii too small?, fA = fS?, cross product negative?, fS set?) the straight-line statements selected by "
    "the guards are folded into exact canonical forms of centre, sweep and the auxiliary quantities and compared with SVG "
    "F.6.5 / F.6.6 step by step: x1',y1' (F.6.5.1), radius check and scaling by its square root (F.6.6.2-3), the radicand and "
    "the sign rule 'negative iff fA = fS' (F.6.5.2), cx',cy', centre (F.6.5.3), u and v, the sign of the angle by the cross "
    "product, reduction modulo 360 and 'subtract 360 when fS = 0' (F.6.5.6); guard expressions themselves are compared with "
    "the quantities they must test. R05.2: radii pass through abs() before their first arithmetic use (F.6.6.1), at every "
    "endpoint-form entry. R05.3 stored form: prx/pry are centre + (rx, 0) and centre + (0, ry) rotated about the centre by the "
    "x-axis rotation; sweep is the extent in radians. R05.4 degenerate siblings: the state written by the early exit "
    "(coincident endpoints / zero radius) is read off the code; the evaluators' branches for that state (npoint, numpy "
    "npoint, length, bbox) must implement the straight segment: linear interpolation, |end - start|, min/max box. "
    "R05.5: the start parameter is obtained through point_at_angle / t_at_point, which convert a polar angle into the ellipse parameter by "
    "atan2(rx tan a, ry) plus half a turn in the left half plane; the guarding test is folded for one representative angle per sixteenth "
    "of a turn over (-1, 1) turn (the angle is a difference of two atan2 results). "
    "The cosine clamp before acos is checked as a pure two-sided range clamp: values above 1 go to 1 AND values below -1 go to -1 "
    "(a one-sided abs() clamp sends -1.0000000000000002, which too-small radii produce, to +1: the half turn becomes no arc). Not "
    "decided: that sampled points satisfy the ellipse equation numerically; behaviour at exactly half a turn."
    " R05.4 also requires Point.__eq__ - which decides 'coincident endpoints' - to be an absolute tolerance (no"
    ' isclose with a relative tolerance).'
)
TECHNIQUE = (
    "static analysis (no execution): guard-selected straight-line statements folded into exact canonical forms for all 16 (radii small?, fA=fS?, cross<0?, fS?) cells and compared with SVG F.6.5/F.6.6; clamp shape check; degenerate branches of the evaluators"
)
ASSUMPTIONS = [
    "SVG 1.1 Appendix F.6.5/F.6.6 transcribed in this module is the oracle.",
    "cos/sin/sqrt/acos/degrees/abs are opaque: agreement is on the formulas, not on floating-point values.",
]
FLOORS = {"R05.1": 60, "R05.2": 2, "R05.3": 4, "R05.4": 4, "R05.5": 2, "R05.6": 4}

PARAMS = ["start", "rx", "ry", "rotation", "large_arc_flag", "sweep_flag", "end"]


def hook(alg, node):
    """Angle.degrees(x).as_radians -> x*2pi/360 ; radians(x) stays opaque."""
    if isinstance(node, ast.Attribute) and node.attr == "as_radians" and isinstance(node.value, ast.Call) and call_name(node.value) == "Angle.degrees":
        return alg.ev(node.value.args[0]) * const(2) * atom("pi") / const(360)
    return None


REFERENCE = """
cosr = cos(radians(rotation))
sinr = sin(radians(rotation))
dx = (start.real - end.real) / 2
dy = (start.imag - end.imag) / 2
x1p = cosr * dx + sinr * dy
y1p = -sinr * dx + cosr * dy
LAMBDA = x1p * x1p / (rx * rx) + y1p * y1p / (ry * ry)
"""
REFERENCE2 = """
num = rx * rx * ry * ry - rx * rx * y1p * y1p - ry * ry * x1p * x1p
den = rx * rx * y1p * y1p + ry * ry * x1p * x1p
c = SIGN * sqrt(ABS(num / den))
cxp = c * rx * y1p / ry
cyp = -c * ry * x1p / rx
cx = cosr * cxp - sinr * cyp + (start.real + end.real) / 2
cy = sinr * cxp + cosr * cyp + (start.imag + end.imag) / 2
ux = (x1p - cxp) / rx
uy = (y1p - cyp) / ry
vx = (-x1p - cxp) / rx
vy = (-y1p - cyp) / ry
cross = ux * vy - uy * vx
d = (ux * vx + uy * vy) / sqrt((ux * ux + uy * uy) * (vx * vx + vy * vy))
delta0 = CROSS * degrees(acos(d))
delta1 = delta0 % 360
"""


def run_ref(radius, flags_equal, cross_neg, sweep_flag, use_abs, abs_radii=False):
    alg = Alg(call_hook=hook)
    if abs_radii:
        for s in ast.parse("rx = abs(rx)\nry = abs(ry)").body:
            alg.assign(s)
    for s in ast.parse(REFERENCE).body:
        alg.assign(s)
    if radius:
        for s in ast.parse("rx = rx * sqrt(LAMBDA)\nry = ry * sqrt(LAMBDA)").body:
            alg.assign(s)
    src = REFERENCE2.replace("SIGN", "-1" if flags_equal else "1").replace("CROSS", "-1" if cross_neg else "1")
    src = src.replace("ABS(", "abs(" if use_abs else "(")
    for s in ast.parse(src).body:
        alg.assign(s)
    delta = alg.env["delta1"]
    if not sweep_flag:
        delta = delta - const(360)
    alg.env["sweep"] = delta * const(2) * atom("pi") / const(360)
    return alg


def run(ctx):
    ctx.rule("R05.1", "F.6.5/F.6.6 step conformance per guard combination")
    ctx.rule("R05.2", "radius sign normalisation (F.6.6.1)")
    ctx.rule("R05.3", "stored form of the solved arc")
    ctx.rule("R05.4", "degenerate arc = straight segment, in every evaluator")
    ctx.rule("R05.5", "polar angle to ellipse parameter: half-turn correction exactly in the left half plane")
    ctx.rule("R05.6", "the rotation about the centre that places the axis points is a rotation about that centre")
    # _svg_parameterize swings centre + (rx, 0) and centre + (0, ry) about the centre with Matrix.post_rotate(angle, cx, cy); the
    # centre of an arc often lies on a coordinate axis.  The obligations of C04 R04.4 for that operation are part of this property.
    from .c04 import sandwiches as _sandwiches
    _sp = ctx.fn("Arc._svg_parameterize", "R05.6")
    _used = {(c.func.attr.split("_")[0], "rotate") for c in ast.walk(_sp) if isinstance(c, ast.Call) and isinstance(c.func, ast.Attribute) and c.func.attr in ("post_rotate", "pre_rotate") and len(c.args) == 3}
    ctx.need(bool(_used), "R05.6", "Arc._svg_parameterize: rotation about the centre (Matrix.pre/post_rotate with a centre) not found")
    _sandwiches(ctx, only=_used, rule="R05.6")
    fn = ctx.fn("Arc._svg_parameterize", "R05.1")
    have = [a.arg for a in fn.args.args][1:]
    ctx.need(have == PARAMS, "R05.1", "_svg_parameterize parameters changed: %s" % have)
    steps(ctx, fn)
    radius_sign(ctx, fn)
    coincidence_is_absolute(ctx)
    stored_form(ctx, fn)
    degenerate(ctx, fn)
    polar_to_parameter(ctx)


def _num(node):
    try:
        v = ast.literal_eval(node)
        return v if isinstance(v, (int, float)) else None
    except (ValueError, SyntaxError):
        return None


def classify_tests(fn):
    kinds = {}
    # the cosine variable(s): arguments of acos(...)
    clamp_vars = {n.id for c in ast.walk(fn) if isinstance(c, ast.Call) and isinstance(c.func, ast.Name) and c.func.id == "acos" for n in ast.walk(c) if isinstance(n, ast.Name)} - {"acos"}
    for s in stmts_in(fn.body):
        if not isinstance(s, ast.If):
            continue
        t = s.test
        src = ast.unparse(t)
        if "start == end" in src or ("rx == 0" in src and "ry == 0" in src):
            kinds[src] = "degenerate"
        elif isinstance(t, ast.Compare) and isinstance(t.ops[0], ast.Gt) and isinstance(t.comparators[0], ast.Constant) and t.comparators[0].value == 1 \
                and isinstance(t.left, ast.Name) and t.left.id not in clamp_vars:
            kinds[src] = "radius"
        elif isinstance(t, ast.Compare) and isinstance(t.ops[0], (ast.Eq, ast.NotEq)) and {ast.unparse(t.left), ast.unparse(t.comparators[0])} == {"large_arc_flag", "sweep_flag"}:
            kinds[src] = "flags_equal" if isinstance(t.ops[0], ast.Eq) else "flags_differ"
        elif isinstance(t, ast.Compare) and _num(t.comparators[0]) in (1, -1) and any(isinstance(n, ast.Name) and n.id in clamp_vars for n in ast.walk(t.left)):
            kinds[src] = "clamp"
        elif isinstance(t, ast.Compare) and isinstance(t.ops[0], (ast.Lt, ast.Gt)) and isinstance(t.comparators[0], ast.Constant) and t.comparators[0].value == 0:
            kinds[src] = "cross_neg" if isinstance(t.ops[0], ast.Lt) else "cross_pos"
        elif src in ("not sweep_flag", "sweep_flag"):
            kinds[src] = "not_sweep" if src.startswith("not") else "sweep"
        else:
            raise AnalysisError("R05.1", "_svg_parameterize: guard not recognised: %s" % src)
    return kinds


def steps(ctx, fn):
    kinds = classify_tests(fn)
    need = {"degenerate", "radius", "clamp"}
    ctx.need(need <= set(kinds.values()), "R05.1", "expected guards missing: %s" % sorted(need - set(kinds.values())))
    ctx.need({"flags_equal", "flags_differ"} & set(kinds.values()), "R05.1", "sign-rule guard missing")
    ctx.need({"cross_neg", "cross_pos"} & set(kinds.values()), "R05.1", "cross-product guard missing")
    ctx.need({"not_sweep", "sweep"} & set(kinds.values()), "R05.1", "sweep-flag guard missing")
    body = [s for s in fn.body if not (isinstance(s, ast.Expr) and isinstance(s.value, ast.Constant))]
    # F.6.6.1: the reference takes absolute radii when the implementation normalises them (R05.2 decides that it must)
    abs_radii = all(any(isinstance(s, ast.Assign) and ast.unparse(s) == "%s = abs(%s)" % (nm, nm) for s in fn.body) for nm in ("rx", "ry"))
    for radius, feq, cneg, sflag in itertools.product([False, True], repeat=4):
        truth = {}
        for src, k in kinds.items():
            truth[src] = {"degenerate": False, "radius": radius, "flags_equal": feq, "flags_differ": not feq, "clamp": False,
                          "cross_neg": cneg, "cross_pos": not cneg, "not_sweep": not sflag, "sweep": sflag}[k]
        alg = Alg(call_hook=hook)
        cons = "_svg_parameterize[radii-small=%s,fA=fS:%s,cross<0:%s,fS=%s]" % (radius, feq, cneg, sflag)
        try:
            out = walk(body, Facts(truth=truth), alg, ctx.m, "R05.1", cons)
        except Uninterpreted as e:
            raise AnalysisError("R05.1", "%s: %s" % (cons, e))
        ctx.need(out.kind == "fall", "R05.1", "%s: unexpected early exit" % cons)
        got_center = alg.atom_map.get("self.center")
        got_sweep = alg.atom_map.get("self.sweep")
        ctx.need(isinstance(got_center, list) and isinstance(got_sweep, RF), "R05.1", "%s: centre/sweep not computed as expected" % cons)
        ok = None
        for use_abs in (True, False):
            ref = run_ref(radius, feq, cneg, sflag, use_abs, abs_radii)
            okc = got_center[0] == ref.env["cx"] and got_center[1] == ref.env["cy"]
            oks = got_sweep == ref.env["sweep"]
            if okc and oks:
                ok = (True, True, ref)
                break
            if ok is None:
                ok = (okc, oks, ref)
        okc, oks, ref = ok
        first = not (radius or feq or cneg or sflag)
        ctx.ob("R05.1", cons + ":centre", okc, "cx=%s" % (got_center[0],), fn.lineno, "centre differs from F.6.5.2/F.6.5.3", sample=first)
        ctx.ob("R05.1", cons + ":sweep", oks, "sweep=%s" % (got_sweep,), fn.lineno, "angular extent differs from F.6.5.6 (sign by cross product, mod 360, minus 360 when fS = 0)", sample=first)
        # final radii (after correction) feed the stored axis points
        for nm in ("rx", "ry"):
            g = alg.env.get(nm, atom(nm))
            ctx.ob("R05.1", cons + ":" + nm, g == ref.env.get(nm, atom(nm)), str(g), fn.lineno, "radii must be scaled by the square root of the radius check (F.6.6.3) exactly when it exceeds 1", sample=False)
        # guards test the right quantities
        for s in stmts_in(fn.body):
            if isinstance(s, ast.If):
                k = kinds[ast.unparse(s.test)]
                if k == "radius" and first:
                    g = alg.ev(s.test.left)
                    ctx.ob("R05.1", "_svg_parameterize[radius guard]", g == ref.env["LAMBDA"], str(g), s.lineno, "radius check is x1'^2/rx^2 + y1'^2/ry^2 > 1 (F.6.6.2)")
                if k in ("cross_neg", "cross_pos") and first:
                    g = alg.ev(s.test.left)
                    ctx.ob("R05.1", "_svg_parameterize[cross guard]", g == ref.env["cross"], str(g), s.lineno, "the sign of the angle is the sign of ux*vy - uy*vx (F.6.5.4)")
    # the clamp of the cosine must be a pure range clamp into [-1, 1]: exactly (d > 1 -> 1) and (d < -1 -> -1)
    seen = set()
    for s in stmts_in(fn.body):
        if isinstance(s, ast.If) and kinds.get(ast.unparse(s.test)) == "clamp":
            t = s.test
            v = _num(t.comparators[0])
            asg = s.body[0] if s.body and isinstance(s.body[0], ast.Assign) else None
            ok = asg is not None and isinstance(t.left, ast.Name) and ast.unparse(asg.targets[0]) == ast.unparse(t.left) and isinstance(asg.value, (ast.Constant, ast.UnaryOp)) \
                and ast.literal_eval(asg.value) == v and ((v == 1 and isinstance(t.ops[0], (ast.Gt, ast.GtE))) or (v == -1 and isinstance(t.ops[0], (ast.Lt, ast.LtE))))
            if ok:
                seen.add(v)
            ctx.ob("R05.1", "_svg_parameterize[clamp %s]" % ast.unparse(t), ok, ast.unparse(s)[:80], s.lineno,
                   "the cosine may only be clamped into [-1, 1]: values above 1 to 1, values below -1 to -1 (mapping -1.0000000000000002 to +1 turns a half turn into no arc or a full turn)")
    ctx.ob("R05.1", "_svg_parameterize[clamp two-sided]", seen == {1, -1}, "clamped sides: %s" % sorted(seen), fn.lineno,
           "float rounding can push the cosine beyond either end of [-1, 1] (too-small radii give exactly -1): both sides must be clamped to their own bound")


def radius_sign(ctx, fn):
    """rx, ry must be made absolute before the first arithmetic use in _svg_parameterize (or at every caller)."""
    first_use = {}
    absd = {}
    for s in fn.body:
        for nm in ("rx", "ry"):
            if isinstance(s, ast.Assign) and isinstance(s.targets[0], ast.Name) and s.targets[0].id == nm and isinstance(s.value, ast.Call) \
                    and isinstance(s.value.func, ast.Name) and s.value.func.id == "abs" and ast.unparse(s.value.args[0]) == nm:
                absd.setdefault(nm, s.lineno)
            if isinstance(s, ast.If) and s.body and isinstance(s.body[0], ast.Assign) and ast.unparse(s.body[0]) in ("%s = abs(%s)" % (nm, nm), "%s = -%s" % (nm, nm)) \
                    and ast.unparse(s.test) == "%s < 0" % nm:
                absd.setdefault(nm, s.lineno)
            if nm not in first_use:
                for n in ast.walk(s):
                    if isinstance(n, (ast.BinOp, ast.AugAssign)) and any(isinstance(x, ast.Name) and x.id == nm for x in ast.walk(n)):
                        first_use[nm] = s.lineno
                        break
    callers_ok = {}
    for nm in ("rx", "ry"):
        in_callee = nm in absd and absd[nm] <= first_use.get(nm, 10 ** 9)
        ctx.ob("R05.2", "Arc._svg_parameterize[%s sign]" % nm, in_callee,
               "abs at line %s, first arithmetic use line %s" % (absd.get(nm), first_use.get(nm)), fn.lineno,
               "negative radii act as their absolute values (F.6.6.1): the odd-power uses (c*rx*y1'/ry, centre.x + rx) see the sign otherwise")


def stored_form(ctx, fn):
    src = {ast.unparse(s.targets[0]): s.value for s in fn.body if isinstance(s, ast.Assign) and isinstance(s.targets[0], ast.Attribute)}
    alg = Alg()
    for key, want in (("self.prx", ("center.x + rx", "center.y")), ("self.pry", ("center.x", "center.y + ry"))):
        v = src.get(key)
        ok = v is not None and call_name(v) == "Point" and len(v.args) == 2
        if ok:
            ok = alg.ev(v.args[0]) == Alg().ev(ast.parse(want[0], mode="eval").body) and alg.ev(v.args[1]) == Alg().ev(ast.parse(want[1], mode="eval").body)
        ctx.ob("R05.3", "_svg_parameterize[%s before rotation]" % key, ok, ast.unparse(v) if v is not None else "", fn.lineno, "axis end points start as centre + (rx, 0) and centre + (0, ry)")
    calls = [ast.unparse(s.value) for s in fn.body if isinstance(s, ast.Expr) and isinstance(s.value, ast.Call)]
    rm = [s for s in fn.body if isinstance(s, ast.Assign) and call_name(s.value) == "Matrix" and not s.value.args]
    ctx.need(rm, "R05.3", "rotation matrix not found")
    mname = rm[0].targets[0].id
    rot_call = [c for c in calls if c.startswith("%s.post_rotate(" % mname) or c.startswith("%s.pre_rotate(" % mname)]
    ok = len(rot_call) == 1 and rot_call[0].replace(" ", "") in (
        "%s.post_rotate(Angle.degrees(rotation).as_radians,center.x,center.y)" % mname, "%s.pre_rotate(Angle.degrees(rotation).as_radians,center.x,center.y)" % mname,
        "%s.post_rotate(radians(rotation),center.x,center.y)" % mname)
    ctx.ob("R05.3", "_svg_parameterize[rotation about the centre]", ok, str(rot_call), fn.lineno, "axis points are rotated by the x-axis rotation (degrees) about the centre")
    ok = "self.prx.matrix_transform(%s)" % mname in calls and "self.pry.matrix_transform(%s)" % mname in calls
    ctx.ob("R05.3", "_svg_parameterize[both axis points rotated]", ok, str(calls), fn.lineno, "both axis end points take the rotation")
    ok = ast.unparse(src.get("self.center")) == "center" if src.get("self.center") is not None else False
    ctx.ob("R05.3", "_svg_parameterize[centre stored]", ok, "", fn.lineno, "")
    ok = ast.unparse(src.get("self.start")) == "start" and ast.unparse(src.get("self.end")) == "end"
    ctx.ob("R05.3", "_svg_parameterize[end points stored exactly]", ok, "", fn.lineno, "an arc starts and ends exactly at the given points")


def degenerate(ctx, fn):
    # read the degenerate state off the early-exit block
    deg = None
    for s in fn.body:
        if isinstance(s, ast.If) and ("start == end" in ast.unparse(s.test)):
            deg = s
    ctx.need(deg is not None and isinstance(deg.body[-1], ast.Return), "R05.4", "degenerate early exit not found")
    t = ast.unparse(deg.test)
    # each of the three causes alone must take the exit: the test is false only when none of them holds
    from ..flow import guard_implies

    def power_of(x, kind, depth=0):
        # the radius itself, |radius|, or a product of it with itself (zero exactly when the radius is zero or underflows)
        while isinstance(x, ast.Call) and isinstance(x.func, ast.Name) and x.func.id == "abs" and len(x.args) == 1:
            x = x.args[0]
        if isinstance(x, ast.Name):
            if x.id == kind:
                return True
            defs = [n.value for n in ast.walk(fn) if isinstance(n, ast.Assign) and len(n.targets) == 1 and isinstance(n.targets[0], ast.Name) and n.targets[0].id == x.id
                    and n.lineno < deg.lineno]
            return depth < 3 and len(defs) == 1 and power_of(defs[0], kind, depth + 1)
        if isinstance(x, ast.BinOp) and isinstance(x.op, ast.Mult):
            return power_of(x.left, kind, depth) and power_of(x.right, kind, depth)
        return False

    def cause(kind):
        def atom_test(test, positive):
            if positive:
                return False
            if kind == "coincident":
                return isinstance(test, ast.Compare) and len(test.ops) == 1 and isinstance(test.ops[0], ast.Eq) and {ast.unparse(test.left), ast.unparse(test.comparators[0])} == {"start", "end"}
            if isinstance(test, ast.Compare) and len(test.ops) == 1 and isinstance(test.ops[0], ast.Eq):
                sides = [test.left, test.comparators[0]]
                return any(power_of(x, kind) for x in sides) and any(isinstance(x, ast.Constant) and x.value == 0 and not isinstance(x.value, bool) for x in sides)
            return False
        return atom_test

    missing = [k for k in ("coincident", "rx", "ry") if not guard_implies(deg.test, False, cause(k))]
    ctx.ob("R05.4", "_svg_parameterize[degenerate guard]", not missing, "%s; not sufficient alone: %s" % (t, missing or "-"), deg.lineno,
           "coincident endpoints, rx = 0 and ry = 0 are EACH a degenerate case of F.6.2; with `rx == 0 and ry == 0` one zero radius reaches the division by rx^2 / ry^2 (ZeroDivisionError)")
    state = {ast.unparse(a.targets[0]): ast.unparse(a.value) for a in deg.body if isinstance(a, ast.Assign)}
    ctx.need(state.get("self.sweep") == "0", "R05.4", "degenerate state is not sweep = 0: %s" % state)
    # evaluators: branches guarded by `self.sweep == 0`
    def is_sweep_zero(t):
        if isinstance(t, ast.Compare) and len(t.ops) == 1 and isinstance(t.ops[0], ast.Eq):
            sides = [t.left, t.comparators[0]]
            return any(attr_chain(x) == ["self", "sweep"] for x in sides) and any(isinstance(x, ast.Constant) and x.value == 0 for x in sides)
        if isinstance(t, ast.UnaryOp) and isinstance(t.op, ast.Not):
            return attr_chain(t.operand) == ["self", "sweep"]
        return False

    def deg_branch(f):
        for s in stmts_in(f.body):
            if isinstance(s, ast.If) and is_sweep_zero(s.test):
                return s
        return None

    def first_return(block):
        """value returned by the straight-line degenerate branch, with its single-definition locals substituted"""
        alg = Alg()
        for st in block:
            if isinstance(st, ast.Assign):
                try:
                    alg.assign(st)
                except Uninterpreted:
                    pass
            if isinstance(st, ast.Return):
                return alg, st.value
        return alg, None

    ln = ctx.fn("Arc.length", "R05.4")
    b = deg_branch(ln)
    ok = False
    if b is not None:
        _, v = first_return(b.body)
        if isinstance(v, ast.Call):
            ends = {"self.start", "self.end"}
            if attr_chain(v.func) == ["Point", "distance"] and len(v.args) == 2 and {".".join(attr_chain(a) or []) for a in v.args} == ends:
                ok = True
            if isinstance(v.func, ast.Attribute) and v.func.attr in ("distance", "distance_to") and len(v.args) == 1 and {".".join(attr_chain(v.func.value) or []), ".".join(attr_chain(v.args[0]) or [])} == ends:
                ok = True
            if call_name(v) == "abs" and len(v.args) == 1 and isinstance(v.args[0], ast.BinOp) and isinstance(v.args[0].op, ast.Sub) \
                    and {".".join(attr_chain(v.args[0].left) or []), ".".join(attr_chain(v.args[0].right) or [])} == ends:
                ok = True
    ctx.ob("R05.4", "Arc.length[degenerate]", ok, ast.unparse(b)[:100] if b is not None else "no sweep == 0 branch", ln.lineno,
           "a zero-radius arc is the straight line between its endpoints: its length is |end - start| (0 only for coincident endpoints)")
    bb = ctx.fn("Arc.bbox", "R05.4")
    b = deg_branch(bb)
    ok = False
    if b is not None:
        alg, v = first_return(b.body)
        if isinstance(v, ast.Tuple) and len(v.elts) == 4:
            try:
                got = [alg.ev(x) for x in v.elts]
                want = [Alg().ev(ast.parse(t, mode="eval").body) for t in ("min(self.start.x, self.end.x)", "min(self.start.y, self.end.y)", "max(self.start.x, self.end.x)", "max(self.start.y, self.end.y)")]
                ok = all(g == w for g, w in zip(got, want))
            except Uninterpreted:
                ok = False
    ctx.ob("R05.4", "Arc.bbox[degenerate]", ok, ast.unparse(b)[:140] if b is not None else "no sweep == 0 branch", bb.lineno,
           "the box of the straight segment is min/max of its endpoints (an unordered box when the end is left/above the start otherwise)")
    for qual in ("Arc.npoint", "Arc._points_numpy"):
        f = ctx.fn(qual, "R05.4")
        b = deg_branch(f)
        ok = False
        if b is not None:
            src = ast.unparse(b.body[0] if len(b.body) == 1 else ast.Module(b.body, []))
            ok = ("Point.towards(self.start, self.end" in src) or ("np.interp" in src and "self.start.x" in src and "self.end.x" in src and "self.start.y" in src and "self.end.y" in src)
            extra = ast.unparse(b.test)
        ctx.ob("R05.4", "%s[degenerate]" % qual, ok, ast.unparse(b)[:140] if b is not None else "no sweep == 0 branch", f.lineno,
               "points of a zero-radius arc are the linear interpolation between its endpoints")


def polar_to_parameter(ctx):
    """Arc.point_at_angle / Arc.t_at_point turn a polar angle (measured from the rotated x axis) into the ellipse parameter:
    t = atan2(rx tan(angle), ry) lies in the right half turn; a half turn is added exactly when the angle points into the left half
    plane (cos(angle) < 0).  The angle is a difference of two atan2 results, so it ranges over (-1, 1) turn.  The test guarding the
    half-turn correction is folded for one representative angle per sixteenth of a turn in that range (angles in units of a turn,
    tau := 1): it is piecewise constant between multiples of a quarter turn, so the representatives decide it."""
    from fractions import Fraction
    from ..pe import PE, K, Raised

    for qual in ("Arc.point_at_angle", "Arc.t_at_point"):
        fn = ctx.fn(qual, "R05.5")
        body = [x for x in fn.body if not (isinstance(x, ast.Expr) and isinstance(x.value, ast.Constant))]
        # the angle local: the argument of tan() inside atan2(...)
        tans = [c for c in ast.walk(fn) if isinstance(c, ast.Call) and call_name(c) == "tan" and len(c.args) == 1 and isinstance(c.args[0], ast.Name)]
        at = [x for x in body if isinstance(x, ast.Assign) and isinstance(x.targets[0], ast.Name) and isinstance(x.value, ast.Call) and call_name(x.value) == "atan2"]
        ctx.need(len(at) == 1 and tans, "R05.5", "%s: t = atan2(rx tan(angle), ry) not found" % qual)
        angle_var, tvar = tans[0].args[0].id, at[0].targets[0].id
        start = body.index(at[0])
        bad = []
        n = 0
        # the two boundaries are decided by what tan() returns there in IEEE double: tan(float(tau/4)) and tan(float(3 tau/4)) are
        # both large and POSITIVE (the float is just below the pole), so atan2 lands just below +1/4 turn in both cases: at 1/4
        # turn that is the parameter (no correction), at 3/4 turn the parameter is half a turn further (correction).  With a
        # negative angle tan changes sign and the same membership is right again.  Hence (1/4, 3/4], not [1/4, 3/4) or (1/4, 3/4).
        import math
        ctx.need(math.tan(math.tau / 4) > 1e15 and math.tan(3 * math.tau / 4) > 1e15, "R05.5", "sign of tan at the quarter-turn boundaries differs on this platform")
        angles = [Fraction(2 * k + 1, 32) for k in range(-16, 16)] + [Fraction(1, 4), Fraction(-1, 4), Fraction(3, 4), Fraction(-3, 4)]
        for ang in angles:
            pe = PE(ctx.m, "R05.5", "%s[angle = %s turn]" % (qual, ang))
            pe.bind("tau", const(1))
            pe.bind(angle_var, const(ang))
            base = atom("T_RIGHT_HALF")
            pe.bind(tvar, base)
            try:
                res = pe.run(body[start + 1:])
            except (Raised, AnalysisError) as e:
                raise AnalysisError("R05.5", "%s: half-turn correction not decided: %s" % (qual, e))
            got = pe.env.get(tvar)
            frac = abs(ang) % 1
            want_left = Fraction(1, 4) < frac <= Fraction(3, 4)
            added = isinstance(got, RF) and got == base + const(Fraction(1, 2))
            kept = isinstance(got, RF) and got == base
            n += 1
            if not (added if want_left else kept):
                bad.append("angle %s turn: %s" % (ang, "half turn added" if added else "not corrected" if kept else got))
        ctx.ob("R05.5", "%s[half turn added exactly in the left half plane]" % qual, not bad, "; ".join(bad[:4]) or "%d representative angles" % n, fn.lineno,
               "atan2(rx tan a, ry) only yields the right half of the ellipse; for |a| mod 1 turn in (1/4, 3/4] the parameter is half a turn further - also for angles beyond +-3/4 turn, which occur because the angle is a difference of two atan2 values")


def coincidence_is_absolute(ctx):
    """"Coincident endpoints draw nothing" is decided with Point == Point.  Point.__eq__ compares each coordinate within the
    module's absolute tolerance; a relative tolerance (math.isclose without rel_tol=0) would make distinct end points at
    large coordinates coincide and turn a real arc into nothing."""
    fn = ctx.fn("Point.__eq__", "R05.4")
    calls = [c for c in ast.walk(fn) if isinstance(c, ast.Call) and call_name(c) in ("isclose", "math.isclose")]
    bad = [c for c in calls if not any(k.arg == "rel_tol" and isinstance(k.value, ast.Constant) and k.value.value == 0 for k in c.keywords)]
    cmps = [c for c in ast.walk(fn) if isinstance(c, ast.Compare) and len(c.ops) == 1 and isinstance(c.ops[0], (ast.LtE, ast.Lt)) and any(call_name(x) == "abs" for x in ast.walk(c.left) if isinstance(x, ast.Call))]
    ctx.ob("R05.4", "Point.__eq__[absolute tolerance]", not bad, "%d abs-difference comparison(s), %d isclose call(s) with a relative tolerance" % (len(cmps), len(bad)), fn.lineno,
           "with a relative tolerance two distinct points near (1e5, 1e5) compare equal and `A 10,10 0 1,1 100000.00005,100000` from (100000, 100000) is taken for a coincident-endpoint arc")
