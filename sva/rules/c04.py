"""C04 - transform strings and Matrix algebra follow SVG/CSS transform semantics."""
import ast
import re

from .. import matrixsem as MS
from ..algebra import RF, Alg, atom, const, ref
from ..normalise import expand_helpers
from ..pe import PE, K
from ..model import AnalysisError, attr_chain, call_name, if_chain, eq_keys, stmts_in

EXPLANATION = (
    "Static rules over Matrix/Angle (no execution). R04.1: the alternatives of PATTERN_TRANSFORM (folded from the module's "
    "constants) equal the branch keys of Matrix.parse, none shadowed, prefix alternatives backtrack, input is lower-cased. "
    "R04.2: parse composes only with pre_* operations; pre_cat multiplies (new, self), post_cat/@= (self, new). R04.3: each "
    "function name maps to its operation with arguments of the right kind and position (angle via Angle.parse, lengths via "
    "Length(..).value(), numbers via float) for every optional-argument variant. R04.4: centred variants are the "
    "translate/op/translate sandwich with the right signs on the right side; *_x/*_y variants delegate with the neutral "
    "element. R04.5: matrix_multiply, point_in_matrix_space, transform_point, inverse, determinant and the elementary "
    "constructors are compared, as exact rational functions, with the SVG 1.1 section 7.4-7.6 definitions; "
    "p*(A*B) = (p*A)*B, identity neutrality and M*~M = ~M*M = I are verified as polynomial identities of the implemented "
    "formulas. R04.6: Angle.parse suffix table (deg, grad, rad, turn, unitless=degrees), constants, suffix shadowing, "
    "slice widths. R04.7: operator routing (*, @, ~, point*matrix). Not decided: floating-point error; regex behaviour on "
    "exotic white space."
    ' R04.11: Matrix.render is followed for the four combinations (e a Length or a number, f a Length or a'
    ' number): exactly the entries that are lengths are re-assigned from their own .value(), e against the'
    ' width and f against the height (each falling back to relative_length only), ppi / font_size / font_height'
    ' / viewbox passed under their own names, and self is returned.'
)
TECHNIQUE = (
    "static analysis (no execution): regex alternatives vs dispatch keys; argument-kind classification per branch with helper call-site expansion; centre sandwiches by partial evaluation over (centre zero?) scenarios; matrix formulas as exact rational-function identities"
)
ASSUMPTIONS = [
    "SVG 1.1 section 7.4: matrix(a b c d e f) maps (x, y) to (a x + c y + e, b x + d y + f).",
    "Floating-point round-off is not modelled; formulas are compared as exact rational functions.",
    "Length(...).value() and Angle.parse are the length/angle resolvers (their tables are checked in C12 and R04.6).",
]
FLOORS = {"R04.1": 12, "R04.2": 3, "R04.3": 20, "R04.4": 10, "R04.5": 20, "R04.6": 10, "R04.8": 1, "R04.9": 1, "R04.11": 6}


def run(ctx):
    ctx.rule("R04.1", "dispatch exhaustiveness / shadowing / case folding")
    ctx.rule("R04.2", "composition side of parse, pre_cat, post_cat")
    ctx.rule("R04.3", "function name -> operation and argument kinds")
    ctx.rule("R04.4", "centre sandwiches and axis delegations")
    ctx.rule("R04.5", "formula conformance and derived identities")
    ctx.rule("R04.6", "angle units")
    ctx.rule("R04.7", "operator routing")
    ctx.rule("R04.8", "an omitted optional argument defaults; it does not drop the function")
    ctx.rule("R04.10", "length arguments are resolved before they are composed")
    ctx.rule("R04.9", "every unit Length resolves is a unit the transform-argument recogniser knows")
    ctx.rule("R04.11", "Matrix.render resolves each translation on its own: e against the width, f against the height")
    render_translations(ctx)
    branches = dispatch(ctx)
    composition(ctx)
    branch_ops(ctx, branches)
    optional_arguments(ctx, branches)
    unit_alternatives(ctx)
    unresolved_composition(ctx)
    sandwiches(ctx)
    formulas(ctx)
    angle_units(ctx)
    routing(ctx)


# --------------------------------------------------------------------------- R04.1
SPEC_NAMES = ["matrix", "translate", "translatex", "translatey", "scale", "scalex", "scaley", "rotate", "skew", "skewx", "skewy"]


def parse_loop(ctx):
    """The transform-function loop, found by role: the Matrix method iterating REGEX_TRANSFORM_TEMPLATE matches,
    which Matrix.parse must be or must call."""
    cls = ctx.m.cls("Matrix", "R04.1")
    found = []
    for name, f in cls.methods.items():
        for s in ast.walk(f):
            if isinstance(s, ast.For) and "REGEX_TRANSFORM_TEMPLATE" in ast.unparse(s.iter):
                found.append((name, f, s))
    ctx.need(len(found) == 1, "R04.1", "Matrix: the loop over transform functions not found (%d candidates)" % len(found))
    name, fn, loop = found[0]
    ctx.functions.add("Matrix.%s" % name)
    if name != "parse":
        entry = ctx.fn("Matrix.parse", "R04.1")
        reaches = any(isinstance(c, ast.Call) and ast.unparse(c.func) == "self.%s" % name for c in ast.walk(entry))
        ctx.need(reaches, "R04.1", "Matrix.parse does not reach the transform loop in Matrix.%s" % name)
    return fn, loop


def dispatch(ctx):
    m = ctx.m
    fn, loop = parse_loop(ctx)
    alts = m.consts.get("PATTERN_TRANSFORM")
    ctx.need(isinstance(alts, str), "R04.1", "PATTERN_TRANSFORM not a folded constant")
    names = alts.split("|")
    ctx.ob("R04.1", "PATTERN_TRANSFORM[names]", sorted(names) == sorted(SPEC_NAMES), "alternatives %s" % names, 0,
           "the recogniser must know exactly the SVG 1.1 + CSS 2-D function names")
    # iterable: REGEX_TRANSFORM_TEMPLATE.findall(<str>.lower())
    it = loop.iter
    ok_iter = isinstance(it, ast.Call) and isinstance(it.func, ast.Attribute) and it.func.attr in ("findall", "finditer") \
        and attr_chain(it.func.value) == ["REGEX_TRANSFORM_TEMPLATE"]
    ctx.need(ok_iter, "R04.1", "Matrix.parse loop does not iterate REGEX_TRANSFORM_TEMPLATE matches")
    lowered = any(isinstance(c, ast.Call) and isinstance(c.func, ast.Attribute) and c.func.attr == "lower" for c in ast.walk(it.args[0]))
    ctx.ob("R04.1", "Matrix.parse[case folding]", lowered, ast.unparse(it), loop.lineno,
           "function names AND the units inside the arguments match in any letter case only if the whole string is lower-cased before it is split "
           "(folding the function name alone leaves '0.25TURN' or '2CM' unrecognised)")
    pat = m.regexes.get("REGEX_TRANSFORM_TEMPLATE")
    ctx.need(pat is not None, "R04.1", "REGEX_TRANSFORM_TEMPLATE pattern not folded")
    ctx.ob("R04.1", "REGEX_TRANSFORM_TEMPLATE[shape]", re.match(r"\(\?[a-z]+\)\(", pat) is not None and pat[pat.index(")") + 1:].startswith("(" + alts + ")") and pat.endswith(r"\(([^)]+)\)"),
           pat[-30:], 0, "template must be (name) ws* ( args )")
    # prefix alternatives: 'translate' before 'translatex' is fine only if the continuation cannot start with the extra char
    cont_first = set(" \t\n\r\f\v(")
    for i, a in enumerate(names):
        for b in names[i + 1:]:
            if b.startswith(a) and len(b) > len(a):
                ctx.ob("R04.1", "PATTERN_TRANSFORM[%s|%s]" % (a, b), b[len(a)] not in cont_first, "next char %r" % b[len(a)], 0,
                       "a prefix alternative listed first shadows the longer name unless the continuation forces backtracking")
    # name variable and the chain
    chain_if = [s for s in loop.body if isinstance(s, ast.If)]
    ctx.need(len(chain_if) == 1, "R04.1", "Matrix.parse: dispatch chain not found")
    name_var = None
    for s in loop.body:
        v = s.value if isinstance(s, ast.Assign) else None
        # name = sub_element[0]   or   name = sub_element[0].lower()
        if isinstance(v, ast.Call) and isinstance(v.func, ast.Attribute) and v.func.attr in ("lower", "casefold") and not v.args:
            v = v.func.value
        if isinstance(v, ast.Subscript) and isinstance(v.slice, ast.Constant) and v.slice.value == 0 and isinstance(s.targets[0], ast.Name):
            name_var = s.targets[0].id
    if name_var is None and isinstance(loop.target, ast.Tuple) and len(loop.target.elts) == 2 and all(isinstance(e, ast.Name) for e in loop.target.elts):
        # `for name, arguments in REGEX_TRANSFORM_TEMPLATE.findall(...)`: the two groups unpacked in the loop header
        name_var = loop.target.elts[0].id
    ctx.need(name_var is not None, "R04.1", "Matrix.parse: name variable not found")
    branches = {}
    for test, body in if_chain(chain_if[0]):
        if test is None:
            continue
        keys = eq_keys(test, lambda n: isinstance(n, ast.Name) and n.id == name_var, m)
        ctx.need(keys is not None, "R04.1", "Matrix.parse: branch test not an equality on the name: %s" % ast.unparse(test))
        for k in keys:
            if k in branches:
                ctx.ob("R04.1", "Matrix.parse[%s]#dup" % k, False, "", test.lineno, "duplicate branch is shadowed")
            else:
                branches[k] = body
    for n in SPEC_NAMES:
        ctx.ob("R04.1", "Matrix.parse[%s]" % n, n in branches, "", loop.lineno, "transform function has no branch in Matrix.parse")
    for k in branches:
        if k not in names:
            ctx.ob("R04.1", "Matrix.parse[%s]#unreachable" % k, False, "", loop.lineno, "branch key is not an alternative of the recogniser")
    return branches


# --------------------------------------------------------------------------- R04.8 / R04.9
def optional_arguments(ctx, branches):
    """translate(tx [ty]), scale(sx [sy]), rotate(a [cx cy]), skew(ax [ay]) and the library's optional centres: reading a
    missing argument raises IndexError from the parameter list.  A handler that only `continue`s drops the whole function; that
    is acceptable for the first (mandatory) argument only - for an optional one the handler must apply the operation."""
    n = 0
    ops = lambda nm: nm.startswith("pre_") or nm.startswith("post_") or nm in ("parse", "_parse")
    for key, body in sorted(branches.items()):
        body = list(body) + expand_helpers(ctx.m, "Matrix", body, skip=ops)
        for t in [x for st in body for x in ast.walk(st) if isinstance(x, ast.Try)]:
            idx = sorted({sub.slice.value for st in t.body for sub in ast.walk(st) if isinstance(sub, ast.Subscript) and isinstance(sub.slice, ast.Constant) and isinstance(sub.slice.value, int)})
            takes_index = any("IndexError" in ast.unparse(h.type) if h.type is not None else True for h in t.handlers)
            if not idx or not takes_index:
                continue
            for h in t.handlers:
                applies = any(isinstance(c, ast.Call) and isinstance(c.func, ast.Attribute) and isinstance(c.func.value, ast.Name) and c.func.value.id == "self" and c.func.attr.startswith(("pre_", "post_"))
                              for st in h.body for c in ast.walk(st))
                drops = any(isinstance(st, ast.Continue) for st in h.body) and not applies
                n += 1
                ctx.ob("R04.8", "Matrix.parse[%s: argument %d missing]" % (key, idx[0] + 1), not (drops and idx[0] >= 1), "handler: %s" % "; ".join(ast.unparse(st)[:40] for st in h.body), h.lineno,
                       "the function's argument %d is optional (CSS Transforms: a missing second value is 0 / equals the first); dropping the function makes `%s(a)` the identity" % (idx[0] + 1, key))
    ctx.need(n >= 1, "R04.8", "IndexError handlers in the transform branches: %d found" % n)


def unresolved_composition(ctx):
    """`Length(p).value()` with no context returns a number only for the pixel family; for in/cm/mm, %, em, ... it returns the
    Length itself.  The transform loop hands that to pre_translate / the centre of rotate/skew, i.e. into the matrix product, and
    resolves e and f only afterwards in Matrix.render().  Sums of lengths of different units raise ValueError there
    ('translate(10) translate(1in)'), and after a rotation a width-percentage sits in f and is resolved against the height."""
    fn, loop = parse_loop(ctx)
    calls = [c for c in ast.walk(loop) if isinstance(c, ast.Call) and isinstance(c.func, ast.Attribute) and c.func.attr == "value" and not c.args and not c.keywords
             and isinstance(c.func.value, ast.Call) and call_name(c.func.value) == "Length"]
    ctx.need(bool(calls) or "Length" not in ast.unparse(loop), "R04.10", "Matrix.parse: length argument conversion not found")
    ctx.ob("R04.10", "Matrix.parse[lengths composed before they are resolved]", not calls,
           "%d context-free Length(...).value() results go into pre_translate/pre_rotate/pre_skew (first at line %d)" % (len(calls), calls[0].lineno if calls else 0), loop.lineno,
           "a length with a unit stays a Length object inside the matrix product until render(): mixed units raise ValueError and percentages lose their axis")


def unit_alternatives(ctx):
    m = ctx.m
    units = m.consts.get("PATTERN_LENGTH_UNITS")
    ctx.need(isinstance(units, str), "R04.9", "PATTERN_LENGTH_UNITS not a folded constant")
    known = set(units.split("|"))
    pct = m.consts.get("PATTERN_PERCENT")
    if isinstance(pct, str):
        known.add(pct)
    # the units Length.value resolves: string constants compared with self.units
    fn = ctx.fn("Length.value", "R04.9")
    resolved = set()
    for c in ast.walk(fn):
        if isinstance(c, ast.Compare) and len(c.ops) == 1 and isinstance(c.ops[0], (ast.Eq, ast.In)) and attr_chain(c.left) == ["self", "units"]:
            for x in ast.walk(c.comparators[0]):
                if isinstance(x, ast.Constant) and isinstance(x.value, str) and x.value:
                    resolved.add(x.value)
    ctx.need(len(resolved) >= 10, "R04.9", "units resolved by Length.value: %s" % sorted(resolved))
    missing = sorted(u for u in resolved if u not in known)
    ctx.ob("R04.9", "PATTERN_LENGTH_UNITS[covers the units Length resolves]", not missing, "missing: %s; recogniser knows %s" % (missing, sorted(known)), 0,
           "a unit the recogniser does not know is cut off the number: `translate(2ex)` becomes 2 user units")


# --------------------------------------------------------------------------- R04.2
def composition(ctx):
    fn, loop = parse_loop(ctx)
    ops = lambda nm: nm.startswith("pre_") or nm.startswith("post_") or nm in ("parse", "_parse")
    region = [loop] + expand_helpers(ctx.m, "Matrix", [loop], skip=ops)
    calls = [c for top in region for c in ast.walk(top) if isinstance(c, ast.Call) and isinstance(c.func, ast.Attribute)
             and isinstance(c.func.value, ast.Name) and c.func.value.id == "self" and (c.func.attr.startswith("pre_") or c.func.attr.startswith("post_"))]
    ctx.need(len(calls) >= 11, "R04.2", "Matrix.parse: too few composition calls")
    bad = [c for c in calls if not c.func.attr.startswith("pre_")]
    inplace = [a for top in region for a in ast.walk(top) if isinstance(a, ast.AugAssign) and isinstance(a.target, ast.Name) and a.target.id == "self"]
    ctx.ob("R04.2", "Matrix.parse[pre-only]", not bad and not inplace, "; ".join("%s line %d" % (c.func.attr, c.lineno) for c in bad) + "; ".join(ast.unparse(a) for a in inplace), loop.lineno,
           "a transform list applies its right-most function first: every function must be composed on the first-applied side (pre_*)")
    # pre_cat: matrix_multiply(new, self); __imatmul__: matrix_multiply(self, other)
    for qual, want in (("Matrix.pre_cat", "new,self"), ("Matrix.__imatmul__", "self,new")):
        f = ctx.fn(qual, "R04.2")
        mm = [c for c in ast.walk(f) if call_name(c) == "Matrix.matrix_multiply"]
        ctx.need(len(mm) == 1, "R04.2", "%s: matrix_multiply call not found" % qual)
        a0, a1 = (ast.unparse(a) for a in mm[0].args)
        got = ("self" if a0 == "self" else "new") + "," + ("self" if a1 == "self" else "new")
        # target order must be a..f
        asg = [s for s in ast.walk(f) if isinstance(s, ast.Assign) and s.value is mm[0]]
        tgt = [ast.unparse(t) for t in asg[0].targets[0].elts] if asg and isinstance(asg[0].targets[0], ast.Tuple) else []
        if asg and isinstance(asg[0].targets[0], ast.Name):
            # product = matrix_multiply(...); self.a = product[0]; ... : the component stored into each field, in index order
            pn = asg[0].targets[0].id
            by_index = {}
            for s2 in ast.walk(f):
                if isinstance(s2, ast.Assign) and len(s2.targets) == 1 and isinstance(s2.value, ast.Subscript) and isinstance(s2.value.value, ast.Name) and s2.value.value.id == pn \
                        and isinstance(s2.value.slice, ast.Constant) and isinstance(s2.value.slice.value, int):
                    by_index.setdefault(s2.value.slice.value, []).append(ast.unparse(s2.targets[0]))
            if sorted(by_index) == list(range(6)) and all(len(v) == 1 for v in by_index.values()):
                tgt = [by_index[i][0] for i in range(6)]
        ctx.ob("R04.2", qual, got == want and tgt == ["self.%s" % k for k in MS.F6], "multiplies (%s), stores %s" % (got, tgt), f.lineno,
               "pre-composition applies the new matrix first, post-composition last; the product is stored field by field")
    f = ctx.fn("Matrix.post_cat", "R04.2")
    ok = any(isinstance(c, ast.Call) and isinstance(c.func, ast.Attribute) and c.func.attr == "__imatmul__" and ast.unparse(c.func.value) == "self" for c in ast.walk(f)) \
        or any(isinstance(s, ast.AugAssign) and isinstance(s.op, (ast.MatMult, ast.Mult)) and ast.unparse(s.target) == "self" for s in ast.walk(f))
    ctx.ob("R04.2", "Matrix.post_cat", ok, "", f.lineno, "post_cat must be right multiplication of self")


# --------------------------------------------------------------------------- R04.3
def classify(arg, defs, params_var):
    """Kind of an argument expression: L<i>, A<i>, F<i>, *F, const."""
    if isinstance(arg, ast.Starred):
        v = arg.value
        if isinstance(v, ast.Name) and v.id in defs:
            v = defs[v.id]
        if isinstance(v, ast.Call) and isinstance(v.func, ast.Name) and v.func.id == "map" and ast.unparse(v.args[0]) == "float":
            return "*F"
        if isinstance(v, (ast.ListComp, ast.GeneratorExp)) and call_name(v.elt) == "float":
            return "*F"
        return "*?"
    if isinstance(arg, ast.Name) and arg.id in defs:
        arg = defs[arg.id]
    if isinstance(arg, ast.Constant):
        return "c%g" % arg.value

    def pidx(n):
        if isinstance(n, ast.Subscript) and isinstance(n.value, ast.Name) and (n.value.id in params_var if isinstance(params_var, (set, frozenset)) else n.value.id == params_var) and isinstance(n.slice, ast.Constant):
            return n.slice.value
        return None

    if isinstance(arg, ast.Call):
        cn = call_name(arg)
        if cn == "float" and pidx(arg.args[0]) is not None:
            return "F%d" % pidx(arg.args[0])
        if cn == "Angle.parse" and pidx(arg.args[0]) is not None:
            return "A%d" % pidx(arg.args[0])
        if isinstance(arg.func, ast.Attribute) and arg.func.attr == "value" and isinstance(arg.func.value, ast.Call) \
                and call_name(arg.func.value) == "Length" and pidx(arg.func.value.args[0]) is not None and not arg.args:
            return "L%d" % pidx(arg.func.value.args[0])
    return "?" + ast.unparse(arg)


TABLE = {
    "matrix": {("pre_cat", ("*F",))},
    "translate": {("pre_translate", ("L0", "L1")), ("pre_translate", ("L0",))},
    "translatex": {("pre_translate", ("L0", "c0"))},
    "translatey": {("pre_translate", ("c0", "L0"))},
    "scale": {("pre_scale", ("*F",))},
    "scalex": {("pre_scale", ("F0", "c1"))},
    "scaley": {("pre_scale", ("c1", "F0"))},
    "rotate": {("pre_rotate", ("A0",)), ("pre_rotate", ("A0", "L1")), ("pre_rotate", ("A0", "L1", "L2"))},
    # skew(a) = skew(a, 0) (CSS Transforms: "if the second parameter is not provided, it has a zero value"), spelled
    # pre_skew(A0, 0), which EQUIV names pre_skew_x(A0)
    "skew": {("pre_skew_x", ("A0",)), ("pre_skew", ("A0", "A1")), ("pre_skew", ("A0", "A1", "L2")), ("pre_skew", ("A0", "A1", "L2", "L3"))},
    "skewx": {("pre_skew_x", ("A0",)), ("pre_skew_x", ("A0", "L1")), ("pre_skew_x", ("A0", "L1", "L2"))},
    "skewy": {("pre_skew_y", ("A0",)), ("pre_skew_y", ("A0", "L1")), ("pre_skew_y", ("A0", "L1", "L2"))},
}
# alternative spellings that denote the same operation
EQUIV = {
    ("pre_translate_x", ("L0",)): ("pre_translate", ("L0", "c0")),
    ("pre_translate_y", ("L0",)): ("pre_translate", ("c0", "L0")),
    ("pre_scale_x", ("F0",)): ("pre_scale", ("F0", "c1")),
    ("pre_scale_y", ("F0",)): ("pre_scale", ("c1", "F0")),
    ("pre_skew", ("A0", "c0")): ("pre_skew_x", ("A0",)),
    ("pre_skew", ("c0", "A0")): ("pre_skew_y", ("A0",)),
}


def branch_ops(ctx, branches):
    fn, loop = parse_loop(ctx)
    from ..flow import Taint, regex_calls
    tokcalls = [c for c, meth, rest in regex_calls(ctx.m, loop.body, lambda p_: "deg|grad|rad|turn" in p_ or "PATTERN_TRANSFORM_UNITS" in p_ or "%" in p_) if meth in ("findall", "finditer")]
    if not tokcalls:
        tokcalls = [c for c in ast.walk(loop) if isinstance(c, ast.Call) and any(isinstance(n, ast.Name) and n.id == "REGEX_TRANSFORM_PARAMETER" for n in ast.walk(c))]
    ctx.need(tokcalls, "R04.3", "Matrix.parse: parameter tokeniser call not found")
    ptaint = Taint(loop.body, lambda n: any(n is c for c in tokcalls), through_containers=False)
    params_var = ptaint.names
    ctx.need(params_var, "R04.3", "Matrix.parse: parameter list variable not found")
    # params = [mag + units for mag, units in params]: number and unit are re-joined
    joined = any(isinstance(s, ast.Assign) and isinstance(s.targets[0], ast.Name) and s.targets[0].id in params_var and isinstance(s.value, ast.ListComp)
                 and isinstance(s.value.elt, ast.BinOp) and isinstance(s.value.elt.op, ast.Add) and ptaint.derived(s.value.generators[0].iter) for s in ast.walk(loop))
    ctx.ob("R04.3", "Matrix.parse[number+unit]", joined, "", loop.lineno, "each parameter is its number followed by its unit")
    for name in SPEC_NAMES:
        body = branches.get(name)
        if body is None:
            continue
        ops = lambda nm: nm.startswith("pre_") or nm.startswith("post_") or nm in ("parse", "_parse")
        body = list(body) + expand_helpers(ctx.m, "Matrix", body, skip=ops)
        defs = {}
        for s in stmts_in(body):
            if isinstance(s, ast.Assign) and isinstance(s.targets[0], ast.Name):
                defs[s.targets[0].id] = s.value
        calls = [c for c in (n for s in body for n in ast.walk(s)) if isinstance(c, ast.Call) and isinstance(c.func, ast.Attribute)
                 and isinstance(c.func.value, ast.Name) and c.func.value.id == "self" and ops(c.func.attr)]
        got = set()
        for c in calls:
            sig = (c.func.attr, tuple(classify(a, defs, params_var) for a in c.args))
            sig = EQUIV.get(sig, sig)
            got.add(sig)
            if c.keywords:
                got.add(("keywords", ()))
        want = TABLE[name]
        extra = got - want
        missing = want - got
        # the one-argument translate form is optional sugar (pre_translate(x) == pre_translate(x, 0) by default value)
        ctx.ob("R04.3", "Matrix.parse[%s]" % name, not extra and not missing,
               "calls %s; expected %s" % (sorted(got), sorted(want)), body[0].lineno,
               "transform function composes a different operation / argument kind / argument position than SVG 1.1 7.6 / CSS Transforms define")
        for sig in sorted(want & got):
            ctx.ob("R04.3", "Matrix.parse[%s]:%s%s" % (name, sig[0], list(sig[1])), True, "", body[0].lineno)
    # optional-argument variants are selected by IndexError on the parameter list (or a length test)
    n_try = sum(1 for s in ast.walk(loop) if isinstance(s, ast.Try))
    n_len = sum(1 for s in ast.walk(loop) if isinstance(s, ast.Call) and isinstance(s.func, ast.Name) and s.func.id == "len")
    ctx.note("optional arguments selected by %d try/except IndexError blocks and %d len() tests" % (n_try, n_len))


# --------------------------------------------------------------------------- R04.4
def self_calls(body):
    out = []
    for s in body:
        if isinstance(s, ast.Expr) and isinstance(s.value, ast.Call) and isinstance(s.value.func, ast.Attribute) and isinstance(s.value.func.value, ast.Name):
            c = s.value
            out.append((c.func.value.id, c.func.attr, [ast.unparse(a) for a in c.args], s))
        elif isinstance(s, ast.Assign) and isinstance(s.value, ast.Call) and call_name(s.value) == "Matrix" and not s.value.args:
            out.append(("=Matrix()", s.targets[0].id, [], s))
        else:
            out.append(("?", ast.unparse(s), [], s))
    return out


def normalise_seq(seq, side):
    """Reduce a statement list to [(op, args)] relative to self; a fresh local matrix that is composed onto self with
    <side>_cat at the end counts as self (associativity)."""
    local = None
    out = []
    for recv, meth, args, s in seq:
        if recv == "=Matrix()":
            local = meth
            continue
        if recv == "?":
            return None
        if recv == "self" and local is not None and meth == side + "_cat" and args == [local]:
            continue
        if recv not in ("self", local):
            return None
        if not meth.startswith(side + "_"):
            out.append(("WRONGSIDE:" + meth, args))
            continue
        op = meth[len(side) + 1:]
        if op == "cat" and len(args) == 1 and args[0].startswith("Matrix."):
            # post_cat(Matrix.rotate(angle)) == post_rotate(angle)
            inner = ast.parse(args[0], mode="eval").body
            op = inner.func.attr
            args = [ast.unparse(a) for a in inner.args]
        out.append((op, args))
    return out


def neg(s):
    s = s.strip()
    return s[1:] if s.startswith("-") else "-" + s


def composed_ops(ctx, qual, fn, side, centre_zero):
    """Operations composed onto self, in order, when the centre is / is not the origin: [(op, [RF args])] or None"""
    params = [a.arg for a in fn.args.args][1:]
    cx, cy = params[-2:]
    seq = []
    local = []
    zero = centre_zero if isinstance(centre_zero, tuple) else (centre_zero, centre_zero)  # (cx is zero?, cy is zero?)

    def oracle(pe, test):
        if isinstance(test, ast.Compare) and len(test.ops) == 1 and isinstance(test.ops[0], (ast.Eq, ast.NotEq)):
            l, r = pe.ev(test.left), pe.ev(test.comparators[0])
            for a_, b_ in ((l, r), (r, l)):
                if isinstance(a_, RF) and isinstance(b_, RF) and b_.is_const() and b_.constval() == 0 and (a_ == atom(cx) or a_ == atom(cy)):
                    z = zero[0] if a_ == atom(cx) else zero[1]
                    return z if isinstance(test.ops[0], ast.Eq) else not z
        if isinstance(test, ast.Name) and test.id in (cx, cy):
            return not (zero[0] if test.id == cx else zero[1])
        return None

    def on_expr(pe, st):
        c = st.value
        if isinstance(c, ast.Call) and isinstance(c.func, ast.Attribute) and isinstance(c.func.value, ast.Name):
            recv, meth = c.func.value.id, c.func.attr
            if recv == "self" and local and meth == side + "_cat" and len(c.args) == 1 and isinstance(c.args[0], ast.Name) and c.args[0].id in local:
                return
            if recv == "self" or recv in local:
                if not meth.startswith(side + "_"):
                    seq.append(("WRONGSIDE:" + meth, []))
                    return
                op = meth[len(side) + 1:]
                args = c.args
                if op == "cat" and len(args) == 1 and isinstance(args[0], ast.Call) and isinstance(args[0].func, ast.Attribute) and attr_chain(args[0].func) and attr_chain(args[0].func)[0] == "Matrix":
                    op = args[0].func.attr
                    args = args[0].args
                seq.append((op, [pe.ev(a_) for a_ in args]))
                return
        seq.append(("?", [ast.unparse(st)[:40]]))

    def hook(pe, call):
        if call_name(call) == "Matrix" and not call.args:
            return K("fresh-matrix")
        return None

    pe = PE(ctx.m, "R04.4", qual, oracle=oracle, call_hook=hook, on_expr=on_expr)
    for pn in params:
        pe.bind(pn, atom(pn))
    body = [x for x in fn.body if not (isinstance(x, ast.Expr) and isinstance(x.value, ast.Constant))]
    # a fresh local matrix composed onto self at the end counts as self (associativity)
    for x in ast.walk(fn):
        if isinstance(x, ast.Assign) and isinstance(x.targets[0], ast.Name) and call_name(x.value) == "Matrix" and not x.value.args:
            local.append(x.targets[0].id)
    pe.run(body)
    return seq, params


def sandwiches(ctx, only=None, rule="R04.4"):
    for side in ("pre", "post"):
        for op in ("scale", "rotate", "skew"):
            if only is not None and (side, op) not in only:
                continue
            qual = "Matrix.%s_%s" % (side, op)
            fn = ctx.fn(qual, rule)
            pseq, params = composed_ops(ctx, qual, fn, side, True)
            lead = [atom(pn) for pn in params[:len(params) - 2]]
            cx, cy = atom(params[-2]), atom(params[-1])

            def same(xs, ys):
                return len(xs) == len(ys) and all(isinstance(x, RF) and x == y for x, y in zip(xs, ys))

            ok_plain = len(pseq) == 1 and pseq[0][0] == op and same(pseq[0][1], lead)
            ctx.ob(rule, qual + "[origin]", ok_plain, str([(o, [str(a) for a in ar]) for o, ar in pseq]), fn.lineno, "without a centre the elementary matrix is composed directly")
            cseq, _ = composed_ops(ctx, qual, fn, side, False)
            # pre (first-applied side): translate(+c) ; op ; translate(-c).  post (last-applied side): translate(-c); op; translate(+c)
            first_sign = [cx, cy] if side == "pre" else [-cx, -cy]
            last_sign = [-cx, -cy] if side == "pre" else [cx, cy]
            ok = len(cseq) == 3 and cseq[0][0] == "translate" and same(cseq[0][1], first_sign) and cseq[2][0] == "translate" and same(cseq[2][1], last_sign) \
                and cseq[1][0] == op and same(cseq[1][1], lead)
            ctx.ob(rule, qual + "[centred]", ok, str([(o, [str(a) for a in ar]) for o, ar in cseq]), fn.lineno,
                   "centred operation must be translate(c) . op . translate(-c) as seen by a point, composed on the %s side" % side)
            # a centre on one coordinate axis is still a centre: only (0, 0) may take the short cut
            for zz, tag in (((True, False), "centre on the y axis"), ((False, True), "centre on the x axis")):
                mseq, _ = composed_ops(ctx, qual, fn, side, zz)
                okm = len(mseq) == 3 and mseq[0][0] == "translate" and same(mseq[0][1], first_sign) and mseq[2][0] == "translate" and same(mseq[2][1], last_sign) \
                    and mseq[1][0] == op and same(mseq[1][1], lead)
                ctx.ob(rule, qual + "[%s]" % tag, okm, str([(o, [str(a) for a in ar]) for o, ar in mseq]), fn.lineno,
                       "with one centre coordinate 0 and the other not, the operation is still about that centre: a test like `not (x and y)` takes the origin short cut too often")
        if only is not None:
            continue
        # axis variants delegate with the neutral element
        for op, neutral, order in (("scale_x", "1", 0), ("scale_y", "1", 1), ("skew_x", "0", 0), ("skew_y", "0", 1), ("translate_x", "0", 0), ("translate_y", "0", 1)):
            qual = "Matrix.%s_%s" % (side, op)
            fn = ctx.fn(qual, rule)
            params = [a.arg for a in fn.args.args][1:]
            seq = self_calls([s for s in fn.body if not (isinstance(s, ast.Expr) and isinstance(s.value, ast.Constant))])
            base = op.split("_")[0]
            ok = False
            detail = str([(r, mth, a) for r, mth, a, _ in seq])
            if len(seq) == 1 and seq[0][0] == "self" and seq[0][1] == "%s_%s" % (side, base):
                args = seq[0][2]
                want2 = [params[0], None]
                if order == 1:
                    want2 = [None, params[0]]
                if len(args) >= 2:
                    a_own = args[order]
                    a_neu = args[1 - order]
                    try:
                        neu_ok = float(a_neu) == float(neutral)
                    except ValueError:
                        neu_ok = False
                    ok = a_own == params[0] and neu_ok and args[2:] == params[1:]
            ctx.ob(rule, qual, ok, detail, fn.lineno, "axis variant must delegate with its own argument in its slot and the neutral element in the other")


# --------------------------------------------------------------------------- R04.5
def formulas(ctx):
    A, Bm = MS.sym_matrix("A"), MS.sym_matrix("B")
    x, y = atom("x"), atom("y")
    mul = MS.multiply_formula(ctx, "R04.5")
    app = MS.point_formula(ctx, "R04.5")
    # point application is the SVG definition
    got = app(A, x, y)
    want = MS.ref_apply(A, x, y)
    for i, nm in enumerate("xy"):
        ctx.ob("R04.5", "Matrix.point_in_matrix_space[%s]" % nm, got[i] == want[i], "%s vs %s" % (got[i], want[i]), ctx.fn("Matrix.point_in_matrix_space").lineno,
               "point image differs from SVG 1.1 7.4 (x' = a x + c y + e, y' = b x + d y + f)")
    for qual in ("Matrix.transform_point",):
        g2 = MS.point_formula(ctx, "R04.5", qual)(A, x, y)
        for i, nm in enumerate("xy"):
            ctx.ob("R04.5", "%s[%s]" % (qual, nm), g2[i] == want[i], str(g2[i]), ctx.fn(qual).lineno, "in-place point image differs from the SVG definition")
    # product: matrix_multiply(m, s) is 'm then s'
    prod = mul(A, Bm)
    wantp = MS.ref_compose(A, Bm)
    for i, k in enumerate(MS.F6):
        ctx.ob("R04.5", "Matrix.matrix_multiply[%s]" % k, prod[i] == wantp[i], "%s vs %s" % (prod[i], wantp[i]), ctx.fn("Matrix.matrix_multiply").lineno,
               "product component differs from the composition 'first operand, then second operand'")
    # derived identity on the implemented formulas: p*(A*B) == (p*A)*B
    pa = app(A, x, y)
    lhs = app(Bm, pa[0], pa[1])
    rhs = app(prod, x, y)
    for i, nm in enumerate("xy"):
        ctx.ob("R04.5", "identity p*(A*B)=(p*A)*B [%s]" % nm, lhs[i] == rhs[i], "", 0, "matrix composition disagrees with point application")
    # identity is neutral (identity taken from the constructor defaults)
    posmap, seqmap, defaults = MS.ctor_fields(ctx, "R04.5")
    ctx.ob("R04.5", "Matrix.__init__[positional order]", posmap == list(MS.F6) and seqmap == list(MS.F6), "%s / %s" % (posmap, seqmap), ctx.fn("Matrix.__init__").lineno,
           "Matrix(a, b, c, d, e, f) must store its components in SVG order")
    I = [const(int(defaults[k])) if float(defaults[k]).is_integer() else const(defaults[k]) for k in MS.F6]
    ctx.ob("R04.5", "Matrix.__init__[identity default]", MS.eq6(I, MS.IDENT), str(defaults), ctx.fn("Matrix.__init__").lineno, "Matrix() must be the identity")
    for nm, p in (("I*A", mul(I, A)), ("A*I", mul(A, I))):
        ctx.ob("R04.5", "identity neutral [%s]" % nm, MS.eq6(p, A), "", 0, "identity is not neutral under the implemented product")
    rs = ctx.fn("Matrix.reset", "R04.5")
    rvals = {s.targets[0].attr: s.value.value for s in rs.body if isinstance(s, ast.Assign) and isinstance(s.value, ast.Constant)}
    ctx.ob("R04.5", "Matrix.reset", all(float(rvals.get(k, -9)) == float(d) for k, d in zip(MS.F6, (1, 0, 0, 1, 0, 0))), str(rvals), rs.lineno, "reset must produce the identity")
    identity_test(ctx, "R04.5")
    # inverse: two-sided, as identities of the implemented formulas
    inv = MS.inverse_formula(ctx, "R04.5")(A)
    for nm, p in (("A*~A", mul(A, inv)), ("~A*A", mul(inv, A))):
        ctx.ob("R04.5", "inverse two-sided [%s]" % nm, MS.eq6(p, MS.IDENT), "; ".join(str(c) for c in p), ctx.fn("Matrix.inverse").lineno,
               "~M is not the inverse of M under the implemented product")
    det = ctx.fn("Matrix.determinant", "R04.5")
    ret = [s for s in det.body if isinstance(s, ast.Return)][0]
    dgot = Alg(atom_map={"self.%s" % k: v for k, v in zip(MS.F6, A)}).ev(ret.value)
    ctx.ob("R04.5", "Matrix.determinant", dgot == A[0] * A[3] - A[1] * A[2], str(dgot), det.lineno, "determinant is a d - b c")
    # elementary matrices
    sx, sy, tx, ty, th, aa, bb = (atom(n) for n in ("sx", "sy", "tx", "ty", "th", "aa", "bb"))
    c0, c1 = const(0), const(1)
    cos, sin = atom("cos(th)"), atom("sin(th)")
    elem = [
        ("scale", [sx, sy], [sx, c0, c0, sy, c0, c0]),
        ("scale", [sx, None], [sx, c0, c0, sx, c0, c0]),
        ("scale_x", [sx], [sx, c0, c0, c1, c0, c0]),
        ("scale_y", [sy], [c1, c0, c0, sy, c0, c0]),
        ("translate", [tx, ty], [c1, c0, c0, c1, tx, ty]),
        ("translate_x", [tx], [c1, c0, c0, c1, tx, c0]),
        ("translate_y", [ty], [c1, c0, c0, c1, c0, ty]),
        ("rotate", [th], [cos, sin, -sin, cos, c0, c0]),
        ("skew", [aa, bb], [c1, atom("tan(bb)"), atom("tan(aa)"), c1, c0, c0]),
        ("skew_x", [aa], [c1, ref("tan(0)"), atom("tan(aa)"), c1, c0, c0]),
        ("skew_y", [bb], [c1, atom("tan(bb)"), ref("tan(0)"), c1, c0, c0]),
    ]
    for name, params, want in elem:
        got = MS.elementary(ctx, "R04.5", name, params)
        ctx.ob("R04.5", "Matrix.%s(%s)" % (name, ",".join("None" if p is None else str(p) for p in params)), MS.eq6(got, want),
               "%s vs %s" % ([str(g) for g in got], [str(w) for w in want]), ctx.fn("Matrix.%s" % name).lineno,
               "elementary matrix differs from SVG 1.1 7.6 / CSS Transforms")


# --------------------------------------------------------------------------- R04.6
def angle_units(ctx):
    fn = ctx.fn("Angle.parse", "R04.6")
    sv = fn.args.args[1].arg
    body = [s for s in fn.body if not (isinstance(s, ast.Expr) and isinstance(s.value, ast.Constant))]
    lowered = any(isinstance(s, ast.Assign) and isinstance(s.targets[0], ast.Name) and s.targets[0].id == sv and "lower()" in ast.unparse(s.value) for s in body)
    ctx.ob("R04.6", "Angle.parse[case folding]", lowered, "", fn.lineno, "unit suffixes match in any letter case only after lower-casing")
    order = []
    for s in body:
        if isinstance(s, ast.If) and isinstance(s.test, ast.Call) and isinstance(s.test.func, ast.Attribute) and s.test.func.attr == "endswith":
            suffix = ast.literal_eval(s.test.args[0])
            ret = [r for r in s.body if isinstance(r, ast.Return)]
            ctx.need(ret, "R04.6", "Angle.parse: suffix branch without return")
            order.append((suffix, ret[0].value, s.lineno))
    want = {"deg": "degrees", "grad": "gradians", "rad": "radians", "turn": "turns"}
    seen = []
    for suffix, val, line in order:
        shadow = [p for p in seen if suffix.endswith(p)]
        ctx.ob("R04.6", "Angle.parse[%s]#order" % suffix, not shadow, "earlier suffix %s" % shadow, line,
               "an earlier suffix test subsumes this one (e.g. 'rad' before 'grad'): the branch is unreachable")
        seen.append(suffix)
        if suffix in want:
            cn = call_name(val)
            ok = cn == "Angle.%s" % want[suffix]
            # float(angle_string[:-len(suffix)])
            sl = None
            for n in ast.walk(val):
                if isinstance(n, ast.Subscript) and isinstance(n.slice, ast.Slice) and n.slice.upper is not None:
                    sl = ast.literal_eval(n.slice.upper)
            ctx.ob("R04.6", "Angle.parse[%s]" % suffix, ok and sl == -len(suffix), "%s" % ast.unparse(val), line,
                   "suffix must select its own unit constructor and strip exactly the suffix")
    for suffix in want:
        ctx.ob("R04.6", "Angle.parse[%s]#present" % suffix, suffix in seen, "", fn.lineno, "angle unit has no branch")
    last = body[-1]
    ctx.ob("R04.6", "Angle.parse[unitless]", isinstance(last, ast.Return) and call_name(last.value) == "Angle.degrees", ast.unparse(last), last.lineno,
           "a unitless angle is in degrees")
    consts = {"degrees": "2*pi*x/360", "gradians": "2*pi*x/400", "turns": "2*pi*x", "radians": "x"}
    for k, text in consts.items():
        f = ctx.fn("Angle.%s" % k, "R04.6")
        ret = [s for s in f.body if isinstance(s, ast.Return)][0]
        arg = ret.value.args[0] if isinstance(ret.value, ast.Call) else ret.value
        got = Alg(atom_map={f.args.args[1].arg: "x"}).ev(arg)
        ctx.ob("R04.6", "Angle.%s" % k, got == ref(text), "%s vs %s" % (got, text), f.lineno, "angle unit constant")


# --------------------------------------------------------------------------- R04.7
def routing(ctx):
    cls = ctx.m.cls("Matrix", "R04.7")
    al = cls.aliases
    ctx.ob("R04.7", "Matrix[operator aliases]", al.get("__mul__") == "__matmul__" and al.get("__rmul__") == "__rmatmul__" and al.get("__imul__") == "__imatmul__",
           str({k: al.get(k) for k in ("__mul__", "__rmul__", "__imul__")}), cls.node.lineno, "* and @ must be the same product")
    f = ctx.fn("Matrix.__matmul__", "R04.7")
    src = [ast.unparse(s) for s in f.body]
    ok = any("copy(self)" in s or "self.__copy__()" in s or "Matrix(self)" in s for s in src) and any("__imatmul__(other)" in s or "@= other" in s or "*= other" in s for s in src) \
        and src[-1].startswith("return") and not src[-1].endswith("self")
    ctx.ob("R04.7", "Matrix.__matmul__", ok, "; ".join(src), f.lineno, "A @ B = copy(A) then right-multiply by B")
    f = ctx.fn("Matrix.__rmatmul__", "R04.7")
    src = [ast.unparse(s) for s in f.body]
    ok = any("copy(other)" in s or "Matrix(other)" in s for s in src) and any("__imatmul__(self)" in s or "@= self" in s or "*= self" in s for s in src)
    ctx.ob("R04.7", "Matrix.__rmatmul__", ok, "; ".join(src), f.lineno, "B @ A with reflected operands = copy(B) then right-multiply by A")
    f = ctx.fn("Matrix.__invert__", "R04.7")
    src = [ast.unparse(s) for s in f.body]
    ok = any("__copy__()" in s or "copy(self)" in s or "Matrix(self)" in s for s in src) and "inverse()" in src[-1] and "self.inverse" not in src[-1]
    ctx.ob("R04.7", "Matrix.__invert__", ok, "; ".join(src), f.lineno, "~M inverts a copy")
    for qual in ("Point.__mul__", "Point.__imul__"):
        f = ctx.fn(qual, "R04.7")
        ok = False
        for s in f.body:
            if isinstance(s, ast.If) and "isinstance(other, Matrix)" in ast.unparse(s.test):
                ok = any(isinstance(c, ast.Call) and isinstance(c.func, ast.Attribute) and c.func.attr == "point_in_matrix_space"
                         and ast.unparse(c.func.value) == "other" and ast.unparse(c.args[0]) == "self" for c in ast.walk(s))
        ctx.ob("R04.7", qual, ok, "", f.lineno, "point * matrix must be the matrix applied to the point")


def identity_test(ctx, rule="R04.5"):
    """Matrix.is_identity compares each of the six entries with the identity's: spelled out (self.a == 1 and ...), or as
    all(v == i for v, i in zip(<the six entries>, <six constants>)) - zip stops at the shorter operand, so a five-entry
    reference silently leaves f untested."""
    ii = ctx.fn("Matrix.is_identity", rule)
    cmp = {}
    for c in ast.walk(ii):
        if isinstance(c, ast.Compare) and isinstance(c.left, ast.Attribute) and isinstance(c.ops[0], ast.Eq) and isinstance(c.comparators[0], ast.Constant):
            cmp[c.left.attr] = c.comparators[0].value
    if not cmp:
        for c in ast.walk(ii):
            if isinstance(c, ast.Call) and isinstance(c.func, ast.Name) and c.func.id == "all" and len(c.args) == 1 and isinstance(c.args[0], (ast.GeneratorExp, ast.ListComp)) \
                    and len(c.args[0].generators) == 1 and not c.args[0].generators[0].ifs:
                g = c.args[0].generators[0]
                e = c.args[0].elt
                z = g.iter
                if isinstance(z, ast.Call) and isinstance(z.func, ast.Name) and z.func.id == "zip" and len(z.args) == 2 and isinstance(g.target, ast.Tuple) and len(g.target.elts) == 2 \
                        and isinstance(e, ast.Compare) and len(e.ops) == 1 and isinstance(e.ops[0], ast.Eq) \
                        and {ast.unparse(e.left), ast.unparse(e.comparators[0])} == {ast.unparse(t) for t in g.target.elts}:
                    a, b = z.args
                    if isinstance(a, (ast.Tuple, ast.List)) and all(isinstance(x, ast.Constant) for x in a.elts):
                        a, b = b, a
                    if isinstance(b, (ast.Tuple, ast.List)) and all(isinstance(x, ast.Constant) for x in b.elts):
                        if isinstance(a, ast.Name) and a.id == "self":
                            order = MS.ctor_fields(ctx, rule)[1]  # the order in which a matrix unpacks / is indexed
                            names = list(order)
                        elif isinstance(a, (ast.Tuple, ast.List)):
                            names = [x.attr if isinstance(x, ast.Attribute) else None for x in a.elts]
                        else:
                            names = []
                        for nm, k in zip(names, b.elts):  # zip: the shorter one decides
                            if nm is not None:
                                cmp[nm] = k.value
    ctx.ob(rule, "Matrix.is_identity", all(float(cmp.get(k, -9)) == float(d) for k, d in zip(MS.F6, (1, 0, 0, 1, 0, 0))), str(cmp), ii.lineno,
           "is_identity must compare all six entries with (1, 0, 0, 1, 0, 0): an entry left out makes a non-identity matrix count as the identity, and every decomposition that asks `is_identity()` before applying the transform drops it")


def render_translations(ctx):
    """Lengths in a transform string are resolved when the matrix is rendered.  Matrix.render is followed for the four
    combinations (e is a Length?, f is a Length?): exactly the entries that are lengths are re-assigned from their own
    .value(...), e with the viewport width (else relative_length) as its reference and f with the height, the rest of the
    context passed slot by slot, and the matrix is returned."""
    from ..typedispatch import follow

    fn = ctx.fn("Matrix.render", "R04.11")
    params = [a.arg for a in fn.args.args]
    from ..flow import bindings as _bindings

    binds = {}
    for tg, v, n_ in _bindings(fn):
        if isinstance(tg, ast.Name):
            binds.setdefault(tg.id, []).append(v)

    def refers_to(name, dim, depth=0):
        """the reference is the viewport dimension `dim`, possibly through locals, each of which is only ever bound to the
        dimension (or a local standing for it) or to relative_length (the fallback)"""
        if name == dim:
            return all(isinstance(v, ast.Name) and v.id == "relative_length" for v in binds.get(name, []))
        vals = binds.get(name, [])
        if not vals or depth > 3 or name in params:
            return False
        main = [v for v in vals if not (isinstance(v, ast.Name) and v.id == "relative_length")]
        return bool(main) and all(isinstance(v, ast.Name) and refers_to(v.id, dim, depth + 1) for v in main)
    for e_len in (True, False):
        for f_len in (True, False):
            def extra(t, e_len=e_len, f_len=f_len):
                if isinstance(t, ast.Call) and isinstance(t.func, ast.Name) and t.func.id == "isinstance" and len(t.args) == 2 and attr_chain(t.args[0]) in (["self", "e"], ["self", "f"]):
                    names = {x.id for x in (t.args[1].elts if isinstance(t.args[1], ast.Tuple) else [t.args[1]]) if isinstance(x, ast.Name)}
                    is_len = e_len if attr_chain(t.args[0])[1] == "e" else f_len
                    if names == {"Length"}:
                        return is_len
                    if names and names <= {"int", "float"}:
                        return not is_len
                return None

            pth = follow(ctx, "R04.11", fn, {}, extra=extra)
            cons = "Matrix.render[e %s, f %s]" % ("a length" if e_len else "a number", "a length" if f_len else "a number")
            stores = {}
            for st in pth.stmts:
                for n in ast.walk(st):
                    if isinstance(n, ast.Assign) and len(n.targets) == 1 and attr_chain(n.targets[0]) in (["self", "e"], ["self", "f"]):
                        stores.setdefault(attr_chain(n.targets[0])[1], []).append(n)
            ok = pth.exit == "return" and isinstance(pth.value, ast.Name) and pth.value.id == "self"
            detail = []
            for fld, is_len, dim in (("e", e_len, "width"), ("f", f_len, "height")):
                got = stores.get(fld, [])
                if not is_len:
                    ok = ok and not got
                    detail.append("%s %s" % (fld, "left alone" if not got else "re-assigned"))
                    continue
                good = False
                for a in got:
                    v = a.value
                    if isinstance(v, ast.Call) and isinstance(v.func, ast.Attribute) and v.func.attr == "value" and attr_chain(v.func.value) == ["self", fld]:
                        kw = {k.arg: k.value for k in v.keywords if k.arg}
                        ref = kw.get("relative_length")
                        plumb = all(isinstance(kw.get(p_), ast.Name) and kw[p_].id == p_ for p_ in ("ppi", "font_size", "font_height", "viewbox") if p_ in params)
                        good = isinstance(ref, ast.Name) and refers_to(ref.id, dim) and plumb
                detail.append("%s %s" % (fld, "resolved against %s" % dim if good else "not resolved (or against the wrong reference)"))
                ok = ok and good and len(got) == 1
            ctx.ob("R04.11", cons, ok, "; ".join(detail) + "; exit %s" % pth.exit, fn.lineno,
                   "an entry that is a Length must be resolved whatever the other entry is: translate(0, 1in) has a plain e and a unit-bearing f")
    # the fallback of the reference: width <- relative_length only when width is missing (same for height)
    for dim in ("width", "height"):
        fb = [st for st in ast.walk(fn) if isinstance(st, ast.Assign) and len(st.targets) == 1 and isinstance(st.targets[0], ast.Name) and st.targets[0].id == dim]
        ok = all(isinstance(st.value, ast.Name) and st.value.id == "relative_length" for st in fb)
        ctx.ob("R04.11", "Matrix.render[%s fallback]" % dim, ok, "; ".join(ast.unparse(st) for st in fb) or "none (the fallback works on a local standing for it)", fn.lineno,
               "a missing %s falls back to relative_length, nothing else" % dim)


def inverse_rule(ctx, rule):
    """~A is the two-sided inverse of A under the implemented product (identities of the implemented formulas)."""
    A = MS.sym_matrix("A")
    mul = MS.multiply_formula(ctx, rule)
    inv = MS.inverse_formula(ctx, rule)(A)
    for nm, p in (("A*~A", mul(A, inv)), ("~A*A", mul(inv, A))):
        ctx.ob(rule, "inverse two-sided [%s]" % nm, MS.eq6(p, MS.IDENT), "; ".join(str(c) for c in p)[:200], ctx.fn("Matrix.inverse").lineno,
               "the implemented inverse is not the inverse of the implemented product: what the writer divides out is not what the reader multiplies in")
