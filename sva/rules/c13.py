"""C13 - colour spellings denote their CSS/SVG RGBA values; accessors are consistent."""
import ast
import os

from .. import bits as B
from .. import rx
from ..model import AnalysisError, attr_chain, call_name, if_chain, stmts_in
from ..report import VERIF

EXPLANATION = (
    "Static rules over Color (no execution). R13.1: the keyword if-chain of parse_color_lookup is read with "
    "first-match semantics and compared, keyword by keyword, with the 147 SVG colour keywords + transparent "
    "(spec/css_colors.txt, independently transcribed and cross-checked against a third-party table); shadowed "
    "duplicate branches are reported; the lower-casing must precede the chain. R13.2: hex digit layouts per length "
    "(3/4/6/8) by abstract evaluation of the string-building expressions over symbolic digits; radix 16. R13.3: the "
    "bit layout of red/green/blue/alpha getters and setters and of the rgb/bgr/argb/rgba packings, evaluated over "
    "symbolic 32-bit words (shift/mask/or only): getter field = setter field = rgb_to_int field, fields disjoint and "
    "covering 32 bits, packings mutually inverse, hex writer order = hex reader order. R13.4: write-sets: a channel "
    "setter changes only its own bits; a setter that rebuilds the whole word from HSL must carry alpha over. R13.5: a "
    "regex group whose language admits a fraction/exponent must not be converted with int(). R13.6: angle-unit typing "
    "of hue between getter, hsl tuple, setters and hsl_to_int. R13.7: clamps (crimp 0..255, opacity 0..1, percent "
    "ratio 255/100). R13.8: hue wraps modulo a full turn before the single-wrap helper. R13.9: routing of Color.parse. "
    "Not decided: the HSL<->RGB float formulas and rounding."
    ' R13.7 also bounds the saturation and lightness that parse_color_hsl hands to the conversion: the range of'
    ' each (last assignment, min()/max() against constants, comparison clamps, division by a positive constant)'
    ' must be exactly [0, 1].'
    ' R13.6 also compares the three branch formulas of the hue getter symbolically (min/max opaque) with'
    ' (g-b)/6D, 1/3 + (b-r)/6D and 2/3 + (r-g)/6D for the largest channel red, green, blue: the h/s/l setters'
    ' read the colour back through this getter.'
    ' R13.6 also requires every division of the saturation getter to be dominated by max != min (the achromatic'
    ' exit): 2 - max - min is 0 for white.'
)
TECHNIQUE = (
    "static analysis (no execution): 147-keyword if-chain vs CSS table incl. shadowing; hex layouts by partial evaluation on marker strings; channel bit-field layouts evaluated symbolically; regex-vs-converter language inclusion"
)
ASSUMPTIONS = [
    "spec/css_colors.txt is the oracle for keyword values (SVG 1.1 section 4.4).",
    "Channel arguments are treated as 8-bit values after Color.crimp (clamping itself is checked separately in R13.7).",
    "rgb/bgr setters force alpha to 0xFF by design (packings without an alpha field); this is not reported.",
    "HSL<->RGB float conversion formulas are not decided.",
]
EXHAUSTIVE = True
FLOORS = {"R13.1": 148, "R13.2": 4, "R13.3": 20, "R13.4": 5, "R13.5": 8, "R13.6": 4, "R13.7": 5}


def load_spec():
    spec = {}
    for l in open(os.path.join(VERIF, "spec", "css_colors.txt")):
        if l.startswith("#") or not l.strip():
            continue
        n, v = l.split()
        spec[n] = tuple(int(x) for x in v.split(","))
    if len(spec) != 147:
        raise AnalysisError("R13.1", "oracle has %d keywords, expected 147" % len(spec))
    return spec


def run(ctx):
    ctx.rule("R13.1", "keyword table vs SVG colour keywords, first-match, shadowing")
    ctx.rule("R13.2", "hex digit layout per length, radix")
    ctx.rule("R13.3", "channel/packing bit layout agreement")
    ctx.rule("R13.4", "setter write-sets")
    ctx.rule("R13.5", "regex group language vs converter grammar")
    ctx.rule("R13.6", "angle unit typing of hue")
    ctx.rule("R13.7", "clamps and ratios")
    ctx.rule("R13.8", "hue modulo a full turn")
    ctx.rule("R13.9", "Color.parse routing")
    keywords(ctx)
    hexlayout(ctx)
    layout(ctx)
    hsl_writeset(ctx)
    hsl_percent_range(ctx)
    hue_formula(ctx)
    saturation_guard(ctx)
    converters(ctx)
    hue_units(ctx)
    clamps(ctx)
    hue_modulo(ctx)
    routing(ctx)


# ----------------------------------------------------------------------------- R13.1
def keywords(ctx):
    fn = ctx.fn("Color.parse_color_lookup", "R13.1")
    spec = load_spec()
    subject = fn.args.args[0].arg
    table = {}
    order = []
    lowered_at = None
    first_branch_line = None
    for s in stmts_in(fn.body):
        if isinstance(s, ast.Assign) and len(s.targets) == 1 and isinstance(s.targets[0], ast.Name) and s.targets[0].id == subject:
            if any(isinstance(c, ast.Call) and isinstance(c.func, ast.Attribute) and c.func.attr in ("lower", "casefold") for c in ast.walk(s.value)):
                lowered_at = s.lineno
        if isinstance(s, ast.If) and isinstance(s.test, ast.Compare) and len(s.test.ops) == 1 and isinstance(s.test.ops[0], ast.Eq):
            l, r = s.test.left, s.test.comparators[0]
            if isinstance(l, ast.Name) and l.id == subject and isinstance(r, ast.Constant) and isinstance(r.value, str):
                key = r.value
                if first_branch_line is None:
                    first_branch_line = s.lineno
                if not (len(s.body) == 1 and isinstance(s.body[0], ast.Return) and call_name(s.body[0].value) == "Color.rgb_to_int"):
                    raise AnalysisError("R13.1", "branch for %r is not `return Color.rgb_to_int(...)` (line %d)" % (key, s.lineno))
                call = s.body[0].value
                try:
                    args = [ast.literal_eval(a) for a in call.args]
                    kw = {k.arg: ast.literal_eval(k.value) for k in call.keywords}
                except ValueError:
                    raise AnalysisError("R13.1", "non-literal channel for %r (line %d)" % (key, s.lineno))
                if "opacity" in kw:
                    args = args[:3] + [kw["opacity"]]
                order.append((key, tuple(args), s.lineno))
    # dictionary form (benign refactoring): {"name": (r, g, b)} or {"name": Color.rgb_to_int(...)}
    if not order:
        raise AnalysisError("R13.1", "keyword table not found as an if-chain on %s" % subject)
    ctx.ob("R13.1", "parse_color_lookup[lower-casing]", lowered_at is not None and lowered_at < first_branch_line,
           "lowered at line %s, first branch line %s" % (lowered_at, first_branch_line), first_branch_line,
           "keywords are case-insensitive: the subject must be lower-cased before the table")
    for key, args, line in order:
        if key in table:
            ctx.ob("R13.1", "parse_color_lookup[%s]#dup" % key, False,
                   "first branch line %d gives %s; later branch line %d gives %s is unreachable" % (table[key][1], table[key][0], line, args),
                   line, "duplicate keyword branch: the later branch is shadowed")
            continue
        table[key] = (args, line)
    for key in sorted(spec):
        if key not in table:
            ctx.ob("R13.1", "parse_color_lookup[%s]" % key, False, "keyword missing", fn.lineno, "SVG colour keyword has no branch")
            continue
        args, line = table[key]
        rgb = tuple(args[:3])
        opaque = len(args) == 3 or args[3] in (1, 1.0)
        ctx.ob("R13.1", "parse_color_lookup[%s]" % key, rgb == spec[key] and opaque,
               "code %s, specification %s" % (args, spec[key]), line, "keyword denotes a different colour than SVG 1.1 section 4.4 assigns")
    if "transparent" in table:
        args, line = table["transparent"]
        ctx.ob("R13.1", "parse_color_lookup[transparent]", tuple(args) in ((0, 0, 0, 0), (0, 0, 0, 0.0)), str(args), line,
               "transparent is rgba(0,0,0,0)")
    else:
        ctx.ob("R13.1", "parse_color_lookup[transparent]", False, "missing", fn.lineno, "transparent has no branch")
    extra = sorted(set(table) - set(spec) - {"transparent"})
    if extra:
        ctx.note("keywords beyond SVG 1.1 (not judged): %s" % extra)


# ----------------------------------------------------------------------------- R13.2
def _strsym(node, env):
    """Abstract string value: list of symbols ('d', i) or literal characters."""
    if isinstance(node, ast.Constant) and isinstance(node.value, str):
        return list(node.value)
    if isinstance(node, ast.Name) and node.id in env:
        return env[node.id]
    if isinstance(node, ast.Subscript):
        base = _strsym(node.value, env)
        sl = node.slice
        if isinstance(sl, ast.Slice):
            lo = ast.literal_eval(sl.lower) if sl.lower is not None else None
            hi = ast.literal_eval(sl.upper) if sl.upper is not None else None
            if sl.step is not None:
                raise B.Unknown("slice step")
            return base[lo:hi]
        idx = ast.literal_eval(sl)
        return [base[idx]]
    if isinstance(node, ast.BinOp) and isinstance(node.op, ast.Add):
        return _strsym(node.left, env) + _strsym(node.right, env)
    if isinstance(node, ast.BinOp) and isinstance(node.op, ast.Mult) and isinstance(node.right, ast.Constant):
        return _strsym(node.left, env) * node.right.value
    if isinstance(node, ast.Call) and isinstance(node.func, ast.Attribute) and node.func.attr == "format" \
            and isinstance(node.func.value, ast.Constant) and not node.keywords:
        import string

        args = [_strsym(a, env) for a in node.args]
        out = []
        auto = 0
        for lit, field, spec, conv in string.Formatter().parse(node.func.value.value):
            out.extend(lit)
            if field is None:
                continue
            if spec or conv:
                raise B.Unknown("format spec")
            if field == "":
                field = str(auto)
                auto += 1
            out.extend(args[int(field)])
        return out
    if isinstance(node, ast.BinOp) and isinstance(node.op, ast.Mod) and isinstance(node.left, ast.Constant):
        fmt = node.left.value
        args = node.right.elts if isinstance(node.right, ast.Tuple) else [node.right]
        parts = fmt.split("%s")
        if len(parts) != len(args) + 1 or "%" in "".join(parts):
            raise B.Unknown("percent format")
        out = list(parts[0])
        for a, p in zip(args, parts[1:]):
            out.extend(_strsym(a, env))
            out.extend(p)
        return out
    if isinstance(node, ast.JoinedStr):
        out = []
        for v in node.values:
            if isinstance(v, ast.Constant):
                out.extend(v.value)
            elif isinstance(v, ast.FormattedValue) and v.format_spec is None and v.conversion == -1:
                out.extend(_strsym(v.value, env))
            else:
                raise B.Unknown("fstring")
        return out
    raise B.Unknown("string expression %s" % ast.unparse(node))


def hexlayout(ctx):
    """Color.parse_color_hex followed for one marker string per accepted length (digits 1..8 are all distinct, so the layout of the
    string handed to int(.., 16) identifies where every input digit ends up).  Only these literals are combined; nothing of the
    module is executed."""
    from ..pe import PE, K, Raised

    fn = ctx.fn("Color.parse_color_hex", "R13.2")
    param = fn.args.args[0].arg
    body = [x for x in fn.body if not (isinstance(x, ast.Expr) and isinstance(x.value, ast.Constant))]
    expected = {
        8: lambda d: d,
        6: lambda d: d + "FF",
        4: lambda d: "".join(c + c for c in d),
        3: lambda d: "".join(c + c for c in d) + "FF",
    }
    for n, exp in expected.items():
        digits = "12345678"[:n]
        cons = "Color.parse_color_hex[%d digits]" % n

        def hook(pe, call):
            if isinstance(call.func, ast.Name) and call.func.id == "int" and len(call.args) == 2:
                sv, rv = pe.ev(call.args[0]), pe.ev(call.args[1])
                if isinstance(sv, K) and isinstance(sv.v, str) and hasattr(rv, "is_const") and rv.is_const():
                    return K(("int", sv.v, int(rv.constval())))
            return None

        pe = PE(ctx.m, "R13.2", cons, call_hook=hook)
        pe.bind(param, K("#" + digits))
        try:
            res = pe.run(body)
        except Raised as e:
            ctx.ob("R13.2", cons, False, "raises %s" % e.name, fn.lineno, "no value for this length")
            continue
        if res is None or res.kind != "return" or res.value is None:
            ctx.ob("R13.2", cons, False, "no value returned", fn.lineno, "no value for this length")
            continue
        val = pe.ev(res.value)
        if not (isinstance(val, K) and isinstance(val.v, tuple) and val.v and val.v[0] == "int"):
            raise AnalysisError("R13.2", "%s: result is not int(<digits>, 16): %s" % (cons, ast.unparse(res.value)[:60]))
        _, got, radix = val.v
        ctx.ob("R13.2", cons, got.upper() == exp(digits).upper() and radix == 16,
               "digits %s radix %s; expected %s radix 16 (input digits 1..%d)" % (got, radix, exp(digits), n), res.node.lineno,
               "hex digits are laid out differently from #rgb/#rgba/#rrggbb/#rrggbbaa")


def _fmt(sym):
    return "".join(c if isinstance(c, str) else "<%d>" % c[1] for c in sym)


def _enclosing_body(fn, stmt):
    for node in ast.walk(fn):
        for field in ("body", "orelse"):
            b = getattr(node, field, None)
            if isinstance(b, list) and stmt in b:
                return b
    return fn.body


def _find_assign(body, name):
    r = None
    for s in body:
        if isinstance(s, ast.Assign) and isinstance(s.targets[0], ast.Name) and s.targets[0].id == name:
            r = s.value
    return r


# ----------------------------------------------------------------------------- R13.3 / R13.4
CH = {"red": 24, "green": 16, "blue": 8, "alpha": 0}


class ColorBits:
    """Summaries of Color getters/setters as word transformers."""

    def __init__(self, ctx):
        self.ctx = ctx
        self.cls = ctx.m.cls("Color", "R13.3")

    def getter_word(self, prop, value_word, depth=0):
        fn = self.cls.getters.get(prop)
        if fn is None:
            raise AnalysisError("R13.3", "Color.%s getter not found" % prop)
        rets = [s for s in stmts_in(fn.body) if isinstance(s, ast.Return) and not (isinstance(s.value, ast.Constant) and s.value.value is None)]
        if len(rets) != 1:
            raise B.Unknown("getter %s has %d value returns" % (prop, len(rets)))
        ev = B.BitEval(env={"self.value": value_word}, attr_hook=lambda e, n: self._attr(e, n, value_word, depth))
        return ev.ev(rets[0].value)

    def _attr(self, ev, node, value_word, depth):
        if isinstance(node.value, ast.Name) and node.value.id == "self" and node.attr in self.cls.getters and depth < 4:
            return self.getter_word(node.attr, value_word, depth + 1)
        return None

    def setter_apply(self, prop, value_word, arg_word, depth=0):
        fn = self.cls.setters.get(prop)
        if fn is None:
            raise AnalysisError("R13.3", "Color.%s setter not found" % prop)
        param = fn.args.args[1].arg
        state = {"value": value_word, param: arg_word}

        def mk():
            env = {"self.value": state["value"]}
            for k, v in state.items():
                if k != "value":
                    env[k] = v
            return B.BitEval(env=env, attr_hook=lambda e, n: self._attr(e, n, state["value"], depth), call_hook=self._call)

        for s in fn.body:
            if isinstance(s, ast.If):
                # `if self.value is None: raise` guard
                if all(isinstance(x, ast.Raise) for x in s.body) and not s.orelse:
                    continue
                raise B.Unknown("branch in setter %s" % prop)
            if isinstance(s, ast.Assign) and len(s.targets) == 1:
                t = s.targets[0]
                val = mk().ev(s.value)
                if isinstance(t, ast.Name):
                    state[t.id] = val
                elif isinstance(t, ast.Attribute) and isinstance(t.value, ast.Name) and t.value.id == "self":
                    if t.attr == "value":
                        state["value"] = val
                    elif t.attr in self.cls.setters and depth < 4:
                        state["value"] = self.setter_apply(t.attr, state["value"], val, depth + 1)
                    else:
                        raise B.Unknown("assignment to self.%s" % t.attr)
                else:
                    raise B.Unknown("assignment target")
                continue
            if isinstance(s, ast.AugAssign):
                t = s.target
                cur = mk().ev(t)
                val = mk().ev(s.value)
                if isinstance(s.op, ast.BitAnd):
                    new = B.band(cur, val)
                elif isinstance(s.op, ast.BitOr):
                    new = B.bor(cur, val)
                elif isinstance(s.op, ast.LShift):
                    new = B.shl(cur, ast.literal_eval(s.value))
                elif isinstance(s.op, ast.RShift):
                    new = B.shr(cur, ast.literal_eval(s.value))
                else:
                    raise B.Unknown("augmented op")
                if isinstance(t, ast.Name):
                    state[t.id] = new
                elif ast.unparse(t) == "self.value":
                    state["value"] = new
                else:
                    raise B.Unknown("augmented target")
                continue
            if isinstance(s, ast.Expr):
                continue
            raise B.Unknown("statement %s in setter %s" % (type(s).__name__, prop))
        return state["value"]

    def _call(self, ev, node):
        # Color.crimp(x): an 8-bit clamp; for in-range arguments it is the low 8 bits of x
        if call_name(node) == "Color.crimp" and len(node.args) == 1:
            w = ev.ev(node.args[0])
            return [w[i] if i < 8 else 0 for i in range(B.W)]
        return None


def field(word, lo, width):
    return word[lo:lo + width]


def layout(ctx):
    cb = ColorBits(ctx)
    V = B.word_sym("v", 32)
    # reference layout from rgb_to_int: which shift each channel gets
    ref = rgb_to_int_layout(ctx)
    for ch, sh in CH.items():
        ctx.ob("R13.3", "Color.rgb_to_int[%s]" % ch, ref.get(ch) == sh, "shift %s, expected %s" % (ref.get(ch), sh), 0,
               "packed word layout must be 0xRRGGBBAA")
    for ch, sh in CH.items():
        cons = "Color.%s" % ch
        try:
            g = cb.getter_word(ch, V)
            okg = g[:8] == field(V, sh, 8) and all(b == 0 for b in g[8:])
            ctx.ob("R13.3", cons + ":getter", okg, B.show(g, 16), cb.cls.getters[ch].lineno,
                   "getter must read bits %d..%d of the word" % (sh, sh + 7))
            A = B.word_sym("a", 8)
            nv = cb.setter_apply(ch, V, A)
            exp = list(V)
            exp[sh:sh + 8] = A[:8]
            ctx.ob("R13.3", cons + ":setter", nv[sh:sh + 8] == A[:8], B.show(nv), cb.cls.setters[ch].lineno,
                   "setter must store the channel at bits %d..%d" % (sh, sh + 7))
            ctx.ob("R13.4", cons + ":setter", nv[:32] == exp[:32] and all(b == 0 for b in nv[32:40]), B.show(nv), cb.cls.setters[ch].lineno,
                   "writing one channel must leave every other bit of the word unchanged")
            back = cb.getter_word(ch, nv)
            ctx.ob("R13.3", cons + ":roundtrip", back[:8] == A[:8] and all(b == 0 for b in back[8:]), B.show(back, 16),
                   cb.cls.setters[ch].lineno, "getter(setter(x)) must be x")
        except B.Unknown as e:
            raise AnalysisError("R13.3", "%s: layout idiom not interpreted: %s" % (cons, e))
    # packings: expected layout in terms of channels (low bit position of each channel inside the packed int)
    packs = {
        "rgb": {"blue": 0, "green": 8, "red": 16},
        "bgr": {"red": 0, "green": 8, "blue": 16},
        "argb": {"blue": 0, "green": 8, "red": 16, "alpha": 24},
        "rgba": {"alpha": 0, "blue": 8, "green": 16, "red": 24},
    }
    for p, lay in packs.items():
        cons = "Color.%s" % p
        width = 8 * len(lay)
        try:
            g = cb.getter_word(p, V)
            ok = all(g[pos:pos + 8] == field(V, CH[ch], 8) for ch, pos in lay.items()) and all(b == 0 for b in g[width:])
            ctx.ob("R13.3", cons + ":getter", ok, B.show(g), cb.cls.getters[p].lineno, "packing getter lays channels out differently from its name")
            A = B.word_sym("p", width)
            nv = cb.setter_apply(p, V, A)
            ok = all(nv[CH[ch]:CH[ch] + 8] == A[pos:pos + 8] for ch, pos in lay.items())
            if "alpha" not in lay:
                ok = ok and nv[0:8] == [1] * 8
            ok = ok and all(b == 0 for b in nv[32:])
            ctx.ob("R13.3", cons + ":setter", ok, B.show(nv, 40), cb.cls.setters[p].lineno,
                   "packing setter stores channels differently from its name (or leaves bits above 32)")
            back = cb.getter_word(p, nv)
            ctx.ob("R13.3", cons + ":roundtrip", back[:width] == A[:width] and all(b == 0 for b in back[width:]), B.show(back), cb.cls.setters[p].lineno,
                   "getter(setter(x)) must be x")
        except B.Unknown as e:
            raise AnalysisError("R13.3", "%s: layout idiom not interpreted: %s" % (cons, e))
    # hex writers: digit pair k of the format string shows the channel at bits 24-8k.. of the word
    for prop, n in (("hexa", 4), ("hexrgb", 3)):
        fn = cb.cls.getters.get(prop)
        ctx.need(fn is not None, "R13.3", "Color.%s not found" % prop)
        fmts = [x for x in ast.walk(fn) if isinstance(x, ast.BinOp) and isinstance(x.op, ast.Mod) and isinstance(x.left, ast.Constant)]
        ctx.need(len(fmts) == 1, "R13.3", "Color.%s: format expression not found" % prop)
        fmt = fmts[0]
        fields = fmt.left.value
        ok_fmt = fields == "#" + "%02x" * n or fields == "#" + "%02X" * n
        args = fmt.right.elts if isinstance(fmt.right, ast.Tuple) else [fmt.right]
        ok = ok_fmt and len(args) == n
        detail = fields + " % " + ast.unparse(fmt.right)
        if ok:
            for k, a in enumerate(args):
                w = B.BitEval(env={"self.value": V}, attr_hook=lambda e, nn: cb._attr(e, nn, V, 0)).ev(a)
                if w[:8] != field(V, 24 - 8 * k, 8):
                    ok = False
        ctx.ob("R13.3", "Color.%s:writer" % prop, ok, detail, fn.lineno,
               "hex writer must print two lower/upper hex digits per channel in the order the hex reader assigns them (rrggbbaa)")
    # hex chooses the short form only for opaque colours
    fn = cb.cls.getters.get("hex")
    ctx.need(fn is not None, "R13.3", "Color.hex not found")
    from ..pe import PE, K, Raised
    from ..algebra import RF as _RF
    got = {}
    for opaque in (True, False):
        def oracle(pe, test, opaque=opaque):
            if isinstance(test, ast.Compare) and len(test.ops) == 1 and isinstance(test.ops[0], (ast.Eq, ast.NotEq)):
                sides = [test.left, test.comparators[0]]
                if any(attr_chain(x) == ["self", "alpha"] for x in sides) and any(isinstance(x, ast.Constant) and x.value == 255 for x in sides):
                    return opaque if isinstance(test.ops[0], ast.Eq) else not opaque
            return None

        pe = PE(ctx.m, "R13.3", "Color.hex", oracle=oracle)
        res = pe.run([x for x in fn.body if not (isinstance(x, ast.Expr) and isinstance(x.value, ast.Constant))])
        got[opaque] = ".".join(attr_chain(res.value) or ["?"]) if res is not None and res.value is not None else None
    ok = got.get(True) == "self.hexrgb" and got.get(False) == "self.hexa"
    ctx.ob("R13.3", "Color.hex:form", ok, "opaque -> %s, translucent -> %s" % (got.get(True), got.get(False)), fn.lineno, "hex must use #rrggbb exactly when alpha is 0xFF and #rrggbbaa otherwise (Color(c.hex) == c)")


def rgb_to_int_layout(ctx):
    from ..flow import Taint

    fn = ctx.fn("Color.rgb_to_int", "R13.3")
    params = [a.arg for a in fn.args.args]
    roles = dict(zip(params[:4], ("red", "green", "blue", "alpha")))
    taint = {p_: Taint(fn, lambda n, p_=p_: isinstance(n, ast.Name) and n.id == p_, through_containers=False) for p_ in roles}

    def role(name):
        hit = [roles[p_] for p_, t in taint.items() if name == p_ or name in t.names]
        return hit[0] if len(hit) == 1 else None

    shifts = {}
    for x in fn.body:
        if isinstance(x, ast.AugAssign) and isinstance(x.op, ast.LShift) and isinstance(x.target, ast.Name) and role(x.target.id):
            shifts[role(x.target.id)] = shifts.get(role(x.target.id), 0) + ast.literal_eval(x.value)
    combined = None
    for x in fn.body:
        if isinstance(x, (ast.Assign, ast.Return)) and isinstance(x.value, ast.BinOp) and isinstance(x.value.op, ast.BitOr):
            combined = x.value
    ctx.need(combined is not None, "R13.3", "rgb_to_int: combining or-expression not found")

    def terms(n):
        if isinstance(n, ast.BinOp) and isinstance(n.op, ast.BitOr):
            return terms(n.left) + terms(n.right)
        return [n]

    for t in terms(combined):
        if isinstance(t, ast.Name) and role(t.id):
            shifts.setdefault(role(t.id), 0)
        elif isinstance(t, ast.BinOp) and isinstance(t.op, ast.LShift) and isinstance(t.left, ast.Name) and role(t.left.id):
            shifts[role(t.left.id)] = shifts.get(role(t.left.id), 0) + ast.literal_eval(t.right)
        else:
            raise AnalysisError("R13.3", "rgb_to_int: term %s not interpreted" % ast.unparse(t))
    return shifts


def hsl_writeset(ctx):
    cls = ctx.m.cls("Color", "R13.4")
    # setters that rebuild the word from HSL: must carry alpha over
    fn = cls.setters.get("hsl")
    ctx.need(fn is not None, "R13.4", "Color.hsl setter not found")
    calls = [c for c in ast.walk(fn) if call_name(c) == "Color.hsl_to_int"]
    ctx.need(calls, "R13.4", "Color.hsl setter does not call hsl_to_int")
    target = ctx.fn("Color.hsl_to_int")
    tparams = [a.arg for a in target.args.args]
    for c in calls:
        op = None
        if len(c.args) >= 4:
            op = c.args[3]
        for k in c.keywords:
            if k.arg == tparams[3]:
                op = k.value
        from_self = False
        if op is not None:
            # resolve a local defined from self.opacity / self.alpha
            srcs = {ast.unparse(op)}
            if isinstance(op, ast.Name):
                for s in stmts_in(fn.body):
                    if isinstance(s, ast.Assign) and isinstance(s.targets[0], ast.Name) and s.targets[0].id == op.id:
                        srcs.add(ast.unparse(s.value))
            from_self = any(("self.opacity" in x or "self.alpha" in x) for x in srcs)
        ctx.ob("R13.4", "Color.hsl:setter", from_self, "opacity argument: %s" % (ast.unparse(op) if op is not None else "<default>"), c.lineno,
               "hue/saturation/lightness setters rebuild the whole word; the alpha channel must be carried over, not reset")
    for p in ("hue", "saturation", "lightness"):
        f = cls.setters.get(p)
        ctx.need(f is not None, "R13.4", "Color.%s setter not found" % p)
        assigns = [s for s in stmts_in(f.body) if isinstance(s, ast.Assign) and ast.unparse(s.targets[0]) == "self.hsl"]
        reads = [s for s in stmts_in(f.body) if isinstance(s, ast.Assign) and ast.unparse(s.value) == "self.hsl" and isinstance(s.targets[0], ast.Tuple)]
        if not (len(assigns) == 1 and len(reads) == 1):
            raise AnalysisError("R13.4", "Color.%s setter: read-modify-write of self.hsl not recognised" % p)
        names = [e.id for e in reads[0].targets[0].elts]
        vals = [ast.unparse(e) for e in assigns[0].value.elts]
        idx = ("hue", "saturation", "lightness").index(p)
        param = f.args.args[1].arg
        ok = all((vals[i] == param) if i == idx else (vals[i] == names[i]) for i in range(3))
        ctx.ob("R13.4", "Color.%s:setter" % p, ok, "reads %s writes %s" % (names, vals), f.lineno,
               "component setter must replace exactly its own slot of the (h, s, l) triple")


# ----------------------------------------------------------------------------- R13.5
def converters(ctx):
    m = ctx.m
    parse = ctx.fn("Color.parse", "R13.5")
    int_lang = rx.Lang(r"[-+]?[0-9]+")
    float_lang = rx.Lang(r"[-+]?([0-9]+\.?[0-9]*|\.[0-9]+)([eE][-+]?[0-9]+)?")
    # regex -> parser function, from `match = REGEX.match(..); if match: return Color.f(match.groups())`
    route = {}
    cur = None
    for s in parse.body:
        if isinstance(s, ast.Assign) and isinstance(s.value, ast.Call) and isinstance(s.value.func, ast.Attribute) and s.value.func.attr == "match":
            ch = attr_chain(s.value.func.value)
            cur = ch[-1] if ch else None
        if isinstance(s, ast.If) and cur:
            for r in s.body:
                if isinstance(r, ast.Return) and isinstance(r.value, ast.Call):
                    cn = call_name(r.value)
                    if cn and cn.startswith("Color.") and r.value.args and "groups" in ast.unparse(r.value.args[0]):
                        route[cn.split(".")[1]] = cur
    ctx.need(len(route) >= 3, "R13.5", "Color.parse: regex routing not recognised (%s)" % route)
    n = 0
    for fname, rname in sorted(route.items()):
        pat = m.regexes.get(rname)
        ctx.need(pat is not None, "R13.5", "pattern %s not a folded constant" % rname)
        tree = rx.parse(pat)
        grp = rx.groups(tree)
        fn = ctx.fn("Color.%s" % fname, "R13.5")
        param = fn.args.args[0].arg
        for c in ast.walk(fn):
            if isinstance(c, ast.Call) and isinstance(c.func, ast.Name) and c.func.id in ("int", "float") and len(c.args) == 1:
                a = c.args[0]
                if isinstance(a, ast.Subscript) and isinstance(a.value, ast.Name) and a.value.id == param and isinstance(a.slice, ast.Constant):
                    gi = a.slice.value + 1
                    ctx.need(gi in grp, "R13.5", "%s has no group %d" % (rname, gi))
                    gl = rx.sublang(grp[gi])
                    target = int_lang if c.func.id == "int" else float_lang
                    ok, w = rx.included(gl, target)
                    n += 1
                    ctx.ob("R13.5", "Color.%s[%s(values[%d])]" % (fname, c.func.id, a.slice.value), ok,
                           "group %d of %s admits %r which %s() rejects" % (gi, rname, w, c.func.id) if not ok else "group language included in %s() grammar" % c.func.id,
                           c.lineno, "the regex accepts a spelling its converter raises on")
    ctx.need(n >= 8, "R13.5", "fewer conversions than expected (%d)" % n)


# ----------------------------------------------------------------------------- R13.6
UNIT_ATTR = {"as_degrees": "deg", "as_turns": "turn", "as_radians": "rad", "as_gradians": "grad", "as_positive_degrees": "deg"}
UNIT_CTOR = {"degrees": "deg", "turns": "turn", "radians": "rad", "gradians": "grad"}


def unit_of(expr, fn, ctx, depth=0):
    """Angle unit tag of a numeric expression: 'deg' | 'turn' | 'rad' | 'grad' | ('param', name) | None."""
    if depth > 6:
        return None
    if isinstance(expr, ast.Attribute) and expr.attr in UNIT_ATTR:
        return UNIT_ATTR[expr.attr]
    if isinstance(expr, ast.BinOp) and isinstance(expr.op, ast.Mod):
        return unit_of(expr.left, fn, ctx, depth + 1)
    if isinstance(expr, ast.Name):
        params = [a.arg for a in fn.args.args]
        defs = [s for s in stmts_in(fn.body) if isinstance(s, ast.Assign) and any(
            (isinstance(t, ast.Name) and t.id == expr.id) or (isinstance(t, ast.Tuple) and any(isinstance(e, ast.Name) and e.id == expr.id for e in t.elts))
            for t in s.targets)]
        if not defs:
            return ("param", expr.id) if expr.id in params else None
        tags = set()
        for s in defs:
            t = s.targets[0]
            if isinstance(t, ast.Name):
                tags.add(unit_of(s.value, fn, ctx, depth + 1) if not (isinstance(s.value, ast.Name) and s.value.id == expr.id) else None)
            else:
                idx = [i for i, e in enumerate(t.elts) if isinstance(e, ast.Name) and e.id == expr.id][0]
                if ast.unparse(s.value) == "self.hsl":
                    tags.add(hsl_getter_unit(ctx, idx))
                elif isinstance(s.value, ast.Tuple):
                    tags.add(unit_of(s.value.elts[idx], fn, ctx, depth + 1))
                else:
                    tags.add(None)
        # a name redefined from itself (h = h.as_turns) takes the last definition's tag
        last = defs[-1]
        if isinstance(last.targets[0], ast.Name):
            return unit_of(last.value, fn, ctx, depth + 1) if not isinstance(last.value, ast.Name) else tags.pop()
        return tags.pop() if len(tags) == 1 else None
    if isinstance(expr, ast.Subscript) and isinstance(expr.value, ast.Name) and isinstance(expr.slice, ast.Constant):
        params = [a.arg for a in fn.args.args]
        if expr.value.id in params:
            return ("param", "%s[%d]" % (expr.value.id, expr.slice.value))
    if isinstance(expr, ast.Attribute) and ast.unparse(expr) == "self.hue":
        return getter_unit(ctx, "hue")
    return None


def getter_unit(ctx, prop):
    fn = ctx.m.cls("Color").getters[prop]
    tags = set()
    for s in stmts_in(fn.body):
        if isinstance(s, ast.Return) and s.value is not None and not isinstance(s.value, ast.Constant):
            tags.add(unit_of(s.value, fn, ctx))
    return tags.pop() if len(tags) == 1 else None


def hsl_getter_unit(ctx, idx):
    fn = ctx.m.cls("Color").getters["hsl"]
    for s in stmts_in(fn.body):
        if isinstance(s, ast.Return) and isinstance(s.value, ast.Tuple):
            return unit_of(s.value.elts[idx], fn, ctx)
    return None


def required_unit_of_arg(expr):
    """For `Angle.<ctor>(X)...` return (X, ctor unit)."""
    for n in ast.walk(expr):
        if isinstance(n, ast.Call) and isinstance(n.func, ast.Attribute) and isinstance(n.func.value, ast.Name) and n.func.value.id == "Angle" \
                and n.func.attr in UNIT_CTOR and len(n.args) == 1:
            return n.args[0], UNIT_CTOR[n.func.attr]
    return None, None


def hue_units(ctx):
    cls = ctx.m.cls("Color", "R13.6")
    # reference: what unit the string parser hands to hsl_to_int
    pfn = ctx.fn("Color.parse_color_hsl", "R13.6")
    calls = [c for c in ast.walk(pfn) if call_name(c) == "Color.hsl_to_int"]
    ctx.need(len(calls) == 1, "R13.6", "parse_color_hsl: hsl_to_int call not found")
    ref_unit = unit_of(calls[0].args[0], pfn, ctx)
    ctx.need(ref_unit in ("deg", "turn", "rad", "grad"), "R13.6", "unit handed to hsl_to_int by the parser not inferred (%s)" % (ref_unit,))
    g_unit = getter_unit(ctx, "hue")
    ctx.need(g_unit in ("deg", "turn", "rad", "grad"), "R13.6", "unit of the hue getter not inferred")
    # hsl setter: what unit does it require of value[0]?
    sfn = cls.setters["hsl"]
    scalls = [c for c in ast.walk(sfn) if call_name(c) == "Color.hsl_to_int"]
    ctx.need(len(scalls) == 1, "R13.6", "hsl setter: hsl_to_int call not found")
    arg0 = scalls[0].args[0]
    # follow a local (h = value[0] or h = Angle.degrees(value[0]).as_turns)
    expr = arg0
    if isinstance(expr, ast.Name):
        d = [s for s in stmts_in(sfn.body) if isinstance(s, ast.Assign) and isinstance(s.targets[0], ast.Name) and s.targets[0].id == expr.id]
        if d:
            expr = d[-1].value
    inner, ctor_unit = required_unit_of_arg(expr)
    produced = unit_of(expr, sfn, ctx)
    if inner is not None:
        required_in = ctor_unit
        passes = produced
    else:
        required_in = ref_unit if isinstance(produced, tuple) else None
        passes = ref_unit if isinstance(produced, tuple) else produced
    ctx.ob("R13.6", "Color.hsl:setter->hsl_to_int", passes == ref_unit,
           "setter hands %s to hsl_to_int; the string parser hands %s" % (passes, ref_unit), sfn.lineno,
           "hsl_to_int receives hue in a different unit from the one hsl()/hsla() strings are converted to")
    ctx.ob("R13.6", "Color.hue:getter/setter", required_in == g_unit,
           "hue getter yields %s; the hsl setter expects its hue slot in %s" % (g_unit, required_in), cls.getters["hue"].lineno,
           "hue getter and setter use different angle units: c.hue = c.hue (and every saturation/lightness write, which "
           "passes the read hue back) changes the colour")
    h0 = hsl_getter_unit(ctx, 0)
    ctx.ob("R13.6", "Color.hsl:getter/setter", h0 == required_in, "hsl getter slot 0 is %s, setter expects %s" % (h0, required_in),
           cls.getters["hsl"].lineno, "c.hsl = c.hsl must be the identity on hue")
    # Angle accessor/constructor constants (shared with C04): as_X inverts X
    afn = {k: ctx.m.cls("Angle").methods.get(k) for k in UNIT_CTOR}
    from ..algebra import Alg, ref
    consts = {"degrees": "2*pi*x/360", "gradians": "2*pi*x/400", "turns": "2*pi*x", "radians": "x"}
    for k, f in afn.items():
        ctx.need(f is not None, "R13.6", "Angle.%s not found" % k)
        ret = [s for s in f.body if isinstance(s, ast.Return)][0]
        arg = ret.value.args[0] if isinstance(ret.value, ast.Call) else ret.value
        got = Alg(atom_map={f.args.args[1].arg: "x"}).ev(arg)
        ctx.ob("R13.6", "Angle.%s" % k, got == ref(consts[k]), "%s vs %s" % (got, consts[k]), f.lineno, "angle constructor constant")
    inv = {"as_degrees": "x*360/(2*pi)", "as_gradians": "x*400/(2*pi)", "as_turns": "x/(2*pi)", "as_radians": "x"}
    for k, text in inv.items():
        f = ctx.m.cls("Angle").getters.get(k)
        ctx.need(f is not None, "R13.6", "Angle.%s not found" % k)
        ret = [s for s in f.body if isinstance(s, ast.Return)][0]
        got = Alg(atom_map={"self": "x"}).ev(ret.value)
        ctx.ob("R13.6", "Angle.%s" % k, got == ref(text), "%s vs %s" % (got, text), f.lineno, "angle accessor constant")


# ----------------------------------------------------------------------------- R13.7
def clamps(ctx):
    from ..dispatch import Facts, walk
    from ..algebra import Alg, ref

    fn = ctx.fn("Color.crimp", "R13.7")
    p = fn.args.args[0].arg
    hi = lo = None
    for s in fn.body:
        if isinstance(s, ast.If) and isinstance(s.test, ast.Compare) and isinstance(s.test.left, ast.Name) and s.test.left.id == p:
            c = s.test.comparators[0]
            r = s.body[0] if s.body and isinstance(s.body[0], ast.Return) else None
            if r is None or not isinstance(c, ast.Constant) or not isinstance(r.value, ast.Constant):
                continue
            if isinstance(s.test.ops[0], (ast.Gt, ast.GtE)):
                hi = (c.value, r.value.value, type(s.test.ops[0]).__name__)
            if isinstance(s.test.ops[0], (ast.Lt, ast.LtE)):
                lo = (c.value, r.value.value, type(s.test.ops[0]).__name__)
    ctx.ob("R13.7", "Color.crimp[upper]", hi is not None and hi[1] == 255 and ((hi[0] == 255) or (hi[0] == 256 and hi[2] == "GtE")), str(hi), fn.lineno,
           "channel values above 255 must clamp to 255")
    ctx.ob("R13.7", "Color.crimp[lower]", lo is not None and lo[1] == 0 and ((lo[0] == 0) or (lo[0] == -1 and lo[2] == "LtE")), str(lo), fn.lineno,
           "channel values below 0 must clamp to 0")
    last = fn.body[-1]

    def nearest(v):
        """int(round(p)) / round(p) / int(ceil(p - 0.5)) / int(floor(p + 0.5)): an integer passes unchanged, a float goes to the nearest level"""
        while isinstance(v, ast.Call) and call_name(v) == "int" and len(v.args) == 1:
            v = v.args[0]
        if isinstance(v, ast.Call) and call_name(v) == "round" and len(v.args) == 1 and isinstance(v.args[0], ast.Name) and v.args[0].id == p:
            return True
        if isinstance(v, ast.Call) and call_name(v) in ("ceil", "floor", "math.ceil", "math.floor") and len(v.args) == 1 and isinstance(v.args[0], ast.BinOp):
            b = v.args[0]
            want = ast.Sub if call_name(v).endswith("ceil") else ast.Add
            return isinstance(b.op, want) and isinstance(b.left, ast.Name) and b.left.id == p and isinstance(b.right, ast.Constant) and b.right.value == 0.5
        return False

    truncates = isinstance(last, ast.Return) and ast.unparse(last.value) in ("int(%s)" % p, p)
    ok_id = isinstance(last, ast.Return) and (truncates or nearest(last.value))
    ctx.ob("R13.7", "Color.crimp[identity]", ok_id, ast.unparse(last), last.lineno, "in-range channel values pass unchanged")
    # float channels reach crimp from the hsl conversion (255.0 * ...): the level must be the nearest one, not the one below
    hsl = ctx.fn("Color.hsl_to_int", "R13.7")
    float_channels = any(isinstance(b, ast.BinOp) and isinstance(b.op, ast.Mult) and any(isinstance(c, ast.Constant) and isinstance(c.value, float) for c in (b.left, b.right)) for b in ast.walk(hsl))
    rounded_before = all(isinstance(a, ast.Call) and call_name(a) in ("round", "int") for c in ast.walk(hsl) if isinstance(c, ast.Call) and call_name(c) == "Color.rgb_to_int" for a in c.args[:3])
    ctx.ob("R13.7", "Color.crimp[float channel -> nearest level]", (not float_channels) or rounded_before or (isinstance(last, ast.Return) and nearest(last.value)),
           "crimp ends in `%s`; hsl_to_int hands it float channels%s" % (ast.unparse(last), "" if not rounded_before else " already rounded"), last.lineno,
           "a float channel such as 254.99999999999997 or 31.875 (hsl(60,100%,50%), hsl(0,75%,50%)) is cut to the level below: the colour is one level off and writing h/s/l back drifts")
    fn = ctx.fn("Color.rgb_to_int", "R13.7")
    op = fn.args.args[3].arg
    his = los = None
    for s in fn.body:
        if isinstance(s, ast.If) and isinstance(s.test, ast.Compare) and isinstance(s.test.left, ast.Name) and s.test.left.id == op:
            c = s.test.comparators[0]
            a = s.body[0] if s.body and isinstance(s.body[0], ast.Assign) else None
            if a is None or not isinstance(c, ast.Constant) or not isinstance(a.value, ast.Constant):
                continue
            if isinstance(s.test.ops[0], ast.Gt):
                his = (c.value, a.value.value)
            if isinstance(s.test.ops[0], ast.Lt):
                los = (c.value, a.value.value)
    ctx.ob("R13.7", "Color.rgb_to_int[opacity<=1]", his is not None and his[0] == 1 and his[1] == 1, str(his), fn.lineno, "opacity above 1 clamps to 1")
    ctx.ob("R13.7", "Color.rgb_to_int[opacity>=0]", los is not None and los[0] == 0 and los[1] == 0, str(los), fn.lineno, "opacity below 0 clamps to 0")
    scale = None
    for s in fn.body:
        if isinstance(s, ast.Assign) and any(isinstance(n, ast.Name) and n.id == op for n in ast.walk(s.value)) and not (isinstance(s.targets[0], ast.Name) and s.targets[0].id == op):
            inner = s.value
            while isinstance(inner, ast.Call) and len(inner.args) == 1 and ((isinstance(inner.func, ast.Name) and inner.func.id in ("int", "round")) or call_name(inner) == "Color.crimp"):
                inner = inner.args[0]
            try:
                scale = Alg().ev(inner)
            except Exception as e:
                raise AnalysisError("R13.7", "rgb_to_int: alpha scaling expression not interpreted: %s" % ast.unparse(s.value)[:60])
            rounded = "round" in ast.unparse(s.value)
            ctx.ob("R13.7", "Color.rgb_to_int[alpha scale]", scale == ref("255*%s" % op) and rounded, "%s rounded=%s" % (scale, rounded), s.lineno,
                   "alpha byte is round(opacity*255)")
    ctx.need(scale is not None, "R13.7", "rgb_to_int: alpha scaling not found")
    fn = ctx.fn("Color.parse_color_rgbp", "R13.7")
    alg = Alg()
    n = 0
    from ..flow import split_tuple_assign as _sta13

    class _One:  # one (target, value) pair of a possibly tuple-shaped assignment, presented like a plain Assign
        def __init__(self, tg, v, st):
            self.targets, self.value, self.lineno = [tg], v, st.lineno

    flat = []
    for st_ in fn.body:
        if isinstance(st_, ast.Assign):
            flat.extend(_One(tg, v, st_) for tg, v in _sta13(st_))
    for s in flat:
        if isinstance(s.targets[0], ast.Name):
            v = s.value
            while isinstance(v, ast.Call) and isinstance(v.func, ast.Name) and v.func.id in ("round", "int"):
                v = v.args[0]
            # a clamp to the legal range of a percentage is the identity inside that range (and what happens outside is
            # the clamp rule's business)
            from ..flow import unclamp
            v, ranges = unclamp(v)
            if any(r != (0, 100) for r in ranges):
                ctx.ob("R13.7", "Color.parse_color_rgbp[clamp range]", False, "clamped to %s" % ranges, s.lineno, "a percentage channel ranges over 0..100")
            try:
                val = Alg(env=alg.env, call_hook=_values_hook).ev(v)
            except Exception:
                continue
            alg.env[s.targets[0].id] = val
            atoms = val.atoms()
            if len(atoms) == 1 and list(atoms)[0].startswith("values["):
                idx = int(list(atoms)[0][7:-1])
                if idx < 3:
                    n += 1
                    ctx.ob("R13.7", "Color.parse_color_rgbp[%d]" % idx, val == ref("255*V/100", atom_map={"V": "values[%d]" % idx}), str(val), s.lineno,
                           "a percentage channel is 255/100 of its number")
    ctx.need(n == 3, "R13.7", "parse_color_rgbp: three percentage channels expected, found %d" % n)


def _values_hook(alg, node):
    return None


def hue_formula(ctx):
    """The hue getter: with M the largest channel and D = max - min, the hue in turns is (g - b)/6D when red is largest,
    1/3 + (b - r)/6D when green is, 2/3 + (r - g)/6D when blue is.  The branch formulas are compared symbolically (min and max
    opaque); the setters of hue, saturation and lightness read the colour back through this getter, so a wrong branch also
    corrupts what they write."""
    from ..algebra import Alg, Uninterpreted, atom, const
    from fractions import Fraction

    fn = ctx.m.cls("Color", "R13.6").getters.get("hue")
    ctx.need(fn is not None, "R13.6", "Color.hue getter not found")

    def hook(alg, node):
        if isinstance(node, ast.Call) and isinstance(node.func, ast.Name) and node.func.id in ("min", "max") and len(node.args) == 3:
            return atom(node.func.id.upper())
        return None

    alg = Alg(call_hook=hook)
    R, G, B = atom("R"), atom("G"), atom("B")
    alg.atom_map["self.red"] = const(255) * R
    alg.atom_map["self.green"] = const(255) * G
    alg.atom_map["self.blue"] = const(255) * B
    D = atom("MAX") - atom("MIN")
    chan = {}
    branches = []
    from ..flow import untuple

    for st in untuple(fn.body):
        if isinstance(st, ast.Assign):
            try:
                alg.assign(st)
                v = alg.ev(st.targets[0]) if isinstance(st.targets[0], ast.Name) else None
                for nm, a in (("r", R), ("g", G), ("b", B)):
                    if v is not None and v == a:
                        chan[st.targets[0].id] = nm
            except Uninterpreted:
                pass
        elif isinstance(st, ast.If) and any(isinstance(x, ast.Assign) for x in st.body) and any(isinstance(c, ast.Compare) and isinstance(c.ops[0], ast.Eq) for c in ast.walk(st.test)):
            seen = []
            for test, body in if_chain(st):
                which = None
                if test is not None and isinstance(test, ast.Compare) and len(test.ops) == 1 and isinstance(test.ops[0], ast.Eq):
                    for side, other in ((test.left, test.comparators[0]), (test.comparators[0], test.left)):
                        try:
                            if isinstance(side, ast.Name) and side.id in chan and alg.ev(other) == atom("MAX"):
                                which = chan[side.id]
                        except Uninterpreted:
                            pass
                elif test is None:
                    rest = [c for c in "rgb" if c not in seen]
                    which = rest[0] if len(rest) == 1 else None
                if which is None or not body or not isinstance(body[-1], ast.Assign):
                    continue
                seen.append(which)
                branches.append((which, body[-1]))
            if len(branches) == 3:
                break
    ctx.need(len(branches) == 3, "R13.6", "Color.hue getter: the three dominant-channel branches were not recognised (%d)" % len(branches))
    want = {"r": (G - B) / (const(6) * D), "g": const(Fraction(1, 3)) + (B - R) / (const(6) * D), "b": const(Fraction(2, 3)) + (R - G) / (const(6) * D)}
    for which, asg in branches:
        try:
            got = alg.ev(asg.value)
        except Uninterpreted as e:
            raise AnalysisError("R13.6", "Color.hue getter: branch formula not interpreted (%s)" % e)
        ctx.ob("R13.6", "Color.hue:getter[%s largest]" % {"r": "red", "g": "green", "b": "blue"}[which], got == want[which], "%s vs %s" % (got, want[which]), asg.lineno,
               "hue of a colour whose largest channel is this one: the offset is 0, 1/3, 2/3 turn plus (next - previous channel)/6D; swapped operands mirror the hue about the sector centre")


def saturation_guard(ctx):
    """The saturation getter divides by max + min or by 2 - max - min.  Both vanish for an achromatic colour at the ends of the
    scale (black: max + min = 0; white: 2 - max - min = 0), so the achromatic case - max == min, whatever its level - must leave
    with 0 before either division."""
    from ..flow import dominated

    fn = ctx.m.cls("Color", "R13.6").getters.get("saturation")
    ctx.need(fn is not None, "R13.6", "Color.saturation getter not found")
    binds = {}
    from ..flow import untuple as _untuple

    for st in _untuple(list(stmts_in(fn.body))):
        if isinstance(st, ast.Assign) and len(st.targets) == 1 and isinstance(st.targets[0], ast.Name):
            binds[st.targets[0].id] = st.value
    role = {}
    for nm, v in binds.items():
        if isinstance(v, ast.Call) and isinstance(v.func, ast.Name) and v.func.id in ("min", "max") and len(v.args) == 3:
            role[nm] = v.func.id
    delta = [nm for nm, v in binds.items() if isinstance(v, ast.BinOp) and isinstance(v.op, ast.Sub) and isinstance(v.left, ast.Name) and isinstance(v.right, ast.Name)
             and role.get(v.left.id) == "max" and role.get(v.right.id) == "min"]

    def chromatic(test, positive):
        # the fact "max != min": established when `max == min` (or delta == 0) is false
        if isinstance(test, ast.Compare) and len(test.ops) == 1 and isinstance(test.ops[0], (ast.Eq, ast.NotEq)):
            l, r = test.left, test.comparators[0]
            eq = isinstance(test.ops[0], ast.Eq)
            if isinstance(l, ast.Name) and isinstance(r, ast.Name) and {role.get(l.id), role.get(r.id)} == {"min", "max"}:
                return positive != eq
            for a, b in ((l, r), (r, l)):
                if isinstance(a, ast.Name) and a.id in delta and isinstance(b, ast.Constant) and b.value == 0:
                    return positive != eq
        return False

    divs = [b for b in ast.walk(fn) if isinstance(b, ast.BinOp) and isinstance(b.op, ast.Div) and not isinstance(b.right, ast.Constant)]
    ctx.need(divs, "R13.6", "Color.saturation: divisions not found")
    bad = [d for d in divs if not dominated(d, fn, chromatic)]
    ctx.ob("R13.6", "Color.saturation:getter[achromatic colours leave before the division]", not bad, "; ".join("line %d: %s" % (d.lineno, ast.unparse(d)[:40]) for d in bad), fn.lineno,
           "white has max + min = 2: `delta / (2.0 - max - min)` is 0.0 / 0.0 - reading .saturation or .hsl, or writing hue / saturation / lightness of any white raises ZeroDivisionError")


def hsl_percent_range(ctx):
    """CSS Color: the saturation and lightness of hsl() are percentages clamped to 0%..100% - on both sides - before the
    conversion.  (crimp() afterwards clamps the three channels, which is a different colour: hsl(120,-50%,50%) is the grey
    #808080, not what the formula gives for s = -0.5.)"""
    from ..flow import value_range

    pfn = ctx.fn("Color.parse_color_hsl", "R13.7")
    calls = [c for c in ast.walk(pfn) if call_name(c) == "Color.hsl_to_int"]
    ctx.need(len(calls) == 1, "R13.7", "parse_color_hsl: hsl_to_int call not found")
    callee = ctx.fn("Color.hsl_to_int", "R13.7")
    cparams = [a.arg for a in callee.args.args]
    for idx, what in ((1, "saturation"), (2, "lightness")):
        a = calls[0].args[idx] if len(calls[0].args) > idx else None
        ctx.need(a is not None, "R13.7", "parse_color_hsl: %s not passed positionally" % what)
        if isinstance(a, ast.Name):
            lo, hi = value_range(pfn, a.id, before=calls[0])
        else:
            lo, hi = value_range(ast.FunctionDef(name="_", args=pfn.args, body=[ast.Assign(targets=[ast.Name(id="__v", ctx=ast.Store())], value=a, lineno=1)], decorator_list=[], lineno=0), "__v")
        # or clamped on entry of the conversion
        first_use = None
        for n in ast.walk(callee):
            if isinstance(n, ast.BinOp) and any(isinstance(x, ast.Name) and x.id == cparams[idx] for x in ast.walk(n)):
                first_use = n if first_use is None or n.lineno < first_use.lineno else first_use
        lo2, hi2 = value_range(callee, cparams[idx], before=first_use) if first_use is not None else (float("-inf"), float("inf"))
        if (lo2, hi2) != (float("-inf"), float("inf")) and cparams[idx] in {t.id for t in ast.walk(callee) if isinstance(t, ast.Name) and isinstance(t.ctx, ast.Store)}:
            lo, hi = max(lo, lo2), min(hi, hi2)
        ctx.ob("R13.7", "Color.parse_color_hsl[%s range]" % what, (lo, hi) == (0.0, 1.0), "reaches the conversion confined to [%s, %s]" % (lo, hi), calls[0].lineno,
               "hsl() %s is a percentage clamped to 0%%..100%% on both sides before the conversion" % what)


# ----------------------------------------------------------------------------- R13.8
def hue_modulo(ctx):
    """hue_2_rgb wraps its argument once (if, not while); its callers pass h+1/3, h, h-1/3, so h itself must have been
    reduced modulo a full turn somewhere on the way from the parsed angle to the helper."""
    fn = ctx.fn("Color.hsl_to_int", "R13.8")
    helper = [s for s in fn.body if isinstance(s, ast.FunctionDef)]
    single_wrap = True
    if helper:
        h = helper[0]
        single_wrap = not any(isinstance(s, ast.While) for s in ast.walk(h)) and not any(
            isinstance(s, ast.BinOp) and isinstance(s.op, ast.Mod) for s in ast.walk(h))
    hp = fn.args.args[0].arg

    def has_mod(node, name):
        for n in ast.walk(node):
            if isinstance(n, (ast.BinOp, ast.AugAssign)) and isinstance(n.op, ast.Mod):
                tgt = n.left if isinstance(n, ast.BinOp) else n.target
                if any(isinstance(x, ast.Name) and x.id == name for x in ast.walk(tgt)) or ast.unparse(tgt).startswith(name):
                    return True
            if isinstance(n, ast.Call) and isinstance(n.func, ast.Attribute) and n.func.attr == "normalized":
                return True
            # h - floor(h) is the same reduction (int(h) is not: it truncates toward zero, so negative hues stay negative)
            if isinstance(n, (ast.BinOp, ast.AugAssign)) and isinstance(n.op, ast.Sub):
                sub = n.right if isinstance(n, ast.BinOp) else n.value
                if isinstance(sub, ast.Call) and ast.unparse(sub.func) in ("floor", "math.floor"):
                    return True
        return False

    in_callee = any(has_mod(s, hp) for s in fn.body if not isinstance(s, ast.FunctionDef))
    pfn = ctx.fn("Color.parse_color_hsl", "R13.8")
    calls = [c for c in ast.walk(pfn) if call_name(c) == "Color.hsl_to_int"]
    ctx.need(calls, "R13.8", "parse_color_hsl: call not found")
    a0 = calls[0].args[0]
    in_caller = has_mod(pfn, a0.id) if isinstance(a0, ast.Name) else has_mod(a0, "")
    ctx.ob("R13.8", "Color.hsl_to_int[hue range]", (not single_wrap) or in_callee or in_caller,
           "helper wraps once=%s, modulo in hsl_to_int=%s, modulo in parse_color_hsl=%s" % (single_wrap, in_callee, in_caller), fn.lineno,
           "hue is taken modulo a full turn: the helper corrects a single wrap only, so hues of two turns or more "
           "(hsl(720,...)) fall outside every sector")


# ----------------------------------------------------------------------------- R13.9
def routing(ctx):
    fn = ctx.fn("Color.parse", "R13.9")
    body = [s for s in fn.body if not (isinstance(s, ast.Expr) and isinstance(s.value, ast.Constant))]
    first = body[0]
    ok = isinstance(first, ast.If) and "is None" in ast.unparse(first.test) and ("SVG_VALUE_NONE" in ast.unparse(first.test) or "'none'" in ast.unparse(first.test)) \
        and isinstance(first.body[0], ast.Return) and isinstance(first.body[0].value, ast.Constant) and first.body[0].value.value is None
    ctx.ob("R13.9", "Color.parse[none]", ok, ast.unparse(first.test) if isinstance(first, ast.If) else "", fn.lineno, "None and 'none' denote no colour")
    pairs = {"REGEX_COLOR_HEX": "parse_color_hex", "REGEX_COLOR_RGB": "parse_color_rgb", "REGEX_COLOR_RGB_PERCENT": "parse_color_rgbp", "REGEX_COLOR_HSL": "parse_color_hsl"}
    cur = None
    seen = {}
    for s in fn.body:
        if isinstance(s, ast.Assign) and isinstance(s.value, ast.Call) and isinstance(s.value.func, ast.Attribute) and s.value.func.attr == "match":
            cur = attr_chain(s.value.func.value)[-1]
        if isinstance(s, ast.If) and cur:
            for r in s.body:
                if isinstance(r, ast.Return) and isinstance(r.value, ast.Call):
                    seen[cur] = call_name(r.value).split(".")[-1]
    for rname, fname in pairs.items():
        ctx.ob("R13.9", "Color.parse[%s]" % rname, seen.get(rname) == fname, "routes to %s" % seen.get(rname), fn.lineno, "spelling routed to the wrong parser")
    last = fn.body[-1]
    ctx.ob("R13.9", "Color.parse[keyword]", isinstance(last, ast.Return) and call_name(last.value) == "Color.parse_color_lookup", ast.unparse(last), last.lineno,
           "everything else is looked up as a keyword")
    # percent regex requires a % after each of the three channels; rgb regex none
    for rname, want in (("REGEX_COLOR_RGB", 0), ("REGEX_COLOR_RGB_PERCENT", 3), ("REGEX_COLOR_HSL", 2)):
        pat = ctx.m.regexes.get(rname, "")
        ctx.ob("R13.9", "%s[percent signs]" % rname, pat.count("%") == want, "pattern has %d %% signs" % pat.count("%"), 0, "percent signs of the functional notation")
