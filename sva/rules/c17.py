"""C17 - appending path data continues the parse: Path(a) + b equals Path(a b)."""
import ast

from .. import pathlex as PL
from ..flow import Taint
from ..typedispatch import calls_in, follow
from ..model import AnalysisError, attr_chain, call_name, stmts_in

EXPLANATION = (
    "Static rules (no execution). The continuation law holds by construction when the interpreter state after Path(a) is a "
    "function of the stored segments only. R17.1 stateless lexer: every field the lexer stores is a cursor/bookkeeping "
    "value (assigned from parameters, len(), match positions/text, constants) - no geometric state survives between "
    "parses; Path.parse creates a fresh lexer per call and the lexer's parse re-initialises its cursor. R17.2 state from "
    "segments: the accessors current_point / z_point / smooth_point and every builder callback read no data attribute of "
    "the path other than _segments (effect analysis over self.<attr> reads), and the relative reader consults only "
    "parser.current_point. R17.3 routing: the str branches of Path.__iadd__, Path.__add__ (copy then +=), "
    "PathSegment.__iadd__/__add__ end in parse on the existing path; parse/start/end never rebind or clear _segments. "
    "R17.4: path/subpath concatenation copies the right operand's segments and goes through extend (which links the "
    "first start); shape concatenation parses shape.d(). "
    "The lexer's command dispatch never reads its cursor (self.pos / limit / pathd): how a command is read cannot depend on "
    "where in the string it stands, which is exactly what differs between Path(a b) and Path(a) + b. "
    "Not decided: segment-wise numeric equality."
    " R17.4 covers the reflected operator as well: for string + path, with the path's transform the identity"
    ' the appended segments derive from the path; otherwise they derive from abs(path) / d() - conditional'
    ' expressions are resolved by the scenario.'
    ' R17.5: `path + b` works on copy(path) = Path(path), which takes over the values dictionary including a'
    " `d` text; the constructor's parse of values[d] must be guarded by a marker read from values, and the"
    ' guarded block must set it.'
    " R17.6: the junction of a concatenation is linked by copies of the end points (C18's"
    ' linked_points_are_copies).'
)
TECHNIQUE = (
    "static analysis (no execution): effect analysis (which attributes the lexer stores and the builders read); cursor-independence lint of the dispatch; operator type-dispatch following for += / +"
)
ASSUMPTIONS = [
    "Attribute reads are collected syntactically on `self`; aliasing `self` through another name is not followed (none exists today and would be reported as an unknown read of a local).",
]
FLOORS = {"R17.1": 5, "R17.2": 12, "R17.3": 6}

BUILDERS = ["move", "line", "vertical", "horizontal", "smooth_quad", "quad", "smooth_cubic", "cubic", "arc", "closed"]
STATE_ACCESSORS = ["current_point", "z_point", "smooth_point"]


def run(ctx):
    ctx.rule("R17.1", "lexer carries no geometric state")
    ctx.rule("R17.2", "interpreter state is derived from stored segments only")
    ctx.rule("R17.3", "string branches continue the parse on the existing path")
    ctx.rule("R17.4", "concatenation copies and links")
    lexer_state(ctx)
    state_from_segments(ctx)
    routing(ctx)
    concatenation(ctx)
    ctx.rule("R17.5", "the d attribute kept in values is parsed once: the copy that `+` works on does not parse it again")
    parse_once(ctx)
    ctx.rule("R17.6", "the junction of a concatenation links by copies of the end points (obligations shared with C18 R18.1)")
    from . import c18

    c18.linked_points_are_copies(ctx, "R17.6")


def parse_once(ctx):
    """path + b works on copy(path) = Path(path), which takes over the values dictionary - including the `d` text when the path
    was built from Path(d=...) - together with the segments.  The constructor's parse of values[d] must therefore be guarded by
    a marker kept in values, and every path that parses must set the marker; otherwise the copy holds `a a` before b is appended."""
    fn = ctx.fn("Path.__init__", "R17.5")
    parses = []
    for st in ast.walk(fn):
        if isinstance(st, ast.Call) and attr_chain(st.func) == ["self", "parse"] and len(st.args) == 1 and isinstance(st.args[0], ast.Subscript) \
                and attr_chain(st.args[0].value) == ["self", "values"]:
            parses.append(st)
    ctx.need(parses, "R17.5", "Path.__init__: parse of the d entry of values not found")
    for call in parses:
        # the enclosing test that reads a marker from self.values
        node = call
        marker = guard = None
        while node is not fn and node is not None:
            p = getattr(node, "_parent", None)
            if isinstance(p, ast.If) and any(node is b for b in p.body):
                for c in ast.walk(p.test):
                    if isinstance(c, ast.Call) and isinstance(c.func, ast.Attribute) and c.func.attr == "get" and attr_chain(c.func.value) == ["self", "values"] and c.args \
                            and isinstance(c.args[0], ast.Constant) and isinstance(c.args[0].value, str):
                        negated = isinstance(getattr(c, "_parent", None), ast.UnaryOp)
                        if negated:
                            marker, guard = c.args[0].value, p
                    if isinstance(c, ast.Compare) and len(c.ops) == 1 and isinstance(c.ops[0], ast.NotIn) and isinstance(c.left, ast.Constant) and isinstance(c.left.value, str) \
                            and attr_chain(c.comparators[0]) == ["self", "values"] and ast.unparse(c.left) != ast.unparse(call.args[0].slice):
                        marker, guard = c.left.value, p
            if marker:
                break
            node = p
        ctx.ob("R17.5", "Path.__init__[parse of values[d] guarded by a marker]", marker is not None, "marker: %r" % marker, call.lineno,
               "copy(path) hands the constructor the same values dictionary again: without a marker the d text is parsed on top of the copied segments")
        if marker is None:
            continue
        sets = [st for b in guard.body for st in ast.walk(b) if isinstance(st, ast.Assign) and len(st.targets) == 1 and isinstance(st.targets[0], ast.Subscript)
                and attr_chain(st.targets[0].value) == ["self", "values"] and isinstance(st.targets[0].slice, ast.Constant) and st.targets[0].slice.value == marker
                and isinstance(st.value, ast.Constant) and bool(st.value.value)]
        ctx.ob("R17.5", "Path.__init__[the marker is set when the d text has been parsed]", bool(sets), "marker %r set in the guarded block: %s" % (marker, bool(sets)), guard.lineno,
               "Path(d=a) + b: the copy made by + parses a again and the result is a a b")


def lexer_state(ctx):
    cls = ctx.m.cls("SVGLexicalParser", "R17.1")
    fields = cls.self_fields()
    ctx.need(fields, "R17.1", "lexer has no fields?")
    for name, values in sorted(fields.items()):
        bad = []
        for v in values:
            src = ast.unparse(v)
            fn = v
            while fn is not None and not isinstance(fn, ast.FunctionDef):
                fn = getattr(fn, "_parent", None)
            # locals holding a token match object: bound from <compiled token regex>.match(...)
            match_vars = set()
            if fn is not None:
                for n in ast.walk(fn):
                    if isinstance(n, ast.Assign) and len(n.targets) == 1 and isinstance(n.targets[0], ast.Name) and isinstance(n.value, ast.Call) \
                            and isinstance(n.value.func, ast.Attribute) and n.value.func.attr == "match" and isinstance(n.value.func.value, ast.Name) \
                            and n.value.func.value.id in ctx.m.regexes:
                        match_vars.add(n.targets[0].id)
            of_match = isinstance(v, ast.Call) and isinstance(v.func, ast.Attribute) and v.func.attr in ("end", "group", "start") and not v.args \
                and isinstance(v.func.value, ast.Name) and v.func.value.id in match_vars
            ok = isinstance(v, ast.Constant) or (isinstance(v, ast.Name)) or of_match \
                or (isinstance(v, ast.Call) and isinstance(v.func, ast.Name) and v.func.id == "len")
            if not ok:
                bad.append(src)
            if isinstance(v, ast.Name):
                # a parameter of the enclosing function only
                params = [a.arg for a in fn.args.args] if fn is not None else []
                if v.id not in params:
                    bad.append("%s (not a parameter)" % src)
        ctx.ob("R17.1", "SVGLexicalParser.%s" % name, not bad, "assigned from: %s" % sorted({ast.unparse(v) for v in values}), cls.node.lineno,
               "a lexer field computed from parsed geometry would make the result depend on how the string was split")
    pp = ctx.fn("Path.parse", "R17.1")
    fresh = any(isinstance(s, ast.Assign) and call_name(s.value) == "SVGLexicalParser" for s in pp.body)
    ctx.ob("R17.1", "Path.parse[fresh lexer]", fresh, "", pp.lineno, "each parse call must start from a fresh lexer")
    lp = ctx.fn("SVGLexicalParser.parse", "R17.1")
    inits = {ast.unparse(s.targets[0]) for s in lp.body if isinstance(s, ast.Assign)}
    ctx.ob("R17.1", "SVGLexicalParser.parse[cursor reset]", {"self.pathd", "self.pos", "self.limit", "self.parser"} <= inits, str(sorted(inits)), lp.lineno,
           "the cursor must be re-initialised for the new string")
    # the command interpreter must not consult the cursor: how a command is read may not depend on where in the string it stands
    body_reads = []
    inits = 0
    for n in ast.walk(lp):
        if isinstance(n, ast.Attribute) and isinstance(n.value, ast.Name) and n.value.id == "self" and n.attr in ("pos", "limit", "pathd") and isinstance(n.ctx, ast.Load):
            body_reads.append("self.%s line %d" % (n.attr, n.lineno))
    ctx.ob("R17.1", "SVGLexicalParser.parse[position-independent]", not body_reads, "; ".join(body_reads) or "the dispatch never reads the cursor", lp.lineno,
           "a decision based on the cursor position (first command of THIS string) differs between Path(a b) and Path(a) + b")
    rc = ctx.fn("SVGLexicalParser._rcoord", "R17.1")
    reads = {".".join(attr_chain(n)) for n in ast.walk(rc) if isinstance(n, ast.Attribute) and attr_chain(n) and attr_chain(n)[0] == "self" and len(attr_chain(n)) >= 3}
    ctx.ob("R17.1", "SVGLexicalParser._rcoord[base source]", reads <= {"self.parser.current_point"}, str(sorted(reads)), rc.lineno,
           "relative offsets resolve against the path's current point only")


def self_reads(fn):
    """Names of attributes read on self in fn (excluding call targets are reported separately)."""
    data, calls = set(), set()
    for n in ast.walk(fn):
        if isinstance(n, ast.Attribute) and isinstance(n.value, ast.Name) and n.value.id == "self" and isinstance(n.ctx, ast.Load):
            p = getattr(n, "_parent", None)
            if isinstance(p, ast.Call) and p.func is n:
                calls.add(n.attr)
            else:
                data.add(n.attr)
    return data, calls


def state_from_segments(ctx):
    cls = ctx.m.cls("Path", "R17.2")
    allowed_data = {"_segments"} | set(STATE_ACCESSORS)
    for acc in STATE_ACCESSORS:
        g = cls.getters.get(acc)
        ctx.need(g is not None, "R17.2", "Path.%s not found" % acc)
        data, calls = self_reads(g)
        ctx.ob("R17.2", "Path.%s[reads]" % acc, data <= allowed_data and not calls, "reads %s calls %s" % (sorted(data), sorted(calls)), g.lineno,
               "interpreter state must be a function of the stored segments")
    helper_ok = {"append", "line"} | {n for n in cls.methods if n.startswith("_segment_")}
    for b in BUILDERS:
        fn = ctx.fn("Path.%s" % b, "R17.2")
        data, calls = self_reads(fn)
        ctx.ob("R17.2", "Path.%s[reads]" % b, data <= allowed_data and calls <= helper_ok, "reads %s calls %s" % (sorted(data), sorted(calls)), fn.lineno,
               "a builder that consults other path state (a cached control point, a flag) breaks continuation across separate parses")
        writes = {n.attr for n in ast.walk(fn) if isinstance(n, ast.Attribute) and isinstance(n.value, ast.Name) and n.value.id == "self" and isinstance(n.ctx, ast.Store)}
        ctx.ob("R17.2", "Path.%s[writes]" % b, not writes, "writes %s" % sorted(writes), fn.lineno, "builders store state only by appending segments")
    for h in sorted(helper_ok - {"append", "line"}):
        fn = cls.methods[h]
        data, calls = self_reads(fn)
        ctx.ob("R17.2", "Path.%s[reads]" % h, data <= allowed_data and not calls, "reads %s calls %s" % (sorted(data), sorted(calls)), fn.lineno, "")


def routing(ctx):
    ia = ctx.fn("Path.__iadd__", "R17.3")
    other = ia.args.args[1].arg
    pth = follow(ctx, "R17.3", ia, {other: "str"})
    parses = calls_in(pth.stmts, lambda c: attr_chain(c.func) == ["self", "parse"] and len(c.args) == 1 and isinstance(c.args[0], ast.Name) and c.args[0].id == other)
    ok = bool(parses) and pth.exit == "return" and isinstance(pth.value, ast.Name) and pth.value.id == "self" \
        and not calls_in(pth.stmts, lambda c: call_name(c) == "Path" or (isinstance(c.func, ast.Attribute) and c.func.attr in ("clear", "extend", "append")))
    ctx.ob("R17.3", "Path.__iadd__[str]", ok, "; ".join(ast.unparse(x)[:50] for x in pth.stmts), ia.lineno, "path += string must continue the parse on this path")
    ad = ctx.fn("Path.__add__", "R17.3")
    other = ad.args.args[1].arg
    pth = follow(ctx, "R17.3", ad, {other: "str"})
    copies = Taint(pth.stmts, lambda n: isinstance(n, ast.Call) and ((call_name(n) == "copy" and n.args and isinstance(n.args[0], ast.Name) and n.args[0].id == "self")
                                                                      or attr_chain(n.func) == ["self", "__copy__"] or (call_name(n) == "Path" and n.args and isinstance(n.args[0], ast.Name) and n.args[0].id == "self")),
                   through_containers=False)
    adds = [x for x in pth.stmts if isinstance(x, ast.AugAssign) and isinstance(x.op, ast.Add) and isinstance(x.target, ast.Name) and x.target.id in copies.names
            and isinstance(x.value, ast.Name) and x.value.id == other]
    ok = bool(adds) and pth.exit == "return" and isinstance(pth.value, ast.Name) and pth.value.id in copies.names
    ctx.ob("R17.3", "Path.__add__[str]", ok, "; ".join(ast.unparse(x)[:50] for x in pth.stmts)[:200], ad.lineno, "path + string = copy, then += string")
    ps = ctx.fn("PathSegment.__iadd__", "R17.3")
    other = ps.args.args[1].arg
    pth = follow(ctx, "R17.3", ps, {other: "str"})
    ok = False
    for x in pth.stmts:
        for n in ast.walk(x):
            # Path(<self or a copy of self>) + other   /   p = Path(..self..); p += other / p.parse(other)
            if isinstance(n, ast.BinOp) and isinstance(n.op, ast.Add) and call_name(n.left) == "Path" and isinstance(n.right, ast.Name) and n.right.id == other \
                    and any(isinstance(a, ast.Name) and a.id == "self" for a in ast.walk(n.left)):
                ok = True
            if isinstance(n, ast.Call) and isinstance(n.func, ast.Attribute) and n.func.attr == "parse" and n.args and isinstance(n.args[0], ast.Name) and n.args[0].id == other:
                ok = True
            if isinstance(n, ast.AugAssign) and isinstance(n.op, ast.Add) and isinstance(n.value, ast.Name) and n.value.id == other:
                ok = True
    ok = ok and any(call_name(c) == "Path" and any(isinstance(a, ast.Name) and a.id == "self" for a in ast.walk(c)) for x in pth.stmts for c in ast.walk(x) if isinstance(c, ast.Call))
    ctx.ob("R17.3", "PathSegment.__iadd__[str]", ok, "", ps.lineno, "segment + string = Path(segment) + string")
    cls = ctx.m.cls("PathSegment")
    ctx.ob("R17.3", "PathSegment.__add__ alias", cls.aliases.get("__add__") == "__iadd__", str(cls.aliases.get("__add__")), cls.node.lineno, "")
    for q in ("Path.parse", "Path.start", "Path.end"):
        fn = ctx.fn(q, "R17.3")
        bad = [ast.unparse(n) for n in ast.walk(fn) if isinstance(n, ast.Attribute) and isinstance(n.value, ast.Name) and n.value.id == "self"
               and n.attr in ("_segments",) and isinstance(n.ctx, (ast.Store, ast.Del))]
        clear = [ast.unparse(c) for c in ast.walk(fn) if isinstance(c, ast.Call) and isinstance(c.func, ast.Attribute) and c.func.attr in ("clear", "pop", "remove")]
        ctx.ob("R17.3", "%s[keeps segments]" % q, not bad and not clear, "%s %s" % (bad, clear), fn.lineno, "parsing more data must not discard what is already there")
    lp = ctx.fn("SVGLexicalParser.parse", "R17.3")
    pcalls = sorted({attr_chain(c.func)[2] for c in ast.walk(lp) if isinstance(c, ast.Call) and attr_chain(c.func) and attr_chain(c.func)[:2] == ["self", "parser"] and len(attr_chain(c.func)) == 3})
    ctx.ob("R17.3", "SVGLexicalParser.parse[parser interface]", set(pcalls) <= set(BUILDERS) | {"start", "end"}, str(pcalls), lp.lineno,
           "the lexer drives the path only through the builder callbacks")


def _chain(s):
    from ..model import if_chain

    return if_chain(s)


def concatenation(ctx):
    ia = ctx.fn("Path.__iadd__", "R17.4")
    other = ia.args.args[1].arg
    def identity_answer(ans):
        def extra(t):
            if isinstance(t, ast.Call) and isinstance(t.func, ast.Attribute) and t.func.attr == "is_identity" and not t.args:
                return ans
            return None
        return extra

    # a right operand that carries a transform: what is appended must be what it draws (as other.d() is for a shape)
    pth = follow(ctx, "R17.4", ia, {other: "Path"}, extra=identity_answer(False))
    applied = any(isinstance(st, ast.Assign) and any(isinstance(t, ast.Name) and t.id == other for t in st.targets) and isinstance(st.value, ast.Call)
                  and (call_name(st.value) == "abs" or (isinstance(st.value.func, ast.Attribute) and st.value.func.attr in ("reify",))) for st in pth.stmts) \
        or bool(calls_in(pth.stmts, lambda c: isinstance(c.func, ast.Attribute) and c.func.attr in ("d", "segments") and attr_chain(c.func.value) == [other])) \
        or any(isinstance(b, ast.BinOp) and isinstance(b.op, ast.Mult) and ast.unparse(b.right).endswith(".transform") for st in pth.stmts for b in ast.walk(st))
    ctx.ob("R17.4", "Path.__iadd__[Path carrying a transform]", applied, "; ".join(ast.unparse(x)[:60] for x in pth.stmts), ia.lineno,
           "the right operand's raw segments are copied and its transform is dropped: Path('M0,0 L1,1') + Path('M0,0 L10,0', transform='translate(5,5)') draws the second part at the origin")
    for tname in ("Path", "Subpath"):
        pth = follow(ctx, "R17.4", ia, {other: tname}, extra=identity_answer(True))
        ext = calls_in(pth.stmts, lambda c: attr_chain(c.func) == ["self", "extend"] and len(c.args) == 1)
        from_other = Taint(pth.stmts, lambda n: isinstance(n, ast.Name) and n.id == other, through_containers=True)
        copied = bool(ext) and all(any((isinstance(n, ast.Name) and n.id == "copy") or (isinstance(n, ast.Attribute) and n.attr == "__copy__") for n in ast.walk(c.args[0]))
                                   and from_other.derived(c.args[0]) for c in ext)
        raw = calls_in(pth.stmts, lambda c: isinstance(c.func, ast.Attribute) and c.func.attr in ("append", "insert") and attr_chain(c.func.value) in (["self"], ["self", "_segments"]))
        ctx.ob("R17.4", "Path.__iadd__[%s]" % tname, copied and not raw and pth.exit == "return", "; ".join(ast.unparse(x)[:60] for x in pth.stmts), ia.lineno,
               "concatenation must copy the right operand's segments and link them through extend")
    # string + path: the same two obligations for the reflected operator, where the path is the RIGHT operand
    ra = ctx.fn("Path.__radd__", "R17.4")
    rother = ra.args.args[1].arg
    for ident in (False, True):
        pth = follow(ctx, "R17.4", ra, {rother: "str"}, extra=identity_answer(ident))
        ext = [c for c in calls_in(pth.stmts, lambda c: isinstance(c.func, ast.Attribute) and c.func.attr in ("extend", "__iadd__") and len(c.args) == 1)] + \
            [st for st in pth.stmts if isinstance(st, ast.AugAssign) and isinstance(st.op, ast.Add)]
        drawn = Taint(pth.stmts, lambda n: (isinstance(n, ast.Call) and (call_name(n) == "abs" or (isinstance(n.func, ast.Attribute) and n.func.attr in ("d", "segments", "reify")))
                                             and any(isinstance(x, ast.Name) and x.id == "self" for x in ast.walk(n)))
                      or (isinstance(n, ast.BinOp) and isinstance(n.op, ast.Mult) and ast.unparse(n.right).endswith(".transform")), through_containers=True)
        from_self = Taint(pth.stmts, lambda n: isinstance(n, ast.Name) and n.id == "self", through_containers=True)
        args = [(c.args[0] if isinstance(c, ast.Call) else c.value) for c in ext]
        if ident:
            ok = bool(args) and all(from_self.derived(a) for a in args)
            ctx.ob("R17.4", "Path.__radd__[str + plain path]", ok and pth.exit == "return", "; ".join(ast.unparse(x)[:60] for x in pth.stmts), ra.lineno,
                   "string + path appends the path's segments to the parsed string")
        else:
            ok = bool(args) and all(drawn.derived(a) for a in args)
            ctx.ob("R17.4", "Path.__radd__[str + path carrying a transform]", ok and pth.exit == "return", "; ".join(ast.unparse(x)[:60] for x in pth.stmts), ra.lineno,
                   "what is appended must be what the path draws (abs / d()), not its raw segments: 'M0,0' + Path('L1,1', transform='scale(2)') ends at (2,2)")
    pth = follow(ctx, "R17.4", ia, {other: "Rect"})
    ok = bool(calls_in(pth.stmts, lambda c: attr_chain(c.func) == ["self", "parse"] and len(c.args) == 1 and isinstance(c.args[0], ast.Call) and attr_chain(c.args[0].func) == [other, "d"]))
    ctx.ob("R17.4", "Path.__iadd__[Shape]", ok, "; ".join(ast.unparse(x)[:60] for x in pth.stmts), ia.lineno, "a shape is appended as its path data")
    ex = ctx.fn("Path.extend", "R17.4")
    vc = [c for c in ast.walk(ex) if isinstance(c, ast.Call) and attr_chain(c.func) == ["self", "_validate_connection"] and len(c.args) == 1]
    # the index handed to the validator is the position of the last old segment: len(self._segments) - 1 taken BEFORE the new ones are added
    okl = False
    for c in vc:
        t = Taint(ex, lambda n: isinstance(n, ast.Call) and call_name(n) == "len" and n.args and attr_chain(n.args[0]) == ["self", "_segments"], through_containers=False)
        okl = okl or t.derived(c.args[0])
    lens = [n for n in ast.walk(ex) if isinstance(n, ast.Call) and call_name(n) == "len" and n.args and attr_chain(n.args[0]) == ["self", "_segments"]]
    grows = [c for c in ast.walk(ex) if isinstance(c, ast.Call) and isinstance(c.func, ast.Attribute) and c.func.attr in ("extend", "append") and attr_chain(c.func.value) == ["self", "_segments"]]
    before = bool(lens) and bool(grows) and min(n.lineno for n in lens) < min(c.lineno for c in grows)
    ctx.ob("R17.4", "Path.extend[links]", bool(vc) and okl and before, "", ex.lineno,
           "the first appended segment's start is linked to the previous end")
