"""C17 - appending path data continues the parse: Path(a) + b equals Path(a b)."""
import ast

from .. import pathlex as PL
from ..model import AnalysisError, attr_chain, call_name, stmts_in

EXPLANATION = (
    "Static rules (no execution). The continuation law holds by construction when the interpreter state after Path(a) is a "
    "function of the stored segments only. R17.1 stateless lexer: every field the lexer stores is a cursor/bookkeeping "
    "value (assigned from parameters, len(), match positions/text, constants) - no geometric state survives between "
    "parses; Path.parse creates a fresh lexer per call and the lexer's parse re-initialises its cursor. R17.2 state from "
    "segments: the accessors current_point / z_point / smooth_point and every builder callback read no data attribute of "
    "the path other than _segments (effect analysis over self.<attr> reads), and the relative reader consults only "
    "parser.current_point. R17.3 routing: the str branches of Path.__iadd__, Path.__add__ (copy then +=), "
    "PathSegment.__iadd__/__add__ end in parse on the existing path; parse/start/end never rebind or clear _segments. "
    "R17.4: path/subpath concatenation copies the right operand's segments and goes through extend (which links the "
    "first start); shape concatenation parses shape.d(). "
    "The lexer's command dispatch never reads its cursor (self.pos / limit / pathd): how a command is read cannot depend on "
    "where in the string it stands, which is exactly what differs between Path(a b) and Path(a) + b. "
    "Not decided: segment-wise numeric equality."
)
ASSUMPTIONS = [
    "Attribute reads are collected syntactically on `self`; aliasing `self` through another name is not followed (none exists today and would be reported as an unknown read of a local).",
]
FLOORS = {"R17.1": 5, "R17.2": 12, "R17.3": 6}

BUILDERS = ["move", "line", "vertical", "horizontal", "smooth_quad", "quad", "smooth_cubic", "cubic", "arc", "closed"]
STATE_ACCESSORS = ["current_point", "z_point", "smooth_point"]


def run(ctx):
    ctx.rule("R17.1", "lexer carries no geometric state")
    ctx.rule("R17.2", "interpreter state is derived from stored segments only")
    ctx.rule("R17.3", "string branches continue the parse on the existing path")
    ctx.rule("R17.4", "concatenation copies and links")
    lexer_state(ctx)
    state_from_segments(ctx)
    routing(ctx)
    concatenation(ctx)


def lexer_state(ctx):
    cls = ctx.m.cls("SVGLexicalParser", "R17.1")
    fields = cls.self_fields()
    ctx.need(fields, "R17.1", "lexer has no fields?")
    for name, values in sorted(fields.items()):
        bad = []
        for v in values:
            src = ast.unparse(v)
            ok = isinstance(v, ast.Constant) or (isinstance(v, ast.Name)) or src in ("match.end()", "match.group()") \
                or (isinstance(v, ast.Call) and isinstance(v.func, ast.Name) and v.func.id == "len")
            if not ok:
                bad.append(src)
            if isinstance(v, ast.Name):
                # a parameter of the enclosing function only
                fn = v
                while fn is not None and not isinstance(fn, ast.FunctionDef):
                    fn = getattr(fn, "_parent", None)
                params = [a.arg for a in fn.args.args] if fn is not None else []
                if v.id not in params:
                    bad.append("%s (not a parameter)" % src)
        ctx.ob("R17.1", "SVGLexicalParser.%s" % name, not bad, "assigned from: %s" % sorted({ast.unparse(v) for v in values}), cls.node.lineno,
               "a lexer field computed from parsed geometry would make the result depend on how the string was split")
    pp = ctx.fn("Path.parse", "R17.1")
    fresh = any(isinstance(s, ast.Assign) and call_name(s.value) == "SVGLexicalParser" for s in pp.body)
    ctx.ob("R17.1", "Path.parse[fresh lexer]", fresh, "", pp.lineno, "each parse call must start from a fresh lexer")
    lp = ctx.fn("SVGLexicalParser.parse", "R17.1")
    inits = {ast.unparse(s.targets[0]) for s in lp.body if isinstance(s, ast.Assign)}
    ctx.ob("R17.1", "SVGLexicalParser.parse[cursor reset]", {"self.pathd", "self.pos", "self.limit", "self.parser"} <= inits, str(sorted(inits)), lp.lineno,
           "the cursor must be re-initialised for the new string")
    # the command interpreter must not consult the cursor: how a command is read may not depend on where in the string it stands
    body_reads = []
    inits = 0
    for n in ast.walk(lp):
        if isinstance(n, ast.Attribute) and isinstance(n.value, ast.Name) and n.value.id == "self" and n.attr in ("pos", "limit", "pathd") and isinstance(n.ctx, ast.Load):
            body_reads.append("self.%s line %d" % (n.attr, n.lineno))
    ctx.ob("R17.1", "SVGLexicalParser.parse[position-independent]", not body_reads, "; ".join(body_reads) or "the dispatch never reads the cursor", lp.lineno,
           "a decision based on the cursor position (first command of THIS string) differs between Path(a b) and Path(a) + b")
    rc = ctx.fn("SVGLexicalParser._rcoord", "R17.1")
    reads = {".".join(attr_chain(n)) for n in ast.walk(rc) if isinstance(n, ast.Attribute) and attr_chain(n) and attr_chain(n)[0] == "self" and len(attr_chain(n)) >= 3}
    ctx.ob("R17.1", "SVGLexicalParser._rcoord[base source]", reads <= {"self.parser.current_point"}, str(sorted(reads)), rc.lineno,
           "relative offsets resolve against the path's current point only")


def self_reads(fn):
    """Names of attributes read on self in fn (excluding call targets are reported separately)."""
    data, calls = set(), set()
    for n in ast.walk(fn):
        if isinstance(n, ast.Attribute) and isinstance(n.value, ast.Name) and n.value.id == "self" and isinstance(n.ctx, ast.Load):
            p = getattr(n, "_parent", None)
            if isinstance(p, ast.Call) and p.func is n:
                calls.add(n.attr)
            else:
                data.add(n.attr)
    return data, calls


def state_from_segments(ctx):
    cls = ctx.m.cls("Path", "R17.2")
    allowed_data = {"_segments"} | set(STATE_ACCESSORS)
    for acc in STATE_ACCESSORS:
        g = cls.getters.get(acc)
        ctx.need(g is not None, "R17.2", "Path.%s not found" % acc)
        data, calls = self_reads(g)
        ctx.ob("R17.2", "Path.%s[reads]" % acc, data <= allowed_data and not calls, "reads %s calls %s" % (sorted(data), sorted(calls)), g.lineno,
               "interpreter state must be a function of the stored segments")
    helper_ok = {"append", "line"} | {n for n in cls.methods if n.startswith("_segment_")}
    for b in BUILDERS:
        fn = ctx.fn("Path.%s" % b, "R17.2")
        data, calls = self_reads(fn)
        ctx.ob("R17.2", "Path.%s[reads]" % b, data <= allowed_data and calls <= helper_ok, "reads %s calls %s" % (sorted(data), sorted(calls)), fn.lineno,
               "a builder that consults other path state (a cached control point, a flag) breaks continuation across separate parses")
        writes = {n.attr for n in ast.walk(fn) if isinstance(n, ast.Attribute) and isinstance(n.value, ast.Name) and n.value.id == "self" and isinstance(n.ctx, ast.Store)}
        ctx.ob("R17.2", "Path.%s[writes]" % b, not writes, "writes %s" % sorted(writes), fn.lineno, "builders store state only by appending segments")
    for h in sorted(helper_ok - {"append", "line"}):
        fn = cls.methods[h]
        data, calls = self_reads(fn)
        ctx.ob("R17.2", "Path.%s[reads]" % h, data <= allowed_data and not calls, "reads %s calls %s" % (sorted(data), sorted(calls)), fn.lineno, "")


def routing(ctx):
    ia = ctx.fn("Path.__iadd__", "R17.3")
    ok = False
    for s in ast.walk(ia):
        if isinstance(s, ast.If) and ast.unparse(s.test) == "isinstance(other, str)":
            ok = len(s.body) == 1 and ast.unparse(s.body[0]) == "self.parse(other)"
    ctx.ob("R17.3", "Path.__iadd__[str]", ok, "", ia.lineno, "path += string must continue the parse on this path")
    ad = ctx.fn("Path.__add__", "R17.3")
    src = [ast.unparse(s) for s in stmts_in(ad.body)]
    ok = any(x in src for x in ("n = copy(self)", "n = self.__copy__()")) and "n += other" in src and "return n" in src \
        and any("str" in ast.unparse(s.test) for s in ast.walk(ad) if isinstance(s, ast.If))
    ctx.ob("R17.3", "Path.__add__[str]", ok, "; ".join(src)[:200], ad.lineno, "path + string = copy, then += string")
    ps = ctx.fn("PathSegment.__iadd__", "R17.3")
    ok = False
    for s in ast.walk(ps):
        if isinstance(s, ast.If):
            for t, body in _chain(s):
                if t is not None and ast.unparse(t) == "isinstance(other, str)":
                    for x in body:
                        for n in ast.walk(x):
                            # Path(<self or a copy of self>) + other   /   p = Path(..self..); p += other / p.parse(other)
                            if isinstance(n, ast.BinOp) and isinstance(n.op, ast.Add) and call_name(n.left) == "Path" and ast.unparse(n.right) == "other" \
                                    and any(isinstance(a, ast.Name) and a.id == "self" for a in ast.walk(n.left)):
                                ok = True
                            if isinstance(n, ast.Call) and isinstance(n.func, ast.Attribute) and n.func.attr == "parse" and ast.unparse(n.args[0]) == "other":
                                ok = True
                            if isinstance(n, ast.AugAssign) and isinstance(n.op, ast.Add) and ast.unparse(n.value) == "other":
                                ok = True
    ctx.ob("R17.3", "PathSegment.__iadd__[str]", ok, "", ps.lineno, "segment + string = Path(segment) + string")
    cls = ctx.m.cls("PathSegment")
    ctx.ob("R17.3", "PathSegment.__add__ alias", cls.aliases.get("__add__") == "__iadd__", str(cls.aliases.get("__add__")), cls.node.lineno, "")
    for q in ("Path.parse", "Path.start", "Path.end"):
        fn = ctx.fn(q, "R17.3")
        bad = [ast.unparse(n) for n in ast.walk(fn) if isinstance(n, ast.Attribute) and isinstance(n.value, ast.Name) and n.value.id == "self"
               and n.attr in ("_segments",) and isinstance(n.ctx, (ast.Store, ast.Del))]
        clear = [ast.unparse(c) for c in ast.walk(fn) if isinstance(c, ast.Call) and isinstance(c.func, ast.Attribute) and c.func.attr in ("clear", "pop", "remove")]
        ctx.ob("R17.3", "%s[keeps segments]" % q, not bad and not clear, "%s %s" % (bad, clear), fn.lineno, "parsing more data must not discard what is already there")
    lp = ctx.fn("SVGLexicalParser.parse", "R17.3")
    pcalls = sorted({attr_chain(c.func)[2] for c in ast.walk(lp) if isinstance(c, ast.Call) and attr_chain(c.func) and attr_chain(c.func)[:2] == ["self", "parser"] and len(attr_chain(c.func)) == 3})
    ctx.ob("R17.3", "SVGLexicalParser.parse[parser interface]", set(pcalls) <= set(BUILDERS) | {"start", "end"}, str(pcalls), lp.lineno,
           "the lexer drives the path only through the builder callbacks")


def _chain(s):
    from ..model import if_chain

    return if_chain(s)


def concatenation(ctx):
    ia = ctx.fn("Path.__iadd__", "R17.4")
    from ..model import if_chain

    top = [s for s in ia.body if isinstance(s, ast.If)]
    ctx.need(top, "R17.4", "Path.__iadd__: dispatch not found")
    seen = {}
    for t, body in if_chain(top[0]):
        if t is not None:
            seen[ast.unparse(t)] = [ast.unparse(x) for x in body]
    pth = [v for k, v in seen.items() if "Path" in k and "Subpath" in k]
    ok = bool(pth) and any("self.extend(" in x and ("map(copy" in x or "copy(" in x) for x in pth[0])
    ctx.ob("R17.4", "Path.__iadd__[Path/Subpath]", ok, str(pth), ia.lineno, "concatenation must copy the right operand's segments and link them through extend")
    shp = [v for k, v in seen.items() if k == "isinstance(other, Shape)"]
    ok = bool(shp) and shp[0] == ["self.parse(other.d())"]
    ctx.ob("R17.4", "Path.__iadd__[Shape]", ok, str(shp), ia.lineno, "a shape is appended as its path data")
    ex = ctx.fn("Path.extend", "R17.4")
    src = ast.unparse(ex)
    ctx.ob("R17.4", "Path.extend[links]", "self._validate_connection(index)" in src and "index = len(self._segments) - 1" in src, "", ex.lineno,
           "the first appended segment's start is linked to the previous end")
