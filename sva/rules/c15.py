"""C15 - lengths are true arc lengths, isometry-invariant, and drive point(t)."""
import ast

from .. import cachecoh
from ..algebra import RF, Alg, Uninterpreted, atom, const, opaque_name
from ..flow import Taint, bindings, const_value, names
from ..model import AnalysisError, attr_chain, call_name, stmts_in
from ..pe import PE, K, Raised

EXPLANATION = (
    "Static rules (no execution). R15.1 additivity: the path length is the sum of one length per stored segment "
    "(untransformed decomposition), fractions are each/total, the base segment length (inherited by Move) is the constant 0. "
    "R15.2 point(t): t <= 0 and t >= 1 short-circuit to the first/last segment; otherwise the segment is chosen by the "
    "running sum of fractions and the local parameter is (t - start)/(end - start), with the running start carried over. "
    "R15.3 closed forms: Point.distance is the Euclidean norm; Linear.length is the end-point distance; a circular arc is "
    "|r x sweep|; the quadratic closed form (A, B, C and the assembled expression) equals Malczak's formula as exact "
    "canonical forms over opaque sqrt/log. R15.4 subdivision: segment_length bisects at the midpoint, recurses on both "
    "halves, returns the sum, and its stopping test consults both the error and the minimum depth. R15.5 cache coherence: "
    "every Path/Subpath method that rebinds or permutes the segment list, or mutates stored segments in place, invalidates "
    "the cached length (directly or through a callee; fixed point over the call graph). "
    "The quadratic's collinear fallback (taken when the closed form divides by zero) is checked case by case: a = 0 gives |b|; "
    "the monotone case needs |b| >= 2|a| and gives |b| - |a|; the turning case gives |a|(k^2/2 - k + 1) with k = |b|/|a| (with a "
    "lower threshold the turning parabola is measured end to end and the length comes out short). "
    "Not decided: accuracy within "
    "`error`, isometry invariance as a numeric fact."
    ' R15.3 (Arc.length shortcuts): a returned value that is not computed from the radii and the sweep - the'
    ' chord, a constant - must be dominated by a test that the sweep is zero: coincident end points with a'
    ' non-zero sweep are a full turn.'
    ' R15.5 cache sentinel: the set of fields that every invalidation site clears is computed over the whole'
    ' module (list mutators clear the total only), and every test by which point / npoint / length /'
    ' _calc_lengths decide that the cache is valid must use a field of that set.'
    " R15.6: 'unchanged by reversal' - C16's per-class reversal effects (start/end exchanged, ordered control"
    ' points exchanged, sweep negated, on every path through reverse()) run here as well.'
    " R15.7: the connection validators store copies of the neighbour's end point (C18's"
    ' linked_points_are_copies), so an in-place transform of an assembled path maps every point once.'
)
TECHNIQUE = (
    "static analysis (no execution): role-based structural rules for additivity/fractions/point(t); closed forms as exact canonical forms; collinear fallback by partial evaluation; NNF of the subdivision stopping test; cache-coherence fixed point over the call graph"
)
ASSUMPTIONS = [
    "Mutation of a segment's points by the caller (outside Path/Subpath methods) cannot be seen by the path and is out of scope.",
    "Numerical accuracy of subdivision/integration is not decided.",
]
FLOORS = {"R15.1": 4, "R15.2": 5, "R15.3": 6, "R15.4": 4, "R15.5": 8}


def run(ctx):
    ctx.rule("R15.1", "additivity and fractions")
    ctx.rule("R15.2", "point(t) segment selection and local parameter")
    ctx.rule("R15.3", "closed forms")
    ctx.rule("R15.4", "subdivision structure")
    ctx.rule("R15.5", "length-cache coherence")
    additivity(ctx)
    point_t(ctx)
    closed_forms(ctx)
    quad_fallback(ctx)
    quad_conditioning(ctx)
    cache_error(ctx)
    cache_sentinel(ctx)
    # "unchanged by reversal": a reversed segment must be the same curve, i.e. the per-class reversal effects of C16 R16.1
    ctx.rule("R15.6", "length is unchanged by reversal: reverse() of every segment class yields the same curve (obligations shared with C16 R16.1)")
    from . import c16

    c16.per_class(ctx.renamed("R15.6"))
    ctx.rule("R15.7", "isometry invariance of assembled paths: linked end points are copies, so an in-place transform maps every point once (obligations shared with C18 R18.1)")
    from . import c18

    c18.linked_points_are_copies(ctx, "R15.7")
    subdivision(ctx)
    n = cachecoh.check(ctx, "R15.5")
    ctx.need(n >= 8, "R15.5", "too few mutating methods recognised (%d)" % n)


def quad_conditioning(ctx):
    """The closed form of the quadratic length divides by powers of |a| (a = start - 2 control + end).  It is left through
    ZeroDivisionError only when a is exactly 0; for a control point that is the chord midpoint up to rounding (|a| ~ 1e-16,
    e.g. Q 0.4,0.5 0.7,0.3 from 0.1,0.7) it returns half the true length.  The formula must be entered only when |a| is not
    negligible against |b|: a comparison of the two magnitudes that leaves before the division."""
    q = ctx.fn("QuadraticBezier.length", "R15.3")
    tr = [x for x in ast.walk(q) if isinstance(x, ast.Try)]
    ctx.need(len(tr) == 1, "R15.3", "QuadraticBezier.length: closed-form block not found")
    avar = bvar = None
    for st in q.body:
        if isinstance(st, ast.Assign) and isinstance(st.targets[0], ast.Name):
            src = ast.unparse(st.value).replace(" ", "")
            if "2*self.control" in src and "self.start" in src and "self.end" in src:
                avar = st.targets[0].id
            elif src.startswith("2*(self.control-self.start)") or src.startswith("2*(self.control-self.start)".replace("2*(", "(").replace(")", ")*2")):
                bvar = st.targets[0].id
    ctx.need(avar is not None and bvar is not None, "R15.3", "QuadraticBezier.length: second difference / first difference locals not found")

    def mag(n, v):
        return isinstance(n, ast.Call) and call_name(n) == "abs" and len(n.args) == 1 and isinstance(n.args[0], ast.Name) and n.args[0].id == v

    def relative(test):
        if isinstance(test, ast.Compare) and len(test.ops) == 1 and isinstance(test.ops[0], (ast.Lt, ast.LtE, ast.Gt, ast.GtE)):
            l, r = test.left, test.comparators[0]
            sides = [l, r]
            has_a = any(mag(x, avar) or (isinstance(x, ast.BinOp) and any(mag(y, avar) for y in ast.walk(x))) for x in sides)
            has_b = any(mag(x, bvar) or (isinstance(x, ast.BinOp) and any(mag(y, bvar) for y in ast.walk(x))) for x in sides)
            return has_a and has_b
        return False

    guards = [st for st in stmts_in(q.body) if isinstance(st, ast.If) and relative(st.test) and st.lineno < tr[0].lineno + 3
              and any(isinstance(x, (ast.Return, ast.Raise)) for x in st.body)]
    ctx.ob("R15.3", "QuadraticBezier.length[closed form entered only when |a| is not negligible against |b|]", bool(guards),
           "; ".join(ast.unparse(g.test) for g in guards) or "only the ZeroDivisionError/ValueError handler leads to the straight-line case", q.lineno,
           "a control point at the chord midpoint up to rounding leaves |a| ~ 1e-16: no exception, and the closed form has no correct digit (a straight line of length 0.72 measures 0.52)")


def cache_sentinel(ctx):
    """The cache is two fields, the total and the per-segment fractions.  Invalidation sites do not all clear both: the list
    mutators (append, insert, extend, del) clear the total only.  A reader may therefore decide "the cache is valid" only by a
    field that EVERY invalidation site clears; the other one can be stale while it is still not None."""
    fields = ("_length", "_lengths")
    sites = {}
    for q, fn in ctx.m.all_functions():
        cleared = set()
        for st in ast.walk(fn):
            if isinstance(st, ast.Assign) and isinstance(st.value, ast.Constant) and st.value.value is None:
                for t in st.targets:
                    ch = attr_chain(t)
                    if ch and ch[-1] in fields and ch[0] == "self":
                        cleared.add(ch[-1])
        if cleared and q.split(".")[-1] not in ("__init__",):
            sites[q] = cleared
    ctx.need(len(sites) >= 6, "R15.5", "invalidation sites of the length cache not found (%d)" % len(sites))
    safe = set(fields)
    for q, c in sites.items():
        safe &= c
    ctx.ob("R15.5", "length cache[a field every invalidation site clears]", bool(safe), "cleared everywhere: %s; sites: %d" % (sorted(safe), len(sites)), 0,
           "no field is cleared by every invalidation site: no reader can tell a stale cache from a valid one")
    n = 0
    for q in ("Shape.point", "Shape.npoint", "Shape._calc_lengths", "Shape.length"):
        fn = ctx.fn(q, "R15.5")
        for st in ast.walk(fn):
            if not isinstance(st, ast.If):
                continue
            tested = [attr_chain(x.left)[-1] for x in ast.walk(st.test) if isinstance(x, ast.Compare) and len(x.ops) == 1 and isinstance(x.ops[0], (ast.Is, ast.IsNot))
                      and isinstance(x.comparators[0], ast.Constant) and x.comparators[0].value is None and attr_chain(x.left) and attr_chain(x.left)[0] == "self" and attr_chain(x.left)[-1] in fields]
            if not tested:
                continue
            decides = any(isinstance(c, ast.Call) and attr_chain(c.func) == ["self", "_calc_lengths"] for b in st.body for c in ast.walk(b)) or \
                any(isinstance(b, ast.Return) for b in st.body)
            if not decides:
                continue
            n += 1
            ok = all(t in safe for t in tested)
            ctx.ob("R15.5", "%s[cache validity decided by %s]" % (q, "+".join(tested)), ok, "fields cleared by every invalidation site: %s" % sorted(safe), st.lineno,
                   "append/insert/extend/del clear the total only: after point(t); path.line(...); point(t) the fractions are those of the old segment list")
    ctx.need(n >= 1, "R15.5", "cache validity tests not found (%d)" % n)


def cache_error(ctx):
    """length(error=...) and point(t, error=...) go through Shape._calc_lengths, which keeps what it computed first.  The cached
    value is reused whatever accuracy the next caller asks for."""
    fn = ctx.fn("Shape._calc_lengths", "R15.5")
    early = [st for st in fn.body if isinstance(st, ast.If) and any(isinstance(x, ast.Return) for x in st.body) and "_length" in ast.unparse(st.test)]
    ctx.need(bool(early), "R15.5", "Shape._calc_lengths: cache test not found")
    consults = any(any(isinstance(n, ast.Name) and n.id in ("error", "min_depth") for n in ast.walk(st.test)) for st in early)
    ctx.ob("R15.5", "Shape._calc_lengths[cache remembers the accuracy it was computed with]", consults, "; ".join(ast.unparse(st.test) for st in early), fn.lineno,
           "length(error=1e-4) followed by length(error=1e-9) returns the 1e-4 value again: the early return does not look at the requested error")


def _passes(call, pname, pos):
    """the call forwards the caller's parameter pname (as keyword of the same name or positionally at pos)"""
    for k in call.keywords:
        if k.arg == pname and isinstance(k.value, ast.Name) and k.value.id == pname:
            return True
    return len(call.args) > pos and isinstance(call.args[pos], ast.Name) and call.args[pos].id == pname


def additivity(ctx):
    fn = ctx.fn("Shape._calc_lengths", "R15.1")
    segp = fn.args.args[3].arg if len(fn.args.args) > 3 else "segments"
    # the per-segment length list: [x.length(error=.., min_depth=..) for x in <segments>]
    per = []
    for tg, v, n in bindings(fn):
        if isinstance(tg, ast.Name) and isinstance(v, (ast.ListComp, ast.GeneratorExp)) and len(v.generators) == 1 and isinstance(v.generators[0].target, ast.Name) \
                and isinstance(v.elt, ast.Call) and isinstance(v.elt.func, ast.Attribute) and v.elt.func.attr == "length" \
                and isinstance(v.elt.func.value, ast.Name) and v.elt.func.value.id == v.generators[0].target.id \
                and isinstance(v.generators[0].iter, ast.Name) and v.generators[0].iter.id == segp and not v.generators[0].ifs:
            per.append((tg.id, v.elt))
    ok = len(per) == 1 and _passes(per[0][1], "error", 0) and _passes(per[0][1], "min_depth", 1)
    L = per[0][0] if per else None
    tot = Taint(fn, lambda n: isinstance(n, ast.Call) and call_name(n) == "sum" and len(n.args) == 1 and isinstance(n.args[0], ast.Name) and n.args[0].id == L, through_containers=False)
    st_total = [x for x in ast.walk(fn) if isinstance(x, ast.Assign) and attr_chain(x.targets[0]) == ["self", "_length"]]
    ok = ok and bool(st_total) and all(tot.derived(x.value) for x in st_total)
    ctx.ob("R15.1", "Shape._calc_lengths[sum of segment lengths]", ok, "", fn.lineno, "total length = sum over all segments of their lengths")

    def is_total(e):
        return attr_chain(e) == ["self", "_length"] or (isinstance(e, ast.Name) and e.id in tot.names)

    st_fr = [x for x in ast.walk(fn) if isinstance(x, ast.Assign) and attr_chain(x.targets[0]) == ["self", "_lengths"]]
    fr_ok = False
    for x in st_fr:
        v = x.value
        if isinstance(v, ast.ListComp) and len(v.generators) == 1 and isinstance(v.generators[0].target, ast.Name) and isinstance(v.generators[0].iter, ast.Name) \
                and v.generators[0].iter.id == L and not v.generators[0].ifs and isinstance(v.elt, ast.BinOp) and isinstance(v.elt.op, ast.Div) \
                and isinstance(v.elt.left, ast.Name) and v.elt.left.id == v.generators[0].target.id and is_total(v.elt.right):
            fr_ok = True
    others = [x for x in st_fr if not (isinstance(x.value, ast.ListComp)) and not (isinstance(x.value, ast.Name) and x.value.id == L)]
    ctx.ob("R15.1", "Shape._calc_lengths[fractions]", fr_ok and not others, "; ".join(ast.unparse(x)[:70] for x in st_fr), fn.lineno, "fractions are length/total in segment order")
    dflt = [x for x in ast.walk(fn) if isinstance(x, ast.Assign) and isinstance(x.targets[0], ast.Name) and x.targets[0].id == segp and isinstance(x.value, ast.Call)
            and attr_chain(x.value.func) == ["self", "segments"]]
    ok = bool(dflt) and all(any(const_value(ctx.m, a, "?") is False for a in list(x.value.args) + [k.value for k in x.value.keywords]) for x in dflt)
    ctx.ob("R15.1", "Shape._calc_lengths[untransformed decomposition]", ok, "", fn.lineno, "lengths are taken over the object's own (untransformed) segments")
    base = ctx.fn("PathSegment.length", "R15.1")
    rets = [x for x in ast.walk(base) if isinstance(x, ast.Return)]
    ok = len(rets) == 1 and isinstance(rets[0].value, ast.Constant) and rets[0].value.value == 0
    ctx.ob("R15.1", "PathSegment.length[base is 0]", ok, "", base.lineno, "a segment kind without geometry contributes nothing")
    ctx.ob("R15.1", "Move.length[inherits 0]", ctx.m.owner("Move.length") == "PathSegment", ctx.m.owner("Move.length"), base.lineno, "moves contribute nothing to the length")
    ln = ctx.fn("Shape.length", "R15.1")
    calls = [c for c in ast.walk(ln) if isinstance(c, ast.Call) and attr_chain(c.func) == ["self", "_calc_lengths"]]
    rets = [x for x in ast.walk(ln) if isinstance(x, ast.Return)]
    ok = bool(calls) and all(_passes(c, "error", 0) and _passes(c, "min_depth", 1) for c in calls) and bool(rets) and all(attr_chain(r.value) == ["self", "_length"] for r in rets) \
        and min(c.lineno for c in calls) <= min(r.lineno for r in rets)
    ctx.ob("R15.1", "Shape.length", ok, "", ln.lineno, "length() returns the computed total")


def point_t(ctx):
    fn = ctx.fn("Shape.point", "R15.2")
    pos = fn.args.args[1].arg
    segs = None
    for tg, v, n in bindings(fn):
        if isinstance(tg, ast.Name) and isinstance(v, ast.Call) and attr_chain(v.func) == ["self", "segments"]:
            segs = tg.id
    ctx.need(segs is not None, "R15.2", "Shape.point: segment list local not found")
    # shortcuts

    def end_shortcut(bound, index, ops):
        for x in ast.walk(fn):
            if isinstance(x, ast.If) and isinstance(x.test, ast.Compare) and len(x.test.ops) == 1 and isinstance(x.test.left, ast.Name) and x.test.left.id == pos \
                    and isinstance(x.test.ops[0], ops) and const_value(ctx.m, x.test.comparators[0], None) == bound and x.body and isinstance(x.body[0], ast.Return):
                v = x.body[0].value
                if isinstance(v, ast.Call) and isinstance(v.func, ast.Attribute) and v.func.attr == "point" and isinstance(v.func.value, ast.Subscript) \
                        and isinstance(v.func.value.value, ast.Name) and v.func.value.value.id == segs and const_value(ctx.m, v.func.value.slice, None) == index:
                    return True
        return False

    ok = end_shortcut(0, 0, (ast.LtE, ast.Lt)) and end_shortcut(1, -1, (ast.GtE, ast.Gt))
    ctx.ob("R15.2", "Shape.point[ends]", ok, "", fn.lineno, "point(0) is on the first segment, point(1) on the last")
    loops = [x for x in fn.body if isinstance(x, ast.For)]
    ctx.need(len(loops) == 1, "R15.2", "Shape.point: loop not found")
    lp = loops[0]
    it = lp.iter
    ok = isinstance(it, ast.Call) and call_name(it) == "enumerate" and len(it.args) == 1 and isinstance(it.args[0], ast.Name) and it.args[0].id == segs \
        and isinstance(lp.target, ast.Tuple) and len(lp.target.elts) == 2 and all(isinstance(e, ast.Name) for e in lp.target.elts)
    ctx.ob("R15.2", "Shape.point[walks segments in order]", ok, ast.unparse(lp.iter), lp.lineno, "")
    ctx.need(ok, "R15.2", "Shape.point: loop form not recognised")
    idx, seg = lp.target.elts[0].id, lp.target.elts[1].id
    FR = atom("FRACTION")
    # E = S + self._lengths[index]
    S = E = None
    for x in lp.body:
        if isinstance(x, ast.Assign) and isinstance(x.targets[0], ast.Name):
            try:
                got = ev_frac(x.value, idx)
            except Uninterpreted:
                continue
            for nm in names(x.value):
                if got == atom(nm) + FR:
                    S, E = nm, x.targets[0].id
    ctx.ob("R15.2", "Shape.point[cumulative end]", S is not None, "running start %s, interval end %s" % (S, E), lp.lineno, "segment interval end = start + the segment's fraction")
    ctx.need(S is not None, "R15.2", "Shape.point: cumulative fraction not recognised")
    sel = [x for x in lp.body if isinstance(x, ast.If)]
    ok = False
    detail = ""
    hit = None
    for x in sel:
        t = x.test
        if isinstance(t, ast.Compare) and len(t.ops) == 1 and isinstance(t.left, ast.Name) and isinstance(t.comparators[0], ast.Name):
            l, r, op = t.left.id, t.comparators[0].id, t.ops[0]
            if (l == E and r == pos and isinstance(op, (ast.GtE, ast.Gt))) or (l == pos and r == E and isinstance(op, (ast.LtE, ast.Lt))):
                hit = x
    want = (atom(pos) - atom(S)) / (atom(E) - atom(S))
    if hit is not None:
        env = Alg()
        for y in hit.body:
            if isinstance(y, ast.Assign):
                try:
                    env.assign(y)
                except Uninterpreted:
                    pass
        leaves = any(isinstance(y, (ast.Break, ast.Return)) for y in hit.body)
        # plain copies made after the selection (a, b = seg, pos) name the same values
        same_seg = {seg}
        from ..flow import split_tuple_assign
        for y in ast.walk(fn):
            if isinstance(y, ast.Assign):
                for tg, v in split_tuple_assign(y):
                    if isinstance(tg, ast.Name) and isinstance(v, ast.Name):
                        if v.id in same_seg:
                            same_seg.add(tg.id)
                        elif v.id in env.env:
                            env.env[tg.id] = env.env[v.id]
        # the point call that produces the result: on the loop's segment, with the local parameter
        pcalls = [c for c in ast.walk(fn) if isinstance(c, ast.Call) and isinstance(c.func, ast.Attribute) and c.func.attr == "point" and isinstance(c.func.value, ast.Name)
                  and c.func.value.id in same_seg and len(c.args) == 1 and any(c is z for later in fn.body[fn.body.index(lp):] for z in ast.walk(later))]
        vals = []
        for c in pcalls:
            try:
                vals.append(env.ev(c.args[0]))
            except Uninterpreted:
                vals.append(None)
        detail = "; ".join(str(v) for v in vals)
        ok = leaves and any(v is not None and v == want for v in vals)
    ctx.ob("R15.2", "Shape.point[local parameter]", ok, detail, lp.lineno, "the point lies at fraction (t - start)/(end - start) of the segment whose interval contains t")
    tops = [x for x in lp.body if isinstance(x, ast.Assign) and isinstance(x.targets[0], ast.Name) and x.targets[0].id == S]
    okc = len(tops) == 1 and isinstance(tops[0].value, ast.Name) and tops[0].value.id == E and (hit is None or lp.body.index(tops[0]) > lp.body.index(hit))
    ctx.ob("R15.2", "Shape.point[carried start]", okc, "; ".join(ast.unparse(x) for x in tops), lp.lineno, "the next interval starts where this one ended")
    rets = [r for later in fn.body[fn.body.index(lp):] for r in ast.walk(later) if isinstance(r, ast.Return) and isinstance(r.value, ast.Call) and isinstance(r.value.func, ast.Attribute) and r.value.func.attr == "point"]
    segnames = {seg}
    for y in ast.walk(fn):
        if isinstance(y, ast.Assign):
            from ..flow import split_tuple_assign as _sta
            for tg, v in _sta(y):
                if isinstance(tg, ast.Name) and isinstance(v, ast.Name) and v.id in segnames:
                    segnames.add(tg.id)
    ctx.ob("R15.2", "Shape.point[result]", bool(rets) and all(isinstance(r.value.func.value, ast.Name) and r.value.func.value.id in segnames for r in rets), "", lp.lineno, "the result is a point of the selected segment")
    calc = [c for earlier in fn.body[:fn.body.index(lp)] for c in ast.walk(earlier) if isinstance(c, ast.Call) and attr_chain(c.func) == ["self", "_calc_lengths"]]
    ctx.ob("R15.2", "Shape.point[uses the cached fractions]", bool(calc), "", fn.lineno, "fractions are computed on demand when absent")
    # the fractions are rounded quotients: their running sum can end just below a position just below 1.  When no interval
    # claims the position the answer is the END of the last segment: follow the path "loop ran out" (loop else, then the
    # statements after the loop) and look at the local parameter handed to .point() on it.
    from ..flow import split_tuple_assign as _sta2

    env = {}
    for x in fn.body[:fn.body.index(lp)]:
        if isinstance(x, ast.Assign):
            for tg, v in _sta2(x):
                if isinstance(tg, ast.Name):
                    env[tg.id] = v
    verdict = None  # True: end of the last segment; False: something else; None: not decided

    def value_of(n, depth=0):
        while isinstance(n, ast.Name) and n.id in env and depth < 8:
            n, depth = env[n.id], depth + 1
        return n

    for x in list(lp.orelse) + fn.body[fn.body.index(lp) + 1:]:
        if isinstance(x, ast.Assign):
            for tg, v in _sta2(x):
                if isinstance(tg, ast.Name):
                    env[tg.id] = value_of(v) if isinstance(v, ast.Name) else v
            continue
        if isinstance(x, ast.Return) and x.value is not None:
            cands = []
            if isinstance(x.value, ast.Call) and isinstance(x.value.func, ast.Attribute) and x.value.func.attr == "point" and x.value.args:
                cands = [x.value.args[0]]
            elif isinstance(x.value, ast.Tuple):
                cands = list(x.value.elts)
            vals = [value_of(c) for c in cands]
            nums = [v.value for v in vals if isinstance(v, ast.Constant) and isinstance(v.value, (int, float)) and not isinstance(v.value, bool)]
            if nums:
                verdict = all(v == 1 for v in nums)
            break
        if isinstance(x, (ast.If, ast.For, ast.While, ast.Try)):
            break
    ctx.need(verdict is not None, "R15.2", "Shape.point: what is returned when the loop runs out was not interpreted")
    ctx.ob("R15.2", "Shape.point[no interval claims t: end of the last segment]", verdict, "local parameter on the ran-out path is %s" % ("1" if verdict else "not 1"), lp.lineno,
           "for t = 0.9999999999999999 the loop can run out (the rounded fractions sum to less); with the local parameter left at 0 the START of the last segment is returned")


class _Frac(ast.NodeTransformer):
    def __init__(self, idx):
        self.idx = idx

    def visit_Subscript(self, n):
        if attr_chain(n.value) == ["self", "_lengths"] and isinstance(n.slice, ast.Name) and n.slice.id == self.idx:
            return ast.Name(id="FRACTION", ctx=ast.Load())
        return self.generic_visit(n)


def ev_frac(expr, idx):
    from ..model import fresh
    return Alg().ev(_Frac(idx).visit(fresh(expr)))


def closed_forms(ctx):
    fn = ctx.fn("Point.distance", "R15.3")
    alg = Alg()
    for s in fn.body:
        if isinstance(s, (ast.Assign, ast.AugAssign)):
            alg.assign(s)
    ret = [s for s in fn.body if isinstance(s, ast.Return)][0]
    got = alg.ev(ret.value)
    p1, p2 = fn.args.args[0].arg, fn.args.args[1].arg
    dx = atom("%s[0]" % p1) - atom("%s[0]" % p2)
    dy = atom("%s[1]" % p1) - atom("%s[1]" % p2)
    want = atom(opaque_name("sqrt", [dx * dx + dy * dy]))
    ctx.ob("R15.3", "Point.distance", got == want, str(got), fn.lineno, "distance is the Euclidean norm of the difference")
    ln = ctx.fn("Linear.length", "R15.3")
    ok = False
    rets = [r for r in ast.walk(ln) if isinstance(r, ast.Return) and r.value is not None]
    for r in rets:
        v = r.value
        if isinstance(v, ast.Call) and attr_chain(v.func) == ["Point", "distance"] and len(v.args) == 2 and {".".join(attr_chain(a) or []) for a in v.args} == {"self.start", "self.end"}:
            ok = True
        if isinstance(v, ast.Call) and isinstance(v.func, ast.Attribute) and v.func.attr in ("distance", "distance_to") and len(v.args) == 1 \
                and {".".join(attr_chain(v.func.value) or []), ".".join(attr_chain(v.args[0]) or [])} == {"self.start", "self.end"}:
            ok = True
        if isinstance(v, ast.Call) and call_name(v) == "abs" and len(v.args) == 1 and isinstance(v.args[0], ast.BinOp) and isinstance(v.args[0].op, ast.Sub) \
                and {".".join(attr_chain(v.args[0].left) or []), ".".join(attr_chain(v.args[0].right) or [])} == {"self.start", "self.end"}:
            ok = True
    others = [r for r in rets if not (isinstance(r.value, ast.Call)) and not (isinstance(r.value, ast.Constant) and r.value.value == 0)]
    ctx.ob("R15.3", "Linear.length", ok and not others, "; ".join(ast.unparse(r.value)[:60] for r in rets), ln.lineno,
           "the length of a line (and of a close) is the distance between its end points")
    al = ctx.fn("Arc.length", "R15.3")
    # the circle case: under the test |rx - ry| < (small), the result is |r x sweep|
    alg = Alg()
    circ = None
    for x in stmts_in(al.body):
        if isinstance(x, ast.Assign):
            try:
                alg.assign(x)
            except Uninterpreted:
                pass
        if isinstance(x, ast.If) and isinstance(x.test, ast.Compare) and len(x.test.ops) == 1 and isinstance(x.test.ops[0], (ast.Lt, ast.LtE)) and x.body and isinstance(x.body[0], ast.Return):
            try:
                lhs = alg.ev(x.test.left)
            except Uninterpreted:
                continue
            d1 = atom(opaque_name("abs", [atom("self.rx") - atom("self.ry")]))
            d2 = atom(opaque_name("abs", [atom("self.ry") - atom("self.rx")]))
            if lhs == d1 or lhs == d2:
                circ = x
                break
    ok = False
    if circ is not None:
        try:
            got = alg.ev(circ.body[0].value)
            ok = got == atom(opaque_name("abs", [atom("self.rx") * atom("self.sweep")])) or got == atom(opaque_name("abs", [atom("self.ry") * atom("self.sweep")]))
        except Uninterpreted:
            ok = False
    ctx.ob("R15.3", "Arc.length[circle]", ok, ast.unparse(circ.body[0]) if circ is not None else "circle test not found", al.lineno, "a circular arc has length |r x sweep|")
    # shortcuts: a result that is not computed from the radii and the sweep (the chord, a constant) is the length of a
    # zero-extent arc only.  Coincident end points do not make an arc empty: start == end with a non-zero sweep is a full turn.
    from ..flow import dominated

    def zero_sweep(test, positive):
        if isinstance(test, ast.Compare) and len(test.ops) == 1 and isinstance(test.ops[0], (ast.Eq, ast.NotEq)):
            sides = [test.left, test.comparators[0]]
            if any(attr_chain(x) == ["self", "sweep"] for x in sides) and any(isinstance(x, ast.Constant) and x.value == 0 and not isinstance(x.value, bool) for x in sides):
                return isinstance(test.ops[0], ast.Eq) == positive
        if attr_chain(test) == ["self", "sweep"]:
            return not positive  # `if not self.sweep`
        return False

    nshort = 0
    for r in ast.walk(al):
        if not isinstance(r, ast.Return) or r.value is None:
            continue
        uses_extent = any(attr_chain(x) in (["self", "sweep"], ["self", "rx"], ["self", "ry"]) for x in ast.walk(r.value)) or \
            any(isinstance(x, ast.Name) and x.id in alg.env for x in ast.walk(r.value)) or \
            any(isinstance(x, ast.Call) and isinstance(x.func, ast.Attribute) and isinstance(x.func.value, ast.Name) and x.func.value.id == "self" for x in ast.walk(r.value))
        if uses_extent:
            continue
        nshort += 1
        ok = dominated(r, al, zero_sweep)
        ctx.ob("R15.3", "Arc.length[shortcut `%s` only for zero sweep]" % ast.unparse(r.value)[:40], ok, "returns %s" % ast.unparse(r.value)[:50], r.lineno,
               "the chord (or 0) is the length of an arc of zero extent only; an arc whose end points coincide but whose sweep is not zero is a full turn of the ellipse")
    # quadratic closed form
    q = ctx.fn("QuadraticBezier.length", "R15.3")
    pts = {"self.start": [atom("x0"), atom("y0")], "self.control": [atom("x1"), atom("y1")], "self.end": [atom("x2"), atom("y2")]}
    alg = Alg(atom_map=dict(pts))
    tr = [s for s in q.body if isinstance(s, ast.Try)]
    ctx.need(len(tr) == 1, "R15.3", "QuadraticBezier.length: closed-form block not found")
    try:
        for s in q.body:
            if isinstance(s, ast.Assign):
                alg.assign(s)
        for s in tr[0].body:
            if isinstance(s, ast.Assign):
                alg.assign(s)
    except Uninterpreted as e:
        raise AnalysisError("R15.3", "QuadraticBezier.length: %s" % e)
    ax, ay = atom("x0") - const(2) * atom("x1") + atom("x2"), atom("y0") - const(2) * atom("y1") + atom("y2")
    bx, by = const(2) * (atom("x1") - atom("x0")), const(2) * (atom("y1") - atom("y0"))
    A = const(4) * (ax * ax + ay * ay)
    B = const(4) * (ax * bx + ay * by)
    C = bx * bx + by * by
    for nm, want in (("A", A), ("B", B), ("C", C)):
        got = alg.env.get(nm)
        ctx.ob("R15.3", "QuadraticBezier.length[%s]" % nm, got is not None and not isinstance(got, list) and got == want, str(got)[:120], q.lineno,
               "coefficient of |B'(t)|^2 = A t^2 + B t + C differs from the derivative of the quadratic Bezier")
    sq = lambda x: atom(opaque_name("sqrt", [x]))
    Sabc = const(2) * sq(A + B + C)
    A2 = sq(A)
    A32 = const(2) * A * A2
    C2 = const(2) * sq(C)
    BA = B / A2
    lg = atom(opaque_name("log", [(const(2) * A2 + BA + Sabc) / (BA + C2)]))
    want_s = (A32 * Sabc + A2 * B * (Sabc - C2) + (const(4) * C * A - B * B) * lg) / (const(4) * A32)
    got = None
    for x in tr[0].body:
        if isinstance(x, ast.Return) and x.value is not None:
            try:
                got = alg.ev(x.value)
            except Uninterpreted:
                got = None
    if got is None:
        rets = [x for x in q.body if isinstance(x, ast.Return) and isinstance(x.value, ast.Name)]
        if rets:
            got = alg.env.get(rets[-1].value.id)
    ctx.ob("R15.3", "QuadraticBezier.length[closed form]", got is not None and not isinstance(got, list) and got == want_s, str(got)[:120], q.lineno,
           "assembled expression differs from the closed-form arc length of a quadratic Bezier")


def quad_fallback(ctx):
    """Collinear (anti-parallel) quadratic: speed | |b| - 2|a| t | with a = p0 - 2 p1 + p2, b = 2 (p1 - p0).  The curve turns
    back inside (0, 1) iff k = |b|/|a| < 2; length |b| - |a| when k >= 2, else |a| (k^2/2 - k + 1); a = 0 gives |b|."""
    q = ctx.fn("QuadraticBezier.length", "R15.3")
    tr = [x for x in q.body if isinstance(x, ast.Try)]
    ctx.need(len(tr) == 1 and tr[0].handlers, "R15.3", "QuadraticBezier.length: fallback handler not found")
    hb = tr[0].handlers[0].body
    after = q.body[q.body.index(tr[0]) + 1:]
    # the two vector locals: a = start - 2 control + end, b = 2 (control - start), recognised by their definitions (checked in the closed form rule)
    vecs = []
    for x in q.body:
        if isinstance(x, ast.Assign) and isinstance(x.targets[0], ast.Name) and x is not tr[0]:
            vecs.append(x.targets[0].id)
    ctx.need(len(vecs) >= 2, "R15.3", "QuadraticBezier.length: vector locals not found")
    an, bn = vecs[0], vecs[1]
    A_, B_ = atom(opaque_name("abs", [atom(an)])), atom(opaque_name("abs", [atom(bn)]))
    seen = {"zero": [], "thr": [], "wrong": []}

    def make(a_zero, mono):
        def oracle(pe, test):
            if isinstance(test, ast.Compare) and len(test.ops) == 1:
                l, r = pe.ev(test.left), pe.ev(test.comparators[0])
                op = test.ops[0]
                if isinstance(l, RF) and isinstance(r, RF):
                    if l == A_ and r.is_const() and 0 <= r.constval() <= 1e-6 and isinstance(op, (ast.Lt, ast.LtE)):
                        seen["zero"].append(test)
                        return a_zero
                    if r == A_ and l.is_const() and 0 <= l.constval() <= 1e-6 and isinstance(op, (ast.Gt, ast.GtE)):
                        seen["zero"].append(test)
                        return a_zero
                    # the turning test in any of its spellings: k >= 2, |b| >= 2|a|, 2 <= k, k < 2 ...
                    diff = l - r
                    forms = [(B_ - const(2) * A_) / A_, B_ - const(2) * A_]
                    # the same family with another constant: a turning test with the wrong threshold
                    for cand, scale in (((B_ - diff) / A_, 1), (B_ / A_ - diff, 1), ((B_ + diff) / A_, -1), (B_ / A_ + diff, -1)):
                        if cand.is_const() and cand.constval() != 2 and cand.constval() > 0:
                            seen["wrong"].append((test, cand.constval()))
                            ge = isinstance(op, (ast.GtE, ast.Gt))
                            return mono if (ge == (scale == 1)) else not mono
                    if any(diff == f for f in forms) and isinstance(op, (ast.GtE, ast.Gt)):
                        seen["thr"].append(test)
                        return mono
                    if any(diff == -f for f in forms) and isinstance(op, (ast.LtE, ast.Lt)):
                        seen["thr"].append(test)
                        return mono
                    if any(diff == f for f in forms) and isinstance(op, (ast.Lt, ast.LtE)):
                        seen["thr"].append(test)
                        return not mono
                    if any(diff == -f for f in forms) and isinstance(op, (ast.Gt, ast.GtE)):
                        seen["thr"].append(test)
                        return not mono
            return None
        return oracle

    def result(a_zero, mono):
        pe = PE(ctx.m, "R15.3", "QuadraticBezier.length fallback", oracle=make(a_zero, mono))
        res = pe.run(hb + after)
        if res is None or res.kind != "return" or res.value is None:
            raise AnalysisError("R15.3", "QuadraticBezier.length fallback: no value returned")
        return pe.ev(res.value)

    g0 = result(True, True)
    ctx.ob("R15.3", "QuadraticBezier.length[fallback: a = 0]", isinstance(g0, RF) and g0 == B_ and bool(seen["zero"]), str(g0), hb[0].lineno, "with a = 0 the curve is a straight run of length |b|")
    seen["thr"] = []
    g1 = result(False, True)
    g2 = result(False, False)
    ctx.ob("R15.3", "QuadraticBezier.length[fallback: turning threshold]", bool(seen["thr"]) and not seen["wrong"],
           "; ".join(sorted({ast.unparse(t) for t in seen["thr"]} | {"%s (threshold |b| vs %s|a|)" % (ast.unparse(t), c) for t, c in seen["wrong"]})), hb[0].lineno,
           "the curve runs monotonically exactly when |b| >= 2|a| (the speed |b| - 2|a|t does not change sign on [0, 1])")
    kk = B_ / A_
    ctx.ob("R15.3", "QuadraticBezier.length[fallback: monotone run]", isinstance(g1, RF) and g1 == B_ - A_, str(g1), hb[0].lineno, "length |b| - |a| when the curve does not turn back")
    ctx.ob("R15.3", "QuadraticBezier.length[fallback: fold-back]", isinstance(g2, RF) and g2 == A_ * (kk * kk / const(2) - kk + const(1)), str(g2), hb[0].lineno,
           "length |a| (k^2/2 - k + 1) when the curve turns back at t = k/2")


def _nnf_disjuncts(test, negate=False):
    """Disjuncts of a test in negation normal form, each as (unparsed comparison with polarity); None when the test is not a disjunction."""
    if isinstance(test, ast.UnaryOp) and isinstance(test.op, ast.Not):
        return _nnf_disjuncts(test.operand, not negate)
    if isinstance(test, ast.BoolOp):
        is_or = isinstance(test.op, ast.Or) != negate
        if not is_or:
            return None
        out = []
        for v in test.values:
            d = _nnf_disjuncts(v, negate)
            if d is None:
                return None
            out.extend(d)
        return out
    return [(test, negate)]


def subdivision(ctx):
    fn = ctx.fn("PathSegment.segment_length", "R15.4")
    P = [a.arg for a in fn.args.args]
    ctx.need(len(P) >= 8, "R15.4", "segment_length: parameter list changed: %s" % P)
    curve, start, end, sp, ep, err, mind, depth = P[:8]
    rec0 = [c for c in ast.walk(fn) if isinstance(c, ast.Call) and attr_chain(c.func) in (["PathSegment", "segment_length"], ["self", "segment_length"], ["curve", "segment_length"])]
    # the split parameter: upper bound of one recursive call and lower bound of the other
    ups = {c.args[2].id for c in rec0 if len(c.args) > 2 and isinstance(c.args[2], ast.Name)}
    los = {c.args[1].id for c in rec0 if len(c.args) > 1 and isinstance(c.args[1], ast.Name)}
    split = sorted((ups & los) - {start, end})
    if len(rec0) != 2 or len(split) != 1:
        ctx.ob("R15.4", "segment_length[both halves]", False, "%d recursive call(s); split parameter candidates %s" % (len(rec0), split), fn.lineno,
               "the recursion covers [start, mid] and [mid, end] with the matching end points")
        return
    mid = split[0]
    defs = [v for tg, v, n in bindings(fn) if isinstance(tg, ast.Name) and tg.id == mid]
    okm = len(defs) == 1
    if okm:
        try:
            okm = Alg().ev(defs[0]) == (atom(start) + atom(end)) / const(2)
        except Uninterpreted:
            okm = False
    ctx.ob("R15.4", "segment_length[midpoint]", okm, "; ".join(ast.unparse(d) for d in defs), fn.lineno, "the interval is bisected at its midpoint")
    mps = [tg.id for tg, v, n in bindings(fn) if isinstance(tg, ast.Name) and isinstance(v, ast.Call) and attr_chain(v.func) == [curve, "point"] and len(v.args) == 1
           and isinstance(v.args[0], ast.Name) and v.args[0].id == mid]
    ctx.need(len(mps) == 1, "R15.4", "segment_length: midpoint sample not found")
    mp = mps[0]
    rec = [c for c in ast.walk(fn) if isinstance(c, ast.Call) and attr_chain(c.func) in (["PathSegment", "segment_length"], ["self", "segment_length"], ["curve", "segment_length"])]

    def arg(c, i):
        if i < len(c.args):
            return c.args[i].id if isinstance(c.args[i], ast.Name) else ast.unparse(c.args[i])
        for k in c.keywords:
            if k.arg == P[i]:
                return k.value.id if isinstance(k.value, ast.Name) else ast.unparse(k.value)
        return None

    args = [[arg(c, i) for i in range(5)] for c in rec]
    ok = len(rec) == 2 and [curve, start, mid, sp, mp] in args and [curve, mid, end, mp, ep] in args
    ctx.ob("R15.4", "segment_length[both halves]", ok, str(args), fn.lineno, "the recursion covers [start, mid] and [mid, end] with the matching end points")
    ok = False
    if len(rec) == 2:
        t1 = Taint(fn, lambda n: n is rec[0], through_containers=False)
        t2 = Taint(fn, lambda n: n is rec[1], through_containers=False)
        for r in ast.walk(fn):
            if isinstance(r, ast.Return) and isinstance(r.value, ast.BinOp) and isinstance(r.value.op, ast.Add):
                l, rr = r.value.left, r.value.right
                if (t1.derived(l) and t2.derived(rr) and not t2.derived(l) and not t1.derived(rr)) or (t2.derived(l) and t1.derived(rr) and not t1.derived(l) and not t2.derived(rr)):
                    ok = True
    ctx.ob("R15.4", "segment_length[sum of halves]", ok, "", fn.lineno, "the length of the interval is the sum of the lengths of its halves")
    # the condition under which the recursion happens
    cond = None
    for x in fn.body:
        if isinstance(x, ast.If):
            in_body = any(any(c is n for n in ast.walk(y)) for y in x.body for c in rec)
            in_else = any(any(c is n for n in ast.walk(y)) for y in x.orelse for c in rec)
            exits = bool(x.body) and isinstance(x.body[-1], ast.Return)
            after = any(c.lineno > (x.end_lineno or x.lineno) for c in rec)
            if in_body:
                cond = (x.test, False)
            elif in_else or (exits and after and not x.orelse):
                cond = (x.test, True)
    t = ""
    ok = False
    if cond is not None:
        dis = _nnf_disjuncts(cond[0], cond[1])
        t = ast.unparse(cond[0])
        if dis is not None and len(dis) == 2:
            def about(d, *nm):
                return all(n in names(d[0]) for n in nm)

            e_d = [d for d in dis if about(d, err)]
            m_d = [d for d in dis if about(d, mind, depth)]
            ok = len(e_d) == 1 and len(m_d) == 1 and e_d[0] is not m_d[0]
            if ok:
                # polarity: refine while (estimate gain > error) / while (depth < min_depth)
                for (node, neg), small, big in ((e_d[0], None, None), (m_d[0], depth, mind)):
                    if big is None:
                        continue
                    if isinstance(node, ast.Compare) and len(node.ops) == 1 and isinstance(node.left, ast.Name) and isinstance(node.comparators[0], ast.Name):
                        l, r, op = node.left.id, node.comparators[0].id, node.ops[0]
                        lt = (l == small and r == big and isinstance(op, (ast.Lt, ast.LtE))) or (l == big and r == small and isinstance(op, (ast.Gt, ast.GtE)))
                        ge = (l == small and r == big and isinstance(op, (ast.GtE, ast.Gt))) or (l == big and r == small and isinstance(op, (ast.LtE, ast.Lt)))
                        ok = ok and ((lt and not neg) or (ge and neg))
                    else:
                        ok = False
    ctx.ob("R15.4", "segment_length[stopping test]", ok, t, fn.lineno, "subdivision continues while the chord estimate still improves by more than the error OR the minimum depth is not reached")
    # depth increases on recursion and error/min_depth are forwarded
    fwd = all([arg(c, 5), arg(c, 6), arg(c, 7)] == [err, mind, depth] for c in rec) and bool(rec) and any(
        (isinstance(x, ast.AugAssign) and isinstance(x.target, ast.Name) and x.target.id == depth and isinstance(x.op, ast.Add))
        or (isinstance(x, ast.Assign) and isinstance(x.targets[0], ast.Name) and x.targets[0].id == depth and isinstance(x.value, ast.BinOp) and isinstance(x.value.op, ast.Add) and depth in names(x.value))
        for x in ast.walk(fn))
    ctx.ob("R15.4", "segment_length[forwards error, depth grows]", fwd, "", fn.lineno, "the requested error bound reaches every level; depth increases so the recursion terminates")
    # callers forward error/min_depth
    for qual in ("PathSegment._line_length", "CubicBezier._length_default"):
        f = ctx.fn(qual, "R15.4")
        fwd = False
        for c in ast.walk(f):
            if isinstance(c, ast.Call) and isinstance(c.func, ast.Attribute) and c.func.attr in ("segment_length", "_line_length"):
                vals = {k.arg: k.value for k in c.keywords}
                e_ok = ("error" in vals and isinstance(vals["error"], ast.Name) and vals["error"].id == "error") or any(isinstance(a, ast.Name) and a.id == "error" for a in c.args)
                m_ok = ("min_depth" in vals and isinstance(vals["min_depth"], ast.Name) and vals["min_depth"].id == "min_depth") or any(isinstance(a, ast.Name) and a.id == "min_depth" for a in c.args)
                fwd = fwd or (e_ok and m_ok)
        ctx.ob("R15.4", "%s[forwards error]" % qual, fwd, "", f.lineno, "the caller's error setting must reach the subdivision")
