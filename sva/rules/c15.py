"""C15 - lengths are true arc lengths, isometry-invariant, and drive point(t)."""
import ast

from .. import cachecoh
from ..algebra import Alg, Uninterpreted, atom, const, opaque_name
from ..model import AnalysisError, attr_chain, call_name, stmts_in

EXPLANATION = (
    "Static rules (no execution). R15.1 additivity: the path length is the sum of one length per stored segment "
    "(untransformed decomposition), fractions are each/total, the base segment length (inherited by Move) is the constant 0. "
    "R15.2 point(t): t <= 0 and t >= 1 short-circuit to the first/last segment; otherwise the segment is chosen by the "
    "running sum of fractions and the local parameter is (t - start)/(end - start), with the running start carried over. "
    "R15.3 closed forms: Point.distance is the Euclidean norm; Linear.length is the end-point distance; a circular arc is "
    "|r x sweep|; the quadratic closed form (A, B, C and the assembled expression) equals Malczak's formula as exact "
    "canonical forms over opaque sqrt/log. R15.4 subdivision: segment_length bisects at the midpoint, recurses on both "
    "halves, returns the sum, and its stopping test consults both the error and the minimum depth. R15.5 cache coherence: "
    "every Path/Subpath method that rebinds or permutes the segment list, or mutates stored segments in place, invalidates "
    "the cached length (directly or through a callee; fixed point over the call graph). "
    "The quadratic's collinear fallback (taken when the closed form divides by zero) is checked case by case: a = 0 gives |b|; "
    "the monotone case needs |b| >= 2|a| and gives |b| - |a|; the turning case gives |a|(k^2/2 - k + 1) with k = |b|/|a| (with a "
    "lower threshold the turning parabola is measured end to end and the length comes out short). "
    "Not decided: accuracy within "
    "`error`, isometry invariance as a numeric fact."
)
ASSUMPTIONS = [
    "Mutation of a segment's points by the caller (outside Path/Subpath methods) cannot be seen by the path and is out of scope.",
    "Numerical accuracy of subdivision/integration is not decided.",
]
FLOORS = {"R15.1": 4, "R15.2": 5, "R15.3": 6, "R15.4": 4, "R15.5": 8}


def run(ctx):
    ctx.rule("R15.1", "additivity and fractions")
    ctx.rule("R15.2", "point(t) segment selection and local parameter")
    ctx.rule("R15.3", "closed forms")
    ctx.rule("R15.4", "subdivision structure")
    ctx.rule("R15.5", "length-cache coherence")
    additivity(ctx)
    point_t(ctx)
    closed_forms(ctx)
    quad_fallback(ctx)
    subdivision(ctx)
    n = cachecoh.check(ctx, "R15.5")
    ctx.need(n >= 8, "R15.5", "too few mutating methods recognised (%d)" % n)


def additivity(ctx):
    fn = ctx.fn("Shape._calc_lengths", "R15.1")
    src = ast.unparse(fn).replace(" ", "")
    ok = "lengths=[each.length(error=error,min_depth=min_depth)foreachinsegments]" in src and "self._length=sum(lengths)" in src
    ctx.ob("R15.1", "Shape._calc_lengths[sum of segment lengths]", ok, "", fn.lineno, "total length = sum over all segments of their lengths")
    ok = "self._lengths=[each/self._lengthforeachinlengths]" in src
    ctx.ob("R15.1", "Shape._calc_lengths[fractions]", ok, "", fn.lineno, "fractions are length/total in segment order")
    ok = "ifsegmentsisNone:segments=self.segments(False)" in src.replace("\n", "")
    ctx.ob("R15.1", "Shape._calc_lengths[untransformed decomposition]", ok, "", fn.lineno, "lengths are taken over the object's own (untransformed) segments")
    base = ctx.fn("PathSegment.length", "R15.1")
    rets = [s for s in base.body if isinstance(s, ast.Return)]
    ok = len(rets) == 1 and isinstance(rets[0].value, ast.Constant) and rets[0].value.value == 0
    ctx.ob("R15.1", "PathSegment.length[base is 0]", ok, "", base.lineno, "a segment kind without geometry contributes nothing")
    ctx.ob("R15.1", "Move.length[inherits 0]", ctx.m.owner("Move.length") == "PathSegment", ctx.m.owner("Move.length"), base.lineno, "moves contribute nothing to the length")
    ln = ctx.fn("Shape.length", "R15.1")
    src = ast.unparse(ln).replace(" ", "")
    ctx.ob("R15.1", "Shape.length", "self._calc_lengths(error,min_depth)" in src and "returnself._length" in src, "", ln.lineno, "length() returns the computed total")


def point_t(ctx):
    fn = ctx.fn("Shape.point", "R15.2")
    src = ast.unparse(fn)
    # shortcuts
    sc = [s for s in ast.walk(fn) if isinstance(s, ast.If) and isinstance(s.test, ast.Compare) and ast.unparse(s.test.left) == "position" and isinstance(s.body[0], ast.Return)]
    lo = [s for s in sc if isinstance(s.test.ops[0], (ast.LtE, ast.Lt)) and ast.literal_eval(s.test.comparators[0]) == 0]
    hi = [s for s in sc if isinstance(s.test.ops[0], (ast.GtE, ast.Gt)) and ast.literal_eval(s.test.comparators[0]) == 1]
    ok = len(lo) == 1 and ast.unparse(lo[0].body[0].value) == "segments[0].point(position)" and len(hi) == 1 and ast.unparse(hi[0].body[0].value) == "segments[-1].point(position)"
    ctx.ob("R15.2", "Shape.point[ends]", ok, "", fn.lineno, "point(0) is on the first segment, point(1) on the last")
    loops = [s for s in fn.body if isinstance(s, ast.For)]
    ctx.need(len(loops) == 1, "R15.2", "Shape.point: loop not found")
    lp = loops[0]
    ok = ast.unparse(lp.iter) == "enumerate(segments)"
    ctx.ob("R15.2", "Shape.point[walks segments in order]", ok, ast.unparse(lp.iter), lp.lineno, "")
    alg = Alg()
    end_def = [s for s in lp.body if isinstance(s, ast.Assign) and ast.unparse(s.targets[0]) == "segment_end"]
    ok = len(end_def) == 1 and ast.unparse(end_def[0].value).replace(" ", "") in ("segment_start+self._lengths[index]", "self._lengths[index]+segment_start")
    ctx.ob("R15.2", "Shape.point[cumulative end]", ok, ast.unparse(end_def[0]) if end_def else "", lp.lineno, "segment interval end = start + the segment's fraction")
    sel = [s for s in lp.body if isinstance(s, ast.If)]
    ok = False
    detail = ""
    if len(sel) == 1:
        t = sel[0].test
        cmp_ok = isinstance(t, ast.Compare) and ((ast.unparse(t.left) == "segment_end" and isinstance(t.ops[0], (ast.GtE, ast.Gt)) and ast.unparse(t.comparators[0]) == "position")
                                                or (ast.unparse(t.left) == "position" and isinstance(t.ops[0], (ast.LtE, ast.Lt)) and ast.unparse(t.comparators[0]) == "segment_end"))
        asg = [s for s in sel[0].body if isinstance(s, ast.Assign)]
        brk = any(isinstance(s, ast.Break) for s in sel[0].body)
        if asg:
            got = Alg().ev(asg[0].value)
            want = (atom("position") - atom("segment_start")) / (atom("segment_end") - atom("segment_start"))
            detail = str(got)
            ok = cmp_ok and brk and got == want and ast.unparse(asg[0].targets[0]) == "segment_pos"
    ctx.ob("R15.2", "Shape.point[local parameter]", ok, detail, lp.lineno, "the point lies at fraction (t - start)/(end - start) of the segment whose interval contains t")
    carry = [ast.unparse(s).replace(" ", "") for s in lp.body if isinstance(s, ast.Assign)]
    ctx.ob("R15.2", "Shape.point[carried start]", "segment_start=segment_end" in carry and carry.index("segment_start=segment_end") == len(carry) - 1, "; ".join(carry), lp.lineno,
           "the next interval starts where this one ended")
    ret = fn.body[-1]
    ctx.ob("R15.2", "Shape.point[result]", isinstance(ret, ast.Return) and ast.unparse(ret.value) == "segment.point(segment_pos)", ast.unparse(ret), ret.lineno, "")
    calc = "self._calc_lengths(" in src and "if self._length is None" in src
    ctx.ob("R15.2", "Shape.point[uses the cached fractions]", calc, "", fn.lineno, "fractions are computed on demand when absent")


def closed_forms(ctx):
    fn = ctx.fn("Point.distance", "R15.3")
    alg = Alg()
    for s in fn.body:
        if isinstance(s, (ast.Assign, ast.AugAssign)):
            alg.assign(s)
    ret = [s for s in fn.body if isinstance(s, ast.Return)][0]
    got = alg.ev(ret.value)
    p1, p2 = fn.args.args[0].arg, fn.args.args[1].arg
    dx = atom("%s[0]" % p1) - atom("%s[0]" % p2)
    dy = atom("%s[1]" % p1) - atom("%s[1]" % p2)
    want = atom(opaque_name("sqrt", [dx * dx + dy * dy]))
    ctx.ob("R15.3", "Point.distance", got == want, str(got), fn.lineno, "distance is the Euclidean norm of the difference")
    ln = ctx.fn("Linear.length", "R15.3")
    rets = [ast.unparse(s.value).replace(" ", "") for s in ast.walk(ln) if isinstance(s, ast.Return)]
    ctx.ob("R15.3", "Linear.length", any(r in ("Point.distance(self.end,self.start)", "Point.distance(self.start,self.end)") for r in rets), str(rets), ln.lineno,
           "the length of a line (and of a close) is the distance between its end points")
    al = ctx.fn("Arc.length", "R15.3")
    circ = None
    for s in ast.walk(al):
        if isinstance(s, ast.If) and "ERROR" in ast.unparse(s.test) and isinstance(s.body[0], ast.Return):
            circ = s
    ok = circ is not None and Alg().ev(circ.body[0].value) == atom(opaque_name("abs", [atom("self.rx") * atom("self.sweep")]))
    ctx.ob("R15.3", "Arc.length[circle]", ok, ast.unparse(circ.body[0]) if circ is not None else "", al.lineno, "a circular arc has length |r x sweep|")
    # quadratic closed form
    q = ctx.fn("QuadraticBezier.length", "R15.3")
    pts = {"self.start": [atom("x0"), atom("y0")], "self.control": [atom("x1"), atom("y1")], "self.end": [atom("x2"), atom("y2")]}
    alg = Alg(atom_map=dict(pts))
    tr = [s for s in q.body if isinstance(s, ast.Try)]
    ctx.need(len(tr) == 1, "R15.3", "QuadraticBezier.length: closed-form block not found")
    try:
        for s in q.body:
            if isinstance(s, ast.Assign):
                alg.assign(s)
        for s in tr[0].body:
            if isinstance(s, ast.Assign):
                alg.assign(s)
    except Uninterpreted as e:
        raise AnalysisError("R15.3", "QuadraticBezier.length: %s" % e)
    ax, ay = atom("x0") - const(2) * atom("x1") + atom("x2"), atom("y0") - const(2) * atom("y1") + atom("y2")
    bx, by = const(2) * (atom("x1") - atom("x0")), const(2) * (atom("y1") - atom("y0"))
    A = const(4) * (ax * ax + ay * ay)
    B = const(4) * (ax * bx + ay * by)
    C = bx * bx + by * by
    for nm, want in (("A", A), ("B", B), ("C", C)):
        got = alg.env.get(nm)
        ctx.ob("R15.3", "QuadraticBezier.length[%s]" % nm, got is not None and not isinstance(got, list) and got == want, str(got)[:120], q.lineno,
               "coefficient of |B'(t)|^2 = A t^2 + B t + C differs from the derivative of the quadratic Bezier")
    sq = lambda x: atom(opaque_name("sqrt", [x]))
    Sabc = const(2) * sq(A + B + C)
    A2 = sq(A)
    A32 = const(2) * A * A2
    C2 = const(2) * sq(C)
    BA = B / A2
    lg = atom(opaque_name("log", [(const(2) * A2 + BA + Sabc) / (BA + C2)]))
    want_s = (A32 * Sabc + A2 * B * (Sabc - C2) + (const(4) * C * A - B * B) * lg) / (const(4) * A32)
    got = alg.env.get("s")
    ctx.ob("R15.3", "QuadraticBezier.length[closed form]", got is not None and not isinstance(got, list) and got == want_s, str(got)[:120], q.lineno,
           "assembled expression differs from the closed-form arc length of a quadratic Bezier")


def quad_fallback(ctx):
    """Collinear (anti-parallel) quadratic: speed | |b| - 2|a| t | with a = p0 - 2 p1 + p2, b = 2 (p1 - p0).  The curve turns
    back inside (0, 1) iff k = |b|/|a| < 2; length |b| - |a| when k >= 2, else |a| (k^2/2 - k + 1); a = 0 gives |b|."""
    q = ctx.fn("QuadraticBezier.length", "R15.3")
    tr = [s for s in q.body if isinstance(s, ast.Try)]
    ctx.need(len(tr) == 1 and tr[0].handlers, "R15.3", "QuadraticBezier.length: fallback handler not found")
    hb = tr[0].handlers[0].body
    A_, B_ = atom(opaque_name("abs", [atom("a")])), atom(opaque_name("abs", [atom("b")]))
    top = [s for s in hb if isinstance(s, ast.If)]
    ctx.need(len(top) == 1, "R15.3", "QuadraticBezier.length fallback: structure not recognised")
    t0 = top[0]
    ok = isinstance(t0.test, ast.Compare) and Alg().ev(t0.test.left) == A_ and isinstance(t0.test.ops[0], (ast.Lt, ast.LtE)) and isinstance(t0.test.comparators[0], ast.Constant) and 0 <= t0.test.comparators[0].value <= 1e-6
    got0 = Alg().ev(t0.body[0].value) if t0.body and isinstance(t0.body[0], ast.Assign) else None
    ctx.ob("R15.3", "QuadraticBezier.length[fallback: a = 0]", ok and got0 is not None and got0 == B_, ast.unparse(t0.test), t0.lineno, "with a = 0 the curve is a straight run of length |b|")
    alg = Alg()
    inner = None
    for s in t0.orelse:
        if isinstance(s, ast.Assign):
            alg.assign(s)
        if isinstance(s, ast.If):
            inner = s
    ctx.need(inner is not None, "R15.3", "QuadraticBezier.length fallback: threshold test not found")
    t = inner.test
    ok_thr = False
    if isinstance(t, ast.Compare) and len(t.ops) == 1 and isinstance(t.ops[0], (ast.GtE, ast.Gt)):
        diff = alg.ev(t.left) - alg.ev(t.comparators[0])
        ok_thr = diff == (B_ - const(2) * A_) / A_ or diff == B_ - const(2) * A_
    ctx.ob("R15.3", "QuadraticBezier.length[fallback: turning threshold]", ok_thr, ast.unparse(t), inner.lineno,
           "the curve runs monotonically exactly when |b| >= 2|a| (the speed |b| - 2|a|t does not change sign on [0, 1])")
    a1 = Alg(env=dict(alg.env))
    a2 = Alg(env=dict(alg.env))
    g1 = a1.ev(inner.body[0].value) if inner.body and isinstance(inner.body[0], ast.Assign) else None
    for s in inner.orelse:
        if isinstance(s, ast.Assign):
            a2.assign(s)
    g2 = a2.env.get("s")
    kk = B_ / A_
    ctx.ob("R15.3", "QuadraticBezier.length[fallback: monotone run]", g1 is not None and g1 == B_ - A_, str(g1), inner.lineno, "length |b| - |a| when the curve does not turn back")
    ctx.ob("R15.3", "QuadraticBezier.length[fallback: fold-back]", g2 is not None and g2 == A_ * (kk * kk / const(2) - kk + const(1)), str(g2), inner.lineno,
           "length |a| (k^2/2 - k + 1) when the curve turns back at t = k/2")


def subdivision(ctx):
    fn = ctx.fn("PathSegment.segment_length", "R15.4")
    mid = [s for s in fn.body if isinstance(s, ast.Assign) and ast.unparse(s.targets[0]) == "mid"]
    ok = len(mid) == 1 and Alg().ev(mid[0].value) == (atom("start") + atom("end")) / const(2)
    ctx.ob("R15.4", "segment_length[midpoint]", ok, ast.unparse(mid[0]) if mid else "", fn.lineno, "the interval is bisected at its midpoint")
    rec = [c for c in ast.walk(fn) if isinstance(c, ast.Call) and ast.unparse(c.func) == "PathSegment.segment_length"]
    args = [[ast.unparse(a) for a in c.args[:5]] for c in rec]
    ok = len(rec) == 2 and ["curve", "start", "mid", "start_point", "mid_point"] in args and ["curve", "mid", "end", "mid_point", "end_point"] in args
    ctx.ob("R15.4", "segment_length[both halves]", ok, str(args), fn.lineno, "the recursion covers [start, mid] and [mid, end] with the matching end points")
    rets = [s for s in ast.walk(fn) if isinstance(s, ast.Return)]
    ok = any(isinstance(r.value, ast.BinOp) and isinstance(r.value.op, ast.Add) and all(isinstance(x, ast.Call) for x in (r.value.left, r.value.right)) for r in rets)
    ctx.ob("R15.4", "segment_length[sum of halves]", ok, "", fn.lineno, "the length of the interval is the sum of the lengths of its halves")
    tests = [s for s in fn.body if isinstance(s, ast.If) and any(isinstance(x, ast.Return) for x in s.body)]
    t = ast.unparse(tests[-1].test) if tests else ""
    ok = "error" in t and "min_depth" in t and "depth" in t and " or " in t
    ctx.ob("R15.4", "segment_length[stopping test]", ok, t, fn.lineno, "subdivision continues while the chord estimate still improves by more than the error OR the minimum depth is not reached")
    # depth increases on recursion and error/min_depth are forwarded
    fwd = all(len(c.args) >= 8 and [ast.unparse(a) for a in c.args[5:8]] == ["error", "min_depth", "depth"] for c in rec) and any(
        isinstance(s, ast.AugAssign) and ast.unparse(s.target) == "depth" and isinstance(s.op, ast.Add) for s in ast.walk(fn))
    ctx.ob("R15.4", "segment_length[forwards error, depth grows]", fwd, "", fn.lineno, "the requested error bound reaches every level; depth increases so the recursion terminates")
    # callers forward error/min_depth
    for qual in ("PathSegment._line_length", "CubicBezier._length_default"):
        f = ctx.fn(qual, "R15.4")
        s = ast.unparse(f).replace(" ", "")
        ok = ("error=error" in s and "min_depth=min_depth" in s) or ("error,min_depth" in s)
        ctx.ob("R15.4", "%s[forwards error]" % qual, ok, "", f.lineno, "the caller's error setting must reach the subdivision")
