"""C03 - parsed documents give each shape its spec-defined absolute geometry."""
import ast

from ..model import AnalysisError, NotConst, attr_chain, call_name, if_chain, stmts_in

EXPLANATION = (
    "Static rules over SVG.parse, Use and the render methods (no execution). R03.1 fold order: the accumulated transform is "
    "inherited + ' ' + own; an svg's viewport transform is appended after its own transform; a use's x/y translate is the "
    "trailing function of the use's transform. R03.2 non-propagation table: the attribute keys each element class reads "
    "(from property_by_values, module constants resolved) are compared with the keys removed from the inherited dictionary: "
    "a geometry key that a container (svg, use) reads for itself and that a child shape class also reads must be removed "
    "before children are built. R03.3 stack pairing: every path through a start event performs exactly one push and it "
    "precedes every early continue; every path through an end event performs exactly one pop (path counting over the "
    "statement structure). R03.4 typestate of a shape: render(...) precedes reify() on every path, reify is controlled "
    "only by the reify flag, degenerate shapes are dropped after both. R03.5: the defs, clipPath and pattern branches "
    "never append to the enclosing context; display:none guards continue before any construction. R03.6: every return "
    "yields the root (decided in C10, re-checked here). R03.7 axis -> reference: in every render method an attribute on the "
    "x axis resolves percentages against width, one on the y axis against height, and the width/height locals come from the "
    "caller's width/height (falling back to relative_length). R03.8 dispatch: every tag of the shape tuple has a constructor "
    "branch of the matching class. "
    "R03.9: a nested svg's x/y are applied as a translate also without a viewBox. R03.10: the viewport width/height rebound by a "
    "nested svg are saved on the element stack and restored on every pop, so percentages after the nested svg refer to the outer "
    "viewport again. "
    "Not decided: the geometry of generated documents; reify=True vs reify=False equality."
    " R03.11: the viewport transform is a factor of every nested shape's geometry, so C11's whole rule set"
    ' (algorithm steps per align value, None guards, output elision, size defaulting, incomplete viewBox) runs'
    ' here as well and reports under this property. R03.12: `reify=True` and `reify=False` must give the same'
    ' geometry, so the reify algebra of C02 (Rect / round shapes: guard on both skew entries, attributes ='
    ' image under scale+translate, transform left as the identity) runs here too.'
    ' R03.13: a unit-bearing translate inside a unit-bearing translate is accumulated by Length addition before'
    " anything is resolved, so C12's addition table (every ordered unit pair) runs here as well."
    " R03.13 also carries C12's value table (every unit of Length.value against the CSS ratio); R03.14: C06's"
    ' rule that Rect.render repeats the corner clamp once the lengths are resolved, unconditionally.'
    " R03.15: every render() of an element class hands on to its base classes' render (where the lengths and"
    ' the unit-bearing translations of the transform are resolved) as an unconditional statement, before any'
    ' exit.'
)
TECHNIQUE = (
    "static analysis (no execution): attribute-key tables read off property_by_values vs keys removed from the inherited dictionary; path counting of push/pop over the statement structure; typestate order render-before-reify; axis/reference agreement in render methods"
)
ASSUMPTIONS = [
    "SVG 1.1 property index: fill, stroke, stroke-width, opacity properties, color, font properties, display (as subtree suppression) may propagate; transform is accumulated on purpose.",
    "href/xlink:href carried by use and vector-effect (not inherited in SVG 2) also propagate today; they are reported in the evidence notes but are outside the property's geometry vocabulary.",
]
FLOORS = {"R03.1": 3, "R03.2": 2, "R03.3": 2, "R03.4": 3, "R03.5": 4, "R03.7": 20, "R03.8": 8, "R03.11": 150, "R03.12": 10, "R03.13": 100}

SHAPE_TAGS = {"SVG_TAG_PATH": "Path", "SVG_TAG_CIRCLE": "Circle", "SVG_TAG_ELLIPSE": "Ellipse", "SVG_TAG_LINE": "SimpleLine", "SVG_TAG_POLYLINE": "Polyline",
              "SVG_TAG_POLYGON": "Polygon", "SVG_TAG_RECT": "Rect", "SVG_TAG_IMAGE": "Image"}
X_AXIS = {"x", "cx", "rx", "x1", "x2", "dx", "width"}
Y_AXIS = {"y", "cy", "ry", "y1", "y2", "dy", "height"}


def run(ctx):
    ctx.rule("R03.1", "transform fold order")
    ctx.rule("R03.2", "non-propagation of container geometry")
    ctx.rule("R03.3", "stack push/pop pairing")
    ctx.rule("R03.4", "render before reify")
    ctx.rule("R03.5", "non-rendered containers and display:none")
    ctx.rule("R03.6", "result is the root")
    ctx.rule("R03.7", "axis -> percentage reference in render")
    ctx.rule("R03.8", "shape dispatch")
    ctx.rule("R03.9", "nested svg origin reaches the transform with and without a viewBox")
    ctx.rule("R03.10", "viewport state is saved and restored with the element context")
    ctx.rule("R03.12", "reify=True and reify=False give the same geometry: folding the matrix into rect / round-shape attributes is exact (obligations shared with C02)")
    ctx.rule("R03.13", "unit-bearing translations of nested transforms are accumulated by Length addition: every (unit, unit) cell of += is the CSS ratio (obligations shared with C12)")
    ctx.rule("R03.14", "a rect's corner radii are clamped with the lengths resolved against ppi and viewport (obligations shared with C06 R06.2)")
    ctx.rule("R03.15", "every render() hands on to its base classes' render on every path")
    ctx.rule("R03.11", "the viewport transform each enclosing svg contributes is the SVG 2 8.2 one (obligations shared with C11)")
    fn = ctx.fn("SVG.parse", "R03.1")
    loop = [s for s in fn.body if isinstance(s, ast.For)]
    ctx.need(len(loop) == 1, "R03.1", "event loop not found")
    loop = loop[0]
    branches = {}
    for s in loop.body:
        if isinstance(s, ast.If):
            for test, body in if_chain(s):
                if test is not None:
                    branches[ast.unparse(test)] = body
    start = branches.get("event == 'start'")
    end = branches.get("event == 'end'")
    ctx.need(start is not None and end is not None, "R03.3", "start/end branches not found")
    fold_order(ctx, fn, start)
    non_propagation(ctx, fn, start)
    pairing(ctx, start, end)
    typestate(ctx, fn, start, end)
    non_rendered(ctx, start)
    result_root(ctx, fn)
    axis_reference(ctx)
    dispatch(ctx, start)
    svg_origin(ctx, start)
    viewport_state(ctx, fn, start, end)
    from . import c11

    c11.run(ctx.renamed("R03.11"))
    from . import c02

    c02.reify_algebra(ctx.renamed("R03.12"))
    from . import c12

    c12.iadd(ctx.renamed("R03.13"))
    c12.value_table(ctx.renamed("R03.13"))
    from . import c06

    c06.clamp_after_render(ctx.renamed("R03.14"))
    render_chain(ctx)


def viewport_state(ctx, fn, start, end):
    """Locals that a start event re-binds for its subtree and that later elements consume (the viewport width/height used
    for percentages) are loop-carried state: they must travel on the context stack, pushed at start and restored at end,
    like the inherited values.  Otherwise siblings after a nested svg resolve percentages against the inner viewport."""
    params = [a.arg for a in fn.args.args]
    rebound = set()
    for s in stmts_in(start):
        if isinstance(s, ast.Assign):
            for t in s.targets:
                for tt in (t.elts if isinstance(t, ast.Tuple) else [t]):
                    if isinstance(tt, ast.Name) and tt.id in ("width", "height") and tt.id in params:
                        rebound.add(tt.id)
    ctx.need(rebound, "R03.10", "viewport size re-binding not found in the start branch")
    pushes = [s for s in stmts_in(start) if isinstance(s, ast.Expr) and ast.unparse(s.value).startswith("stack.append(")]
    pops = [s for s in stmts_in(end) if isinstance(s, ast.Assign) and "stack.pop()" in ast.unparse(s.value)]
    pushed = set()
    for p in pushes:
        arg = p.value.args[0]
        pushed |= {e.id for e in (arg.elts if isinstance(arg, ast.Tuple) else [arg]) if isinstance(e, ast.Name)}
    ok_push = rebound <= pushed
    ok_pop = bool(pops) and all(rebound <= {e.id for e in (p.targets[0].elts if isinstance(p.targets[0], ast.Tuple) else [p.targets[0]]) if isinstance(e, ast.Name)} for p in pops)
    ctx.ob("R03.10", "SVG.parse[viewport size saved/restored]", ok_push and ok_pop, "re-bound in start: %s; pushed: %s; every pop restores them: %s" % (sorted(rebound), sorted(pushed), ok_pop), start[0].lineno,
           "percentages refer to the NEAREST enclosing viewport: the size set by a nested svg must not outlive its subtree")
    # push and pop shapes agree
    shapes = {len(p.value.args[0].elts) if isinstance(p.value.args[0], ast.Tuple) else 1 for p in pushes} | {len(p.targets[0].elts) if isinstance(p.targets[0], ast.Tuple) else 1 for p in pops}
    repl = [s for s in stmts_in(start) if isinstance(s, ast.Assign) and ast.unparse(s.targets[0]) == "stack[-1]"]
    shapes |= {len(r.value.elts) if isinstance(r.value, ast.Tuple) else 1 for r in repl}
    ctx.ob("R03.10", "SVG.parse[stack entry shape]", len(shapes) == 1, "entry sizes %s" % sorted(shapes), start[0].lineno, "every push, replacement and pop uses the same tuple shape")


def svg_origin(ctx, start):
    tag_chain = [s for s in start if isinstance(s, ast.If) and "SVG_NAME_TAG == tag" in ast.unparse(s.test)][0]
    body = tag_chain.body
    vb = [s for s in body if isinstance(s, ast.If) and ast.unparse(s.test) == "s.viewbox is not None"]
    ctx.need(len(vb) == 1, "R03.9", "svg branch: viewBox split not found")
    with_vb = "s.viewbox_transform" in ast.unparse(ast.Module(vb[0].body, []))
    ctx.ob("R03.9", "SVG.parse[svg with viewBox: equivalent transform]", with_vb, "", vb[0].lineno, "the viewBox transform (which includes the element's x/y) is composed into the content transform")
    other = vb[0].orelse
    src = ast.unparse(ast.Module(other, [])) if other else ""
    ok = bool(other) and "translate(" in src and "s.x" in src and "s.y" in src and "values[SVG_ATTR_TRANSFORM]" in src
    ctx.ob("R03.9", "SVG.parse[svg without viewBox: translate(x, y)]", ok, src[:120], vb[0].lineno,
           "a nested svg establishes its viewport at (x, y) even without a viewBox: its content must be translated there")


# --------------------------------------------------------------------------- R03.1
def fold_order(ctx, fn, start):
    found = False
    for s in stmts_in(start):
        if isinstance(s, ast.Assign) and ast.unparse(s.targets[0]) == "attributes[SVG_ATTR_TRANSFORM]" and isinstance(s.value, ast.BinOp):
            parts = []

            def flat(n):
                if isinstance(n, ast.BinOp) and isinstance(n.op, ast.Add):
                    flat(n.left)
                    flat(n.right)
                else:
                    parts.append(ast.unparse(n))

            flat(s.value)
            found = True
            ctx.ob("R03.1", "SVG.parse[inherited transform first]", parts == ["values[SVG_ATTR_TRANSFORM]", "' '", "attributes[SVG_ATTR_TRANSFORM]"], " + ".join(parts), s.lineno,
                   "an ancestor's transform must stand left of the element's own (it is applied last)")
    ctx.need(found, "R03.1", "transform accumulation not found")
    vp = []
    ok = True
    keeps_previous = 0
    for st in stmts_in(start):
        if isinstance(st, ast.AugAssign) and ast.unparse(st.target) == "values[SVG_ATTR_TRANSFORM]":
            vp.append(st)
            keeps_previous += 1
            if not (ast.unparse(st.value) == "' ' + viewport_transform" and isinstance(st.op, ast.Add)):
                ok = False
        elif isinstance(st, ast.Assign) and ast.unparse(st.targets[0]) == "values[SVG_ATTR_TRANSFORM]" and "viewport_transform" in ast.unparse(st.value):
            vp.append(st)
            parts = []

            def flat2(n):
                if isinstance(n, ast.BinOp) and isinstance(n.op, ast.Add):
                    flat2(n.left)
                    flat2(n.right)
                else:
                    parts.append(ast.unparse(n))

            flat2(st.value)
            if "values[SVG_ATTR_TRANSFORM]" in parts:
                keeps_previous += 1
                if not (parts.index("values[SVG_ATTR_TRANSFORM]") < parts.index("viewport_transform") and parts[-1] == "viewport_transform"):
                    ok = False
            elif parts != ["viewport_transform"]:
                ok = False
    ok = ok and keeps_previous >= 1
    ctx.ob("R03.1", "SVG.parse[viewport transform appended]", ok, "; ".join(ast.unparse(v)[:60] for v in vp), vp[0].lineno if vp else fn.lineno,
           "the viewBox transform applies to the svg's content, inside the svg's own transform: it must be appended on the right")
    up = ctx.fn("Use.property_by_values", "R03.1")
    from ..pe import PE, K, Raised
    vp_ = up.args.args[1].arg
    # the statement(s) that build the translate text, followed for a use with / without an inherited transform (marker strings only)
    slice_ = [x for x in up.body if any(isinstance(n, ast.Constant) and isinstance(n.value, str) and "translate(" in n.value for n in ast.walk(x))]
    results = {}
    for has_prev in (True, False):
        pe = PE(ctx.m, "R03.1", "Use.property_by_values", oracle=lambda pe_, t: True if any(isinstance(n, ast.Attribute) and n.attr in ("x", "y") for n in ast.walk(t)) else None)
        pe.bind(vp_, K({"transform": K("PREV")} if has_prev else {}))
        pe.attrs["self.x"] = K("X")
        pe.attrs["self.y"] = K("Y")
        try:
            pe.run(slice_)
            got = pe.env[vp_].v.get("transform")
            results[has_prev] = got.v if isinstance(got, K) else None
        except Raised as e:
            results[has_prev] = "raises %s" % e.name
        except AnalysisError as e:
            raise AnalysisError("R03.1", str(e))
    ok = bool(slice_) and results.get(True) == "PREV translate(X, Y)" and results.get(False) == "translate(X, Y)"
    fmts = []
    ctx.ob("R03.1", "Use.property_by_values[x/y as trailing translate]", ok, "with inherited transform: %r; without: %r" % (results.get(True), results.get(False)), up.lineno,
           "use x/y is an additional translate(x, y) appended to (applied before) the use's transform")
    from ..flow import Aliases as _Aliases

    al_ = _Aliases(fn)
    ok = any(isinstance(s, ast.Assign) and len(s.targets) == 1 and al_.canon(s.targets[0]) == "values[SVG_ATTR_TRANSFORM]" and al_.canon(s.value) == "s.values[SVG_ATTR_TRANSFORM]"
             for s in stmts_in(start))
    ctx.ob("R03.1", "SVG.parse[use transform reaches the referenced content]", ok, "", fn.lineno, "the expanded reference inherits the use's transform including the x/y translate")


# --------------------------------------------------------------------------- R03.2
def keys_read(ctx, cname, seen=None):
    """Attribute keys read from the values dictionary by cname.property_by_values (with explicit base calls)."""
    seen = seen or set()
    out = set()
    for c in ctx.m.mro(cname):
        ci = ctx.m.classes[c]
        fn = ci.methods.get("property_by_values")
        if fn is None or c in seen:
            continue
        seen.add(c)
        vp = fn.args.args[1].arg
        for n in ast.walk(fn):
            k = None
            if isinstance(n, ast.Call) and isinstance(n.func, ast.Attribute) and n.func.attr == "get" and ast.unparse(n.func.value) == vp and n.args:
                k = n.args[0]
            elif isinstance(n, ast.Subscript) and ast.unparse(n.value) == vp:
                k = n.slice
            elif isinstance(n, ast.Compare) and isinstance(n.ops[0], ast.In) and ast.unparse(n.comparators[0]) == vp:
                k = n.left
            if k is not None:
                try:
                    v = ctx.m.const(k)
                    if isinstance(v, str):
                        out.add(v)
                except NotConst:
                    pass
        break_after = False
        # helpers that receive the values dictionary (self._init_points(values))
        for n in ast.walk(fn):
            if isinstance(n, ast.Call) and isinstance(n.func, ast.Attribute) and isinstance(n.func.value, ast.Name) and n.func.value.id == "self" \
                    and len(n.args) == 1 and ast.unparse(n.args[0]) == vp and n.func.attr in ci.methods and n.func.attr != "property_by_values":
                h = ci.methods[n.func.attr]
                hp = h.args.args[1].arg
                for x in ast.walk(h):
                    k = None
                    if isinstance(x, ast.Subscript) and ast.unparse(x.value) == hp:
                        k = x.slice
                    elif isinstance(x, ast.Compare) and isinstance(x.ops[0], ast.In) and ast.unparse(x.comparators[0]) == hp:
                        k = x.left
                    if k is not None:
                        try:
                            v = ctx.m.const(k)
                            if isinstance(v, str):
                                out.add(v)
                        except NotConst:
                            pass
        # follow explicit Base.property_by_values(self, values) calls
        for n in ast.walk(fn):
            if isinstance(n, ast.Call) and isinstance(n.func, ast.Attribute) and n.func.attr == "property_by_values" and isinstance(n.func.value, ast.Name) and n.func.value.id in ctx.m.classes:
                out |= keys_read(ctx, n.func.value.id, seen)
        break
    return out


def deleted_keys(ctx, stmts, conditional=None, dname="values"):
    """Keys removed from the inherited dictionary (`del D[K]`, `D.pop(K, ...)`).  A removal counts only when it is guarded by
    nothing but the presence test of its own key (a removal that depends on another key or flag does not always happen);
    others are collected in `conditional`."""
    out = set()
    top = list(stmts)

    def kv(n):
        try:
            return ctx.m.const(n)
        except NotConst:
            return None

    def own_guard(test, k):
        return isinstance(test, ast.Compare) and len(test.ops) == 1 and isinstance(test.ops[0], ast.In) and isinstance(test.comparators[0], ast.Name) \
            and test.comparators[0].id == dname and kv(test.left) == k

    removals = []
    for s in stmts_in(stmts):
        if isinstance(s, ast.Delete):
            for t in s.targets:
                if isinstance(t, ast.Subscript) and isinstance(t.value, ast.Name) and t.value.id == dname:
                    removals.append((s, kv(t.slice)))
        elif isinstance(s, ast.Expr) and isinstance(s.value, ast.Call) and isinstance(s.value.func, ast.Attribute) and s.value.func.attr == "pop" \
                and isinstance(s.value.func.value, ast.Name) and s.value.func.value.id == dname and s.value.args:
            removals.append((s, kv(s.value.args[0])))
    for s, k in removals:
        if k is None:
            continue
        own = True
        if any(s is x for x in top):
            out.add(k)
            continue
        p = getattr(s, "_parent", None)
        while p is not None and not any(p is x for x in top) and not isinstance(p, ast.FunctionDef):
            if isinstance(p, (ast.If, ast.For, ast.While)):
                if not (isinstance(p, ast.If) and own_guard(p.test, k)):
                    own = False
            if isinstance(p, ast.Try) and not all(isinstance(h.type, ast.Name) and h.type.id == "KeyError" for h in p.handlers):
                own = False
            p = getattr(p, "_parent", None)
        if p is not None and isinstance(p, ast.If) and any(p is x for x in top):
            if not own_guard(p.test, k):
                own = False
        if own:
            out.add(k)
        elif conditional is not None:
            conditional.add(k)
    return out


def non_propagation(ctx, fn, start):
    # generic block: deletions that happen before the tag dispatch (not inside a tag branch)
    tag_chain = None
    for s in start:
        if isinstance(s, ast.If) and "SVG_NAME_TAG == tag" in ast.unparse(s.test):
            tag_chain = s
    ctx.need(tag_chain is not None, "R03.2", "tag dispatch not found")
    cond = set()
    generic = deleted_keys(ctx, [s for s in start if s is not tag_chain], cond)
    want_generic = {"preserveAspectRatio", "viewBox", "id", "class", "clip-path"}
    ctx.ob("R03.2", "SVG.parse[element-own keys never inherited]", want_generic <= generic, "deleted for every element: %s; deleted only under another condition: %s" % (sorted(generic), sorted(cond)), fn.lineno,
           "viewBox, preserveAspectRatio, id, class and clip-path describe one element only")
    child_geom = set()
    for c in SHAPE_TAGS.values():
        child_geom |= keys_read(ctx, c)
    geometry = {"x", "y", "width", "height", "cx", "cy", "r", "rx", "ry", "x1", "y1", "x2", "y2", "points", "d", "viewBox", "preserveAspectRatio"}
    per_branch = {}
    for test, body in if_chain(tag_chain):
        if test is not None:
            per_branch[ast.unparse(test)] = body
    for cname, tsrc in (("SVG", "SVG_NAME_TAG == tag"), ("Use", "SVG_TAG_USE == tag")):
        body = per_branch.get(tsrc)
        ctx.need(body is not None, "R03.2", "branch %s not found" % tsrc)
        own = keys_read(ctx, cname) & geometry
        leak = (own & child_geom) - generic - deleted_keys(ctx, body)
        ctx.ob("R03.2", "SVG.parse[%s geometry not inherited]" % cname, not leak,
               "%s reads %s for itself; child shapes read %s; removed before children: %s" % (cname, sorted(own), sorted(own & child_geom), sorted(generic | deleted_keys(ctx, body))), body[0].lineno,
               "a container's own x/y/width/height reach its children through the inherited values: <svg x=.. width=..><rect/></svg> gives the rect the svg's position and size")
    notes = sorted((keys_read(ctx, "Use") | keys_read(ctx, "GraphicObject")) & {"href", "{http://www.w3.org/1999/xlink}href", "vector-effect"})
    ctx.note("keys outside the geometry vocabulary that still propagate: href/xlink:href (use), vector-effect")


# --------------------------------------------------------------------------- R03.3
def exits(stmts, is_event, count=0):
    """Enumerate (exit kind, count of event statements on the path) over the statement structure."""
    paths = [("fall", count)]
    for s in stmts:
        new = []
        for kind, c in paths:
            if kind != "fall":
                new.append((kind, c))
                continue
            if is_event(s):
                new.append(("fall", c + 1))
            elif isinstance(s, ast.If):
                new += exits(s.body, is_event, c)
                new += exits(s.orelse, is_event, c)
            elif isinstance(s, ast.Try):
                body = exits(s.body, is_event, c)
                new += body
                for h in s.handlers:
                    new += exits(h.body, is_event, c)
            elif isinstance(s, (ast.For, ast.While)):
                inner = exits(s.body, is_event, c)
                # loop bodies: event statements inside loops would be repeated - reported as a separate count
                new += [("fall", cc) if k in ("fall", "continue", "break") else (k, cc) for k, cc in inner] + [("fall", c)]
            elif isinstance(s, ast.Continue):
                new.append(("continue", c))
            elif isinstance(s, ast.Return):
                new.append(("return", c))
            elif isinstance(s, ast.Raise):
                new.append(("raise", c))
            elif isinstance(s, ast.Break):
                new.append(("break", c))
            else:
                new.append(("fall", c))
        # dedupe
        paths = sorted(set(new))
    return paths


def pairing(ctx, start, end):
    is_push = lambda s: isinstance(s, ast.Expr) and ast.unparse(s.value).startswith("stack.append(")
    is_pop = lambda s: isinstance(s, ast.Assign) and "stack.pop()" in ast.unparse(s.value)
    p = exits(start, is_push)
    bad = [(k, c) for k, c in p if k in ("fall", "continue") and c != 1]
    ctx.ob("R03.3", "SVG.parse[start: exactly one push on every path]", not bad and is_push(start[0]), "paths (exit, pushes): %s" % p, start[0].lineno,
           "a start event that is not pushed (or pushed twice) unbalances the context stack: later siblings land in the wrong parent")
    q = exits(end, is_pop)
    bad = [(k, c) for k, c in q if k in ("fall", "continue") and c != 1]
    ctx.ob("R03.3", "SVG.parse[end: exactly one pop on every path]", not bad, "paths (exit, pops): %s" % q, end[0].lineno,
           "an end event that does not pop (or pops twice) leaves following siblings inside/outside the wrong container")


# --------------------------------------------------------------------------- R03.4
def typestate(ctx, fn, start, end):
    def check(stmts, what, line):
        calls = []
        for s in stmts_in(stmts):
            if isinstance(s, ast.Expr) and isinstance(s.value, ast.Call) and isinstance(s.value.func, ast.Attribute) and ast.unparse(s.value.func.value) == "s" \
                    and s.value.func.attr in ("render", "reify"):
                g = getattr(s, "_parent", None)
                inside = any(g is x for x in stmts_in(stmts))
                guard = ast.unparse(g.test) if isinstance(g, ast.If) and s in g.body and inside else None
                calls.append((s.value.func.attr, s.lineno, guard))
        r = [c for c in calls if c[0] == "render"]
        f = [c for c in calls if c[0] == "reify"]
        ok = len(r) >= 1 and len(f) == 1 and r[0][1] < f[0][1] and f[0][2] == "reify" and r[0][2] in (None, "s is not None")
        ctx.ob("R03.4", "SVG.parse[%s: render before reify]" % what, ok, str(calls), line,
               "lengths and percentages must be resolved (render) before the transform is applied to them (reify); reify only on request")
        return f[0][1] if f else None

    shapes = None
    for s in stmts_in(start):
        if isinstance(s, ast.If):
            for test, body in if_chain(s):
                if test is not None and "SVG_TAG_RECT" in ast.unparse(test) and "SVG_TAG_PATH" in ast.unparse(test):
                    shapes = body
    ctx.need(shapes is not None, "R03.4", "shape branch not found")
    rl = check(shapes, "shapes", shapes[0].lineno)
    deg = [s for s in shapes if isinstance(s, ast.If) and ast.unparse(s.test) == "s.is_degenerate()"]
    app = [s for s in shapes if isinstance(s, ast.If) and ast.unparse(s.test) == "context is not None" and "context.append(s)" in ast.unparse(s)]
    ok = len(deg) == 1 and isinstance(deg[0].body[0], ast.Continue) and rl is not None and deg[0].lineno > rl and app and app[0].lineno > deg[0].lineno
    ctx.ob("R03.4", "SVG.parse[shapes: degenerate dropped after render/reify, before append]", ok, "", shapes[0].lineno,
           "a shape with a zero dimension produces no geometry and is not returned")
    text = None
    for s in stmts_in(end):
        if isinstance(s, ast.If) and "SVG_TAG_TEXT" in ast.unparse(s.test) and "Text(" in ast.unparse(s):
            text = s.body
    ctx.need(text is not None, "R03.4", "text branch not found")
    check(text, "text", text[0].lineno)
    # render receives the viewport size and ppi
    for s in stmts_in(shapes):
        if isinstance(s, ast.Expr) and ast.unparse(s.value).startswith("s.render("):
            kw = {k.arg: ast.unparse(k.value) for k in s.value.keywords}
            ctx.ob("R03.4", "SVG.parse[shapes: render context]", kw == {"ppi": "ppi", "width": "width", "height": "height"}, str(kw), s.lineno,
                   "units resolve against ppi, percentages against the nearest viewport's width/height")


# --------------------------------------------------------------------------- R03.5
def non_rendered(ctx, start):
    tag_chain = [s for s in start if isinstance(s, ast.If) and "SVG_NAME_TAG == tag" in ast.unparse(s.test)][0]
    for test, body in if_chain(tag_chain):
        if test is None:
            continue
        t = ast.unparse(test)
        for nm in ("SVG_TAG_DEFS", "SVG_TAG_CLIPPATH", "SVG_TAG_PATTERN"):
            if t == "%s == tag" % nm:
                appended = "context.append(s)" in "\n".join(ast.unparse(x) for x in body)
                sets_ctx = any(ast.unparse(x) == "context = s" for x in body)
                ctx.ob("R03.5", "SVG.parse[%s not rendered]" % nm, not appended and sets_ctx, "", body[0].lineno,
                       "content of defs/clipPath/pattern is only rendered when referenced: the element must not join the rendered tree, and must become the context of its children")
    guards = [s for s in start if isinstance(s, ast.If) and "SVG_ATTR_DISPLAY in values" in ast.unparse(s.test) and "SVG_VALUE_NONE" in ast.unparse(s.test)]
    ok = len(guards) == 2 and all(isinstance(g.body[0], ast.Continue) for g in guards) and all("not parse_display_none" in ast.unparse(g.test) for g in guards) and guards[1].lineno < tag_chain.lineno
    ctx.ob("R03.5", "SVG.parse[display:none subtree skipped before construction]", ok, "", start[0].lineno,
           "neither an element with display:none (inherited or own) nor its descendants are rendered")
    ok = all(".lower() == SVG_VALUE_NONE" in ast.unparse(g.test) for g in guards)
    ctx.ob("R03.5", "SVG.parse[display value compared case-insensitively]", ok, "", start[0].lineno, "")


def result_root(ctx, fn):
    n = 0
    for r in ast.walk(fn):
        if isinstance(r, ast.Return):
            n += 1
            v = ast.unparse(r.value) if r.value is not None else "None"
            ok = v == "root"
            if not ok:
                p = getattr(r, "_parent", None)
                while p is not None and p is not fn:
                    if isinstance(p, ast.If) and ast.unparse(p.test).replace(" ", "") == "rootisNone" and any(r is x for s in p.body for x in ast.walk(s)):
                        ok = True
                    p = getattr(p, "_parent", None)
            ctx.ob("R03.6", "SVG.parse[return line-order %d]" % n, ok, "returns %s" % v, r.lineno, "every return must yield the document root")


# --------------------------------------------------------------------------- R03.7
def axis_reference(ctx, only=None):
    n = 0
    for cname in (only or ("Rect", "_RoundShape", "SimpleLine", "Use", "Text", "Image", "SVG", "Pattern")):
        ci = ctx.m.cls(cname, "R03.7")
        fn = ci.methods.get("render")
        if fn is None:
            continue
        src = ast.unparse(fn)
        if "relative_length" not in src:
            continue
        # width/height locals: identified by what they are read from - kwargs.get("width", kwargs.get("relative_length"))
        from ..flow import bindings as _bindings, const_value as _cv
        kw = fn.args.kwarg.arg if fn.args.kwarg else "kwargs"
        role = {}
        single = {}
        for tg, v, node_ in _bindings(fn):
            if isinstance(tg, ast.Name):
                single.setdefault(tg.id, []).append(v)

        def through(n_):
            # a local bound once stands for its value
            while isinstance(n_, ast.Name) and len(single.get(n_.id, ())) == 1 and single[n_.id][0] is not None:
                n_ = single[n_.id][0]
            return n_

        for tg, v, node_ in _bindings(fn):
            if isinstance(tg, ast.Name) and isinstance(v, ast.Call) and isinstance(v.func, ast.Attribute) and v.func.attr == "get" and isinstance(v.func.value, ast.Name) and v.func.value.id == kw \
                    and v.args and _cv(ctx.m, v.args[0]) in ("width", "height"):
                fb = through(v.args[1]) if len(v.args) == 2 else None
                fallback = isinstance(fb, ast.Call) and isinstance(fb.func, ast.Attribute) and fb.func.attr == "get" \
                    and bool(fb.args) and _cv(ctx.m, fb.args[0]) == "relative_length"
                role[tg.id] = (_cv(ctx.m, v.args[0]), fallback)
        by_axis = {r[0]: (nm, r[1]) for nm, r in role.items()}
        ctx.ob("R03.7", "%s.render[reference lengths]" % cname, set(by_axis) == {"width", "height"} and all(f for _, f in by_axis.values()),
               str({k: v[0] for k, v in by_axis.items()}), fn.lineno, "percentages refer to the caller's viewport width/height")
        for s in ast.walk(fn):
            if isinstance(s, ast.Assign) and isinstance(s.targets[0], ast.Attribute) and isinstance(s.value, ast.Call) and isinstance(s.value.func, ast.Attribute) and s.value.func.attr == "value":
                attr = s.targets[0].attr
                rl = [k.value for k in s.value.keywords if k.arg == "relative_length"]
                if not rl or attr not in X_AXIS | Y_AXIS:
                    continue
                want = "width" if attr in X_AXIS else "height"
                n += 1
                got = role.get(rl[0].id, (None,))[0] if isinstance(rl[0], ast.Name) else None
                ctx.ob("R03.7", "%s.render[%s]" % (cname, attr), got == want, "relative_length=%s (the viewport %s)" % (ast.unparse(rl[0]), got), s.lineno,
                       "a percentage on the %s axis must resolve against the viewport %s" % ("x" if attr in X_AXIS else "y", want))
    ctx.need(n >= (20 if only is None else 4), "R03.7", "too few axis attributes recognised (%d)" % n)
    if only is not None:
        return
    # circle r: an axis-less length (SVG 1.1 7.10: normalised diagonal); today it is resolved per axis through rx/ry
    rs = ctx.fn("_RoundShape.property_by_values", "R03.7")
    src = ast.unparse(rs)
    per_axis = "self.rx = r" in src and "self.ry = r" in src
    rr = ctx.fn("_RoundShape.render", "R03.7")
    special = "sqrt" in ast.unparse(rr) or "diagonal" in ast.unparse(rr)
    ctx.ob("R03.7", "_RoundShape[r percentage reference]", (not per_axis) or special, "r copied into rx and ry, each resolved against its own axis: %s" % per_axis, rs.lineno,
           "a percentage radius r refers to the normalised diagonal sqrt((w^2+h^2)/2); resolving it per axis turns a circle into an ellipse in a non-square viewport")


# --------------------------------------------------------------------------- R03.8
def dispatch(ctx, start):
    shapes_test = None
    shapes_body = None
    for s in stmts_in(start):
        if isinstance(s, ast.If):
            for test, body in if_chain(s):
                if test is not None and isinstance(test, ast.Compare) and isinstance(test.ops[0], ast.In) and "SVG_TAG_RECT" in ast.unparse(test) and "SVG_TAG_PATH" in ast.unparse(test):
                    shapes_test, shapes_body = test, body
    ctx.need(shapes_test is not None, "R03.8", "shape tuple not found")
    tags = [e.id for e in shapes_test.comparators[0].elts if isinstance(e, ast.Name)]
    ctx.ob("R03.8", "SVG.parse[shape tags]", set(tags) == set(SHAPE_TAGS), str(tags), shapes_test.lineno, "the shape vocabulary is path, circle, ellipse, line, polyline, polygon, rect (and image)")
    inner = None
    for s in stmts_in(shapes_body):
        if isinstance(s, ast.If) and ast.unparse(s.test) == "SVG_TAG_PATH == tag":
            inner = s
    ctx.need(inner is not None, "R03.8", "shape constructor chain not found")
    seen = {}
    last_else = None
    for test, body in if_chain(inner):
        ctor = [call_name(a.value) for a in body if isinstance(a, ast.Assign) and isinstance(a.value, ast.Call)]
        if test is None:
            last_else = ctor[0] if ctor else None
            continue
        t = ast.unparse(test).replace(" == tag", "").replace("tag == ", "")
        seen[t] = ctor[0] if ctor else None
    remaining = set(tags) - set(seen)
    if last_else is not None and len(remaining) == 1:
        seen[remaining.pop()] = last_else
    for t, cls in SHAPE_TAGS.items():
        ctx.ob("R03.8", "SVG.parse[%s -> %s]" % (t, cls), seen.get(t) == cls, "constructs %s" % seen.get(t), inner.lineno, "tag constructs the wrong element class")


def render_chain(ctx):
    """render() is where lengths and the unit-bearing translations of the accumulated transform get their values (ppi,
    viewport).  A subclass's render hands on to its base classes' render first; that call must be made on every path - an early
    return before it ("nothing of mine to resolve") leaves the transform of the element unresolved."""
    n = 0
    for cname, ci in sorted(ctx.m.classes.items()):
        fn = ci.methods.get("render")
        if fn is None:
            continue
        base_calls = [st for st in ast.walk(fn) if isinstance(st, ast.Expr) and isinstance(st.value, ast.Call) and isinstance(st.value.func, ast.Attribute) and st.value.func.attr == "render"
                      and isinstance(st.value.func.value, ast.Name) and st.value.func.value.id in ctx.m.classes and st.value.args and isinstance(st.value.args[0], ast.Name)
                      and st.value.args[0].id == "self"]
        if not base_calls:
            continue
        n += 1
        top = [st for st in base_calls if any(st is b for b in fn.body)]
        first = min((fn.body.index(st) for st in top), default=None)
        early = [b for b in fn.body[:first] if any(isinstance(x, (ast.Return, ast.Raise)) for x in ast.walk(b))] if first is not None else []
        ctx.ob("R03.15", "%s.render[hands on to the base render on every path]" % cname, len(top) == len(base_calls) and not early,
               "%d base call(s), %d unconditional; exits before the first: %d" % (len(base_calls), len(top), len(early)), fn.lineno,
               "a <line x1=\"0\" ...> under translate(1in, 5mm) keeps a Length in its matrix when SimpleLine.render returns before Shape.render")
    ctx.need(n >= 5, "R03.15", "render methods that hand on to a base render not found (%d)" % n)
