"""C19 - arc-to-Bezier conversion keeps endpoints, continuity and a bounded error."""
import ast

from ..algebra import Alg, Uninterpreted, atom, const, opaque_name
from ..flow import untuple
from ..model import AnalysisError, attr_chain, call_name, enclosing, stmts_in

EXPLANATION = (
    "Static rules over Arc.as_cubic_curves / as_quad_curves and Path.approximate_arcs_with_* (no execution). R19.1 pinning "
    "and continuity: the first curve starts at self.start; on the last iteration the end is pinned to self.end before the "
    "curve is built; each yielded curve runs from the loop-carried start to the iteration's end; afterwards the carried "
    "start becomes that end and the parameter advances by one slice. R19.2: a zero slice count returns before the division "
    "by it and before anything is yielded. R19.3 formulas (loop body folded to exact canonical forms over opaque cos/sin): "
    "slice count ceil(|sweep| / limit), slice = sweep / count; for cubics the end point is the ellipse point E(t2), the "
    "controls are start + alpha E'(t1) and end - alpha E'(t2) with E, E' the ellipse and its derivative in "
    "centre/radii/rotation form and alpha = sin(dt) (sqrt(4 + 3 tan^2(dt/2)) - 1)/3 (Maisonobe); for quadratics the control"
    " is the centre plus a slice-only factor times the ellipse radius vector at the mid parameter. R19.4: the path-level "
    "converters walk the path backwards (descending index loop; an ascending `for i, seg in enumerate(self)` walk is "
    "reported: it skips the segment after an arc that is replaced by nothing) and replace each arc by slice assignment "
    "(which re-validates every connection), with the slice count from |sweep| / (full turn x error). Not decided: the 1e-3 "
    "/ 1e-2 distance bounds themselves (numeric)."
    ' R19.5: both converters take their first parameter from get_start_t() = t_at_point(point_at_angle(start'
    " angle)); C05's R05.5 (half-turn correction exactly for |angle| mod 1 turn in (1/4, 3/4], boundaries"
    ' decided by the sign of tan() at the float quarter turns) therefore runs here as well.'
    " R19.6: the converters follow start + sweep of the arc the solver produced; C05's rule that the radii are"
    ' made absolute before their first odd-power use runs here as well.'
    ' R19.3: the slice count of Path.approximate_arcs_with_cubics/_quads is not clamped from above (an arc may'
    ' sweep more than one turn).'
)
TECHNIQUE = (
    "static analysis (no execution): loop-carried continuity and end pinning; control-point formulas as exact canonical forms over opaque trig atoms; structural rules for path-level replacement"
)
ASSUMPTIONS = [
    "The cubic alpha of L. Maisonobe, 'Drawing an elliptical arc using polylines, quadratic or cubic Bezier curves' (2003) is the reference for cubics.",
    "For quadratics only the geometric form of the control point is decided; the particular slice-only factor is an accuracy choice (numeric clause).",
]
FLOORS = {"R19.1": 10, "R19.2": 2, "R19.3": 10, "R19.4": 4, "R19.5": 2}

SEED = {"self.rx": "RX", "self.ry": "RY", "self.get_rotation()": "TH", "self.center.x": "CX", "self.center.y": "CY", "self.get_start_t()": "T0"}


def run(ctx):
    ctx.rule("R19.1", "end-point pinning and loop-carried continuity")
    ctx.rule("R19.2", "zero extent yields nothing")
    ctx.rule("R19.3", "slice, ellipse point, derivative, alpha and control-point formulas")
    ctx.rule("R19.4", "path-level replacement keeps the rest of the path connected")
    ctx.rule("R19.5", "the first slice starts at the arc's start parameter: polar angle to ellipse parameter (obligations shared with C05 R05.5)")
    for kind in ("cubic", "quad"):
        generator(ctx, kind)
    path_level(ctx)
    slice_count_uncapped(ctx)
    # both converters take their first parameter from get_start_t() = t_at_point(point_at_angle(start angle)); with the wrong
    # parameter the chain still starts and ends at the arc's end points but every joint in between is on the other half of
    # the ellipse
    st = ctx.fn("Arc.get_start_t", "R19.5")
    reaches = {c.func.attr for c in ast.walk(st) if isinstance(c, ast.Call) and isinstance(c.func, ast.Attribute)}
    ctx.need(reaches & {"point_at_angle", "t_at_point"}, "R19.5", "Arc.get_start_t no longer goes through point_at_angle / t_at_point")
    from . import c05

    c05.polar_to_parameter(ctx.renamed("R19.5"))
    # the converters follow start + sweep; with a negative radius left in the solver the sweep no longer leads to the end point
    ctx.rule("R19.6", "the arc the converters follow is the arc of the absolute radii (obligations shared with C05 R05.2)")
    c05.radius_sign(ctx.renamed("R19.6"), ctx.fn("Arc._svg_parameterize", "R19.6"))


def generator(ctx, kind):
    qual = "Arc.as_%s_curves" % kind
    fn = ctx.fn(qual, "R19.1")
    cls_name = "CubicBezier" if kind == "cubic" else "QuadraticBezier"
    loops = [s for s in fn.body if isinstance(s, ast.For)]
    ctx.need(len(loops) == 1, "R19.1", "%s: loop not found" % qual)
    loop = loops[0]
    pre = untuple(fn.body[:fn.body.index(loop)])
    # --- R19.2 zero guard before the division
    guard_i = div_i = None
    count_var = fn.args.args[1].arg
    for i, s in enumerate(pre):
        if isinstance(s, ast.If) and ast.unparse(s.test).replace(" ", "") == "%s==0" % count_var and isinstance(s.body[0], ast.Return) and s.body[0].value is None:
            guard_i = i
        if isinstance(s, ast.Assign) and any(isinstance(n, ast.BinOp) and isinstance(n.op, ast.Div) and count_var in ast.unparse(n.right) for n in ast.walk(s.value)):
            div_i = i if div_i is None else div_i
    ctx.ob("R19.2", "%s[zero guard]" % qual, guard_i is not None and (div_i is None or guard_i < div_i), "guard at %s, division at %s" % (guard_i, div_i), fn.lineno,
           "an arc of zero extent must yield no curves (and the slice division must not see a zero count)")
    # --- slice count and slice
    alg0 = Alg()
    dflt = [s for s in pre if isinstance(s, ast.If) and ast.unparse(s.test) == "%s is None" % count_var]
    ctx.need(len(dflt) == 1, "R19.3", "%s: default slice count block not found" % qual)
    for s in dflt[0].body:
        if isinstance(s, ast.Assign):
            try:
                alg0.assign(s)
            except Uninterpreted:
                pass
    cnt = None
    for s in dflt[0].body:
        if isinstance(s, ast.Assign) and s.targets[0].id == count_var:
            v = s.value
            while isinstance(v, ast.Call) and isinstance(v.func, ast.Name) and v.func.id in ("int", "ceil"):
                inner = v.func.id
                v = v.args[0]
            cnt = (ast.unparse(s.value), alg0.ev(v))
    ok = cnt is not None and "ceil(" in cnt[0] and cnt[1] == atom("abs(self.sweep)") / (const(2) * atom("pi") / const(12))
    ctx.ob("R19.3", "%s[default slice count]" % qual, ok, cnt[0] if cnt else "", dflt[0].lineno, "default: one curve per twelfth of a turn, rounded up")
    # --- seed names from pre-loop assignments
    alg = Alg()
    start_var = t_var = slice_var = None
    for s in pre:
        if isinstance(s, ast.Assign) and isinstance(s.targets[0], ast.Name):
            src = ast.unparse(s.value)
            nm = s.targets[0].id
            if src in SEED:
                alg.env[nm] = atom(SEED[src])
                if SEED[src] == "T0":
                    t_var = nm
            elif src == "self.start":
                start_var = nm
                alg.env[nm] = [atom("PS0"), atom("PS1")]
            elif isinstance(s.value, ast.BinOp) and isinstance(s.value.op, ast.Div) and "self.sweep" in src and count_var in src:
                slice_var = nm
                want = atom("self.sweep") / atom(count_var)
                got = Alg().ev(s.value)
                ctx.ob("R19.3", "%s[slice]" % qual, got == want, src, s.lineno, "each curve covers sweep / count of the parameter range")
                alg.env[nm] = atom("DT")
            else:
                try:
                    alg.assign(s)
                except Uninterpreted:
                    pass
    ctx.ob("R19.1", "%s[first start]" % qual, start_var is not None, "", fn.lineno, "the chain must start exactly at the arc's start point")
    ctx.need(start_var and t_var and slice_var, "R19.1", "%s: start / parameter / slice variables not found" % qual)
    # --- loop body
    pin = None
    yld = None
    after = []
    body_lin = []
    for s in untuple(loop.body):
        if isinstance(s, ast.If):
            pin = s
            continue
        if isinstance(s, ast.Expr) and isinstance(s.value, ast.Yield):
            yld = s
            continue
        if yld is not None:
            after.append(s)
        else:
            body_lin.append(s)
    ctx.need(yld is not None and call_name(yld.value.value) == cls_name, "R19.1", "%s: yield %s(...) not found" % (qual, cls_name))
    call = yld.value.value
    end_arg = call.args[-1]
    ivar = loop.target.id
    ok_pin = False
    if pin is not None:
        t = ast.unparse(pin.test).replace(" ", "")
        ok_pin = t in ("%s==%s-1" % (ivar, count_var), "%s+1==%s" % (ivar, count_var)) and len(pin.body) == 1 and isinstance(pin.body[0], ast.Assign) \
            and ast.unparse(pin.body[0].targets[0]) == ast.unparse(end_arg) and ast.unparse(pin.body[0].value) == "self.end" and pin.lineno < yld.lineno
    ctx.ob("R19.1", "%s[last end pinned]" % qual, ok_pin, ast.unparse(pin)[:100] if pin is not None else "no pin", loop.lineno,
           "the last curve must end exactly at the arc's end point, not at a recomputed ellipse point")
    it = ast.unparse(loop.iter).replace(" ", "")
    ctx.ob("R19.1", "%s[iteration count]" % qual, it in ("range(0,%s)" % count_var, "range(%s)" % count_var, "range(0,%s,1)" % count_var), it, loop.lineno, "exactly `count` curves are produced")
    ctx.ob("R19.1", "%s[curve runs start..end]" % qual, ast.unparse(call.args[0]) == start_var, "first argument %s" % ast.unparse(call.args[0]), yld.lineno,
           "each curve starts at the carried start point")
    aft = [ast.unparse(s).replace(" ", "") for s in after]
    ok_carry = any(a in ("%s=%s" % (start_var, ast.unparse(end_arg)), "%s=Point(%s)" % (start_var, ast.unparse(end_arg))) for a in aft)
    ctx.ob("R19.1", "%s[carried start := end]" % qual, ok_carry, "; ".join(aft), yld.lineno, "the next curve starts where this one ended (connected chain)")
    next_var = None
    for s in body_lin:
        if isinstance(s, ast.Assign) and ast.unparse(s.value).replace(" ", "") in ("%s+%s" % (t_var, slice_var), "%s+%s" % (slice_var, t_var)):
            next_var = s.targets[0].id
    ok_adv = next_var is not None and "%s=%s" % (t_var, next_var) in aft
    ctx.ob("R19.1", "%s[parameter advances]" % qual, ok_adv, "; ".join(aft), yld.lineno, "the parameter moves on by one slice per curve")
    # --- R19.3 formulas
    for s in body_lin:
        if isinstance(s, ast.Assign):
            try:
                if not alg.assign(s):
                    raise Uninterpreted(ast.unparse(s))
            except Uninterpreted:
                # opaque value (a method call): the name stays an atom; any formula depending on it is then compared as such
                for t in s.targets:
                    if isinstance(t, ast.Name):
                        alg.env.pop(t.id, None)
    RX, RY, CX, CY, DT, T0 = (atom(n) for n in ("RX", "RY", "CX", "CY", "DT", "T0"))
    cth, sth = atom(opaque_name("cos", [atom("TH")])), atom(opaque_name("sin", [atom("TH")]))

    def cs(t):
        return atom(opaque_name("cos", [t])), atom(opaque_name("sin", [t]))

    def E(t):
        c, s_ = cs(t)
        return [CX + RX * c * cth - RY * s_ * sth, CY + RX * c * sth + RY * s_ * cth]

    def dE(t):
        c, s_ = cs(t)
        return [-RX * cth * s_ - RY * sth * c, -RX * sth * s_ + RY * cth * c]

    t1, t2 = T0, T0 + DT

    def pt(node):
        v = alg.point_value(node)
        if v is None:
            raise AnalysisError("R19.3", "%s: %s is not a point value" % (qual, ast.unparse(node)))
        return v

    if kind == "cubic":
        alpha_ref = atom(opaque_name("sin", [DT])) * (atom(opaque_name("sqrt", [const(4) + const(3) * atom(opaque_name("tan", [DT / const(2)])) ** 2])) - const(1)) / const(3)
        pe = pt(call.args[3])
        c1 = pt(call.args[1])
        c2 = pt(call.args[2])
        e2 = E(t2)
        ctx.ob("R19.3", "%s[end = E(t2)]" % qual, pe[0] == e2[0] and pe[1] == e2[1], str(pe[0]), yld.lineno, "interior end points lie on the ellipse at the slice boundary")
        d1, d2 = dE(t1), dE(t2)
        ps = [atom("PS0"), atom("PS1")]
        # find alpha as implemented: (c1 - ps)/E'(t1) on x must equal on y and equal the reference
        okc1 = c1[0] == ps[0] + alpha_ref * d1[0] and c1[1] == ps[1] + alpha_ref * d1[1]
        ctx.ob("R19.3", "%s[control1 = start + alpha E'(t1)]" % qual, okc1, str(c1[0]), yld.lineno,
               "first control point: start plus alpha times the ellipse derivative at the slice start, alpha = sin(dt)(sqrt(4+3tan^2(dt/2))-1)/3")
        okc2 = c2[0] == pe[0] - alpha_ref * d2[0] and c2[1] == pe[1] - alpha_ref * d2[1]
        ctx.ob("R19.3", "%s[control2 = end - alpha E'(t2)]" % qual, okc2, str(c2[0]), yld.lineno,
               "second control point: end minus alpha times the ellipse derivative at the slice end")
    else:
        # p_end comes from self.point_at_t(next_t); control = centre + k(DT) * (E(mid) - centre)
        pe_def = [s for s in body_lin if isinstance(s, ast.Assign) and ast.unparse(s.targets[0]) == ast.unparse(end_arg)]
        ok = bool(pe_def) and ast.unparse(pe_def[0].value).replace(" ", "") == "self.point_at_t(%s)" % next_var
        ctx.ob("R19.3", "%s[end = E(t2)]" % qual, ok, ast.unparse(pe_def[0].value) if pe_def else "", yld.lineno, "interior end points lie on the ellipse at the slice boundary")
        c = pt(call.args[1])
        mid = (t1 + t2) / const(2)
        em = E(mid)
        rx_, ry_ = em[0] - CX, em[1] - CY
        # the factor is a local whose form mentions the slice only (not the running parameter)
        fac_ok = False
        kx = None
        for nm, val in alg.env.items():
            if isinstance(val, list) or not val.exact():
                continue
            ats = val.atoms()
            if not ats or any("T0" in a for a in ats) or not any("DT" in a for a in ats):
                continue
            if c[0] == CX + val * rx_ and c[1] == CY + val * ry_:
                fac_ok = True
                kx = "%s = %s" % (nm, val)
        ctx.ob("R19.3", "%s[control on the mid-parameter ray]" % qual, fac_ok, "factor %s" % (kx,), yld.lineno,
               "the quadratic control point is the centre plus a slice-only factor times the ellipse radius vector at the mid parameter")
    # E / E' forms used by point_at_t agree with the same reference (shared with C05/C02)
    pat = ctx.fn("Arc.point_at_t", "R19.3")
    a2 = Alg()
    a2.env.update({"t": atom("T")})
    for s in pat.body:
        if isinstance(s, ast.Assign):
            src = ast.unparse(s.value)
            if src in SEED:
                a2.env[s.targets[0].id] = atom(SEED[src])
            else:
                try:
                    a2.assign(s)
                except Uninterpreted:
                    pass
    ret = [s for s in pat.body if isinstance(s, ast.Return)][0]
    pv = a2.point_value(ret.value)
    T = atom("T")
    c, s_ = cs(T)
    want = [CX + RX * c * cth - RY * s_ * sth, CY + RX * c * sth + RY * s_ * cth]
    if kind == "cubic":
        ctx.ob("R19.3", "Arc.point_at_t[ellipse form]", pv is not None and pv[0] == want[0] and pv[1] == want[1], "", pat.lineno,
               "point_at_t is c + rx cos t (cos th, sin th) + ry sin t (-sin th, cos th)")


def _descending_indices(it):
    """range(len(self) - 1, -1, -1) / reversed(range(len(self))) / range(len(self))[::-1]"""
    def is_len_self(n):
        return isinstance(n, ast.Call) and call_name(n) == "len" and len(n.args) == 1 and isinstance(n.args[0], ast.Name) and n.args[0].id == "self"

    if isinstance(it, ast.Call) and call_name(it) == "range" and len(it.args) == 3:
        a0, a1, a2 = it.args
        try:
            ok0 = Alg().ev(a0) == Alg().ev(ast.parse("len(self) - 1", mode="eval").body)
            return ok0 and Alg().ev(a1) == const(-1) and Alg().ev(a2) == const(-1)
        except Uninterpreted:
            return False
    if isinstance(it, ast.Call) and call_name(it) == "reversed" and len(it.args) == 1:
        r = it.args[0]
        return isinstance(r, ast.Call) and call_name(r) == "range" and ((len(r.args) == 1 and is_len_self(r.args[0])) or (len(r.args) == 2 and isinstance(r.args[0], ast.Constant) and r.args[0].value == 0 and is_len_self(r.args[1])))
    return False


def close_target(ctx):
    """Slice assignment re-validates every connection (Path.validate_connections).  That walk takes the close target from the
    last Move - or, for a fragment that begins without one, from the END of whatever segment is first.  Replacing the first arc
    by several curves (or by nothing) changes that segment, so a later Close of the fragment is re-aimed at an interior point of
    the old arc: the rest of the path is not left untouched."""
    vc = ctx.fn("Path.validate_connections", "R19.4")
    bad = []
    for st in ast.walk(vc):
        if isinstance(st, ast.If) and isinstance(st.test, ast.BoolOp) and isinstance(st.test.op, ast.Or):
            has_none = any(isinstance(v, ast.Compare) and isinstance(v.ops[0], ast.Is) and isinstance(v.comparators[0], ast.Constant) and v.comparators[0].value is None for v in st.test.values)
            has_move = any(isinstance(v, ast.Call) and call_name(v) == "isinstance" and any(isinstance(x, ast.Name) and x.id == "Move" for x in ast.walk(v)) for v in st.test.values)
            if has_none and has_move:
                for a in st.body:
                    if isinstance(a, ast.Assign) and isinstance(a.value, ast.Attribute) and a.value.attr == "end":
                        bad.append("line %d: %s when no Move has been seen" % (a.lineno, ast.unparse(a)))
    ctx.ob("R19.4", "Path.validate_connections[close target of a fragment without a Move]", not bad, "; ".join(bad), vc.lineno,
           "the close target depends on which segment is first; converting the first arc of a Move-less fragment moves the end of a later Close")


def path_level(ctx):
    from ..flow import Taint, bindings

    close_target(ctx)

    for kind, gen in (("cubics", "as_cubic_curves"), ("quads", "as_quad_curves")):
        qual = "Path.approximate_arcs_with_%s" % kind
        fn = ctx.fn(qual, "R19.4")
        loops = [s for s in fn.body if isinstance(s, ast.For)]
        ctx.need(len(loops) == 1, "R19.4", "%s: loop not found" % qual)
        lp = loops[0]
        seg = None
        if isinstance(lp.target, ast.Tuple) and len(lp.target.elts) == 2 and all(isinstance(e, ast.Name) for e in lp.target.elts) \
                and isinstance(lp.iter, ast.Call) and call_name(lp.iter) == "enumerate" and lp.iter.args and isinstance(lp.iter.args[0], ast.Name) and lp.iter.args[0].id == "self":
            # `for i, seg in enumerate(self)`: index and segment together, visiting in ascending order
            iv, seg = lp.target.elts[0].id, lp.target.elts[1].id
            ctx.ob("R19.4", "%s[backwards]" % qual, False, ast.unparse(lp.iter), lp.lineno,
                   "replacing from the back keeps the indices of the segments still to visit valid; an ascending walk skips the segment after an arc that is replaced by nothing")
        else:
            ctx.need(isinstance(lp.target, ast.Name), "R19.4", "%s: loop form not recognised" % qual)
            ctx.ob("R19.4", "%s[backwards]" % qual, _descending_indices(lp.iter), ast.unparse(lp.iter), lp.lineno,
                   "replacing from the back keeps the indices of the segments still to visit valid")
            iv = lp.target.id
            segv = [tg.id for tg, v, n in bindings(lp) if isinstance(tg, ast.Name) and isinstance(v, ast.Subscript) and isinstance(v.value, ast.Name) and v.value.id == "self"
                    and isinstance(v.slice, ast.Name) and v.slice.id == iv]
            ctx.need(len(segv) == 1, "R19.4", "%s: current segment local not found" % qual)
            seg = segv[0]
        gens = [c for c in ast.walk(lp) if isinstance(c, ast.Call) and attr_chain(c.func) == [seg, gen]]
        t = Taint(lp, lambda n: any(n is c for c in gens), through_containers=False)
        asg = [x for x in ast.walk(lp) if isinstance(x, ast.Assign) and isinstance(x.targets[0], ast.Subscript) and isinstance(x.targets[0].value, ast.Name) and x.targets[0].value.id == "self"]
        ok = False
        if len(asg) == 1 and isinstance(asg[0].targets[0].slice, ast.Slice) and asg[0].targets[0].slice.step is None:
            sl = asg[0].targets[0].slice
            try:
                ok = sl.lower is not None and sl.upper is not None and Alg().ev(sl.lower) == atom(iv) and Alg().ev(sl.upper) == atom(iv) + const(1)
            except Uninterpreted:
                ok = False
            ok = ok and bool(gens) and t.derived(asg[0].value)
        ctx.ob("R19.4", "%s[slice assignment]" % qual, ok, ast.unparse(asg[0])[:100] if asg else "", lp.lineno,
               "exactly the arc is replaced, by slice assignment (the path re-validates all connections)")
        # the replacement happens only for arcs: the store is under `isinstance(seg, Arc)` or after `if not isinstance(seg, Arc): continue`
        guard = False
        for x in ast.walk(lp):
            if isinstance(x, ast.If):
                tst, neg = x.test, False
                if isinstance(tst, ast.UnaryOp) and isinstance(tst.op, ast.Not):
                    tst, neg = tst.operand, True
                is_arc = isinstance(tst, ast.Call) and call_name(tst) == "isinstance" and len(tst.args) == 2 and isinstance(tst.args[0], ast.Name) and tst.args[0].id == seg \
                    and isinstance(tst.args[1], ast.Name) and tst.args[1].id == "Arc"
                if is_arc and not neg and asg and any(asg[0] is y for b_ in x.body for y in ast.walk(b_)):
                    guard = True
                if is_arc and neg and x.body and isinstance(x.body[-1], ast.Continue) and asg and asg[0].lineno > x.lineno:
                    guard = True
        ctx.ob("R19.4", "%s[arcs only]" % qual, guard, "", lp.lineno, "other segments are untouched")
        alg = Alg()
        for x in fn.body:
            if isinstance(x, ast.Assign):
                try:
                    alg.assign(x)
                except Uninterpreted:
                    pass
        cnt = []
        for c in gens:
            if c.args:
                a0 = c.args[0]
                if isinstance(a0, ast.Name):
                    ds = [v for tg, v, n in bindings(lp) if isinstance(tg, ast.Name) and tg.id == a0.id]
                    cnt.extend(ds)
                else:
                    cnt.append(a0)
        ok = False
        if cnt:
            v = cnt[0]
            while isinstance(v, ast.Call) and isinstance(v.func, ast.Name) and v.func.id in ("int", "ceil") and len(v.args) == 1:
                v = v.args[0]
            try:
                ok = alg.ev(v) == atom("abs(%s.sweep)" % seg) / (const(2) * atom("pi") * atom("error"))
            except Uninterpreted:
                ok = False
        ctx.ob("R19.4", "%s[slice count]" % qual, ok, ast.unparse(cnt[0])[:80] if cnt else "", lp.lineno, "count = ceil(|sweep| / (full turn x error)): a finer error gives more curves")
    si = ctx.fn("Path.__setitem__", "R19.4")
    ok = False
    for x in ast.walk(si):
        if isinstance(x, ast.If) and isinstance(x.test, ast.Call) and call_name(x.test) == "isinstance" and len(x.test.args) == 2 and isinstance(x.test.args[1], ast.Name) and x.test.args[1].id == "slice":
            ok = ok or any(isinstance(c, ast.Call) and attr_chain(c.func) == ["self", "validate_connections"] for y in x.body for c in ast.walk(y))
    ctx.ob("R19.4", "Path.__setitem__[slice revalidates]", ok, "", si.lineno, "slice assignment must re-link starts and ends of all segments")


def slice_count_uncapped(ctx):
    """Path.approximate_arcs_with_cubics / _quads derive the number of curves from |sweep| / (tau x error).  An Arc may sweep more
    than one turn (explicit-sweep constructor), so the count must grow with the sweep: clamping it from above (min(count, ...))
    makes the curves of a long arc wider than the error asked for."""
    for q in ("Path.approximate_arcs_with_cubics", "Path.approximate_arcs_with_quads"):
        fn = ctx.fn(q, "R19.3")
        # the count: what is handed to as_cubic_curves / as_quad_curves
        counts = {a.id for c in ast.walk(fn) if isinstance(c, ast.Call) and isinstance(c.func, ast.Attribute) and c.func.attr in ("as_cubic_curves", "as_quad_curves")
                  for a in list(c.args) + [k.value for k in c.keywords] if isinstance(a, ast.Name)}
        ctx.need(counts, "R19.3", "%s: slice count handed to the converter not found" % q)
        caps = []
        for c in ast.walk(fn):
            if isinstance(c, ast.Call) and call_name(c) == "min":
                par = getattr(c, "_parent", None)
                to_count = isinstance(par, ast.Assign) and any(isinstance(t, ast.Name) and t.id in counts for t in par.targets)
                if to_count or any(isinstance(x, ast.Name) and x.id in counts for a in c.args for x in ast.walk(a)):
                    caps.append(c)
        ctx.ob("R19.3", "%s[slice count grows with the sweep]" % q, not caps, "; ".join(ast.unparse(c)[:50] for c in caps), fn.lineno,
               "a 2.5-turn arc at error 0.1 needs 25 curves; capped at one turn's worth it gets 10 and leaves the ellipse by 2 % of the radius")
